//! Type-level witness for C20: expressions over thread-safe data types are Send + Sync.
//! Only type-checked (`cargo check`), never run.  The negative twins differ from the
//! positive build by exactly one line each (feature-gated) and must fail with E0277.
use exmex::{BinOp, DataType, DeepEx, FlatEx, MakeOperators, MatchLiteral, NumberMatcher, Operator};
use std::fmt::Debug;
use std::str::FromStr;

fn assert_send_sync<X: Send + Sync>() {}

/// For *every* thread-safe data type, operator factory and literal matcher.
pub fn generic<T, OF, LM>()
where
    T: DataType + Send + Sync,
    <T as FromStr>::Err: Debug,
    OF: MakeOperators<T> + Send + Sync,
    LM: MatchLiteral + Send + Sync,
{
    assert_send_sync::<FlatEx<T, OF, LM>>();
    assert_send_sync::<DeepEx<'static, T, OF, LM>>();
    assert_send_sync::<Operator<'static, T>>();
}

pub fn concrete() {
    assert_send_sync::<FlatEx<f32>>();
    assert_send_sync::<FlatEx<f64>>();
    assert_send_sync::<DeepEx<'static, f32>>();
    assert_send_sync::<DeepEx<'static, f64>>();
    assert_send_sync::<exmex::FlatExVal<i32, f64>>();
    assert_send_sync::<exmex::FlatExVal<i64, f32>>();
    assert_send_sync::<exmex::Val<i32, f64>>();
    assert_send_sync::<exmex::ExError>();
    assert_send_sync::<DeepEx<'static, exmex::Val<i32, f64>, exmex::ValOpsFactory<i32, f64>, exmex::ValMatcher>>();
}

/// Evaluation and all queries borrow the expression immutably: this function only
/// type-checks if every listed method takes `&self`.
pub fn shared_borrow_api<'a, E: exmex::Express<'a, f64>>(e: &E, vals: &[f64]) {
    let _ = e.eval(vals);
    let _ = e.eval_relaxed(vals);
    let _ = e.unparse();
    let _ = e.var_names();
    let _ = e.binary_reprs();
    let _ = e.unary_reprs();
    let _ = e.operator_reprs();
}
pub fn shared_borrow_api_flat(e: &FlatEx<f64>) {
    let _ = e.eval_vec(vec![]);
    let _ = e.eval_iter(std::iter::empty());
    let _ = e.var_indices_ordered();
}

// --- a data type with interior mutability (not Sync) -------------------------------
#[derive(Clone, Debug, Default)]
pub struct Celled(pub std::cell::Cell<f64>);
impl FromStr for Celled {
    type Err = std::num::ParseFloatError;
    fn from_str(s: &str) -> Result<Self, Self::Err> {
        Ok(Celled(std::cell::Cell::new(s.parse()?)))
    }
}
#[derive(Clone, Debug)]
pub struct CelledOps;
impl MakeOperators<Celled> for CelledOps {
    fn make<'a>() -> Vec<Operator<'a, Celled>> {
        vec![Operator::make_bin(
            "+",
            BinOp { apply: |a, b| Celled(std::cell::Cell::new(a.0.get() + b.0.get())), prio: 0, is_commutative: true },
        )]
    }
}
fn assert_send<X: Send>() {}
pub fn celled_is_still_send() {
    // compiles in the positive build: the twin's failure is about Sync, not about a wrong path
    assert_send::<FlatEx<Celled, CelledOps, NumberMatcher>>();
    assert_send::<DeepEx<'static, Celled, CelledOps, NumberMatcher>>();
}

pub fn negative_twins() {
    #[cfg(feature = "neg_flat")]
    assert_send_sync::<FlatEx<Celled, CelledOps, NumberMatcher>>();
    #[cfg(feature = "neg_deep")]
    assert_send_sync::<DeepEx<'static, Celled, CelledOps, NumberMatcher>>();
    #[cfg(feature = "neg_val")]
    assert_send_sync::<std::rc::Rc<exmex::Val<i32, f64>>>();
}
