#!/usr/bin/env python3
"""Markdown table of the independently seeded changes under /verif/seeded and which checks catch them."""
import glob, json, os
HERE = os.path.dirname(os.path.dirname(os.path.abspath(__file__)))
rows = []
for mp in sorted(glob.glob(os.path.join(HERE, "seeded", "*", "meta.json"))):
    m = json.load(open(mp))
    first = ""
    for k, v in (m.get("checks_fired") or {}).items():
        if v:
            first = v[0].split("  at ")[0][:110]
            break
    need = (m.get("needs_to_manifest") or "").replace("\n", " ")
    rows.append("| %s | %s | %s | %s | %s |" % (m["name"], m["property"], "yes" if m.get("confirmed") else "NO",
                                             ", ".join(sorted(m.get("checks_fired") or {})) or "**missed**", first.replace("|", "\\|")))
print("| seeded change | property | confirmed | caught by | first report |")
print("|---|---|---|---|---|")
print("\n".join(rows))
