#!/usr/bin/env python3
"""Turn the logs of a frozen `tools/recheck_all.sh` run (/tmp/recheck_*.log) into the committed records:
seeded/RECHECK_seeded.txt, seeded/benign/RECHECK_benign.txt, the `reported by` column of seeded/TABLE.md and
seeded/benign/TABLE.md.  Logs of later partial runs (recheck8_*.log, recheck9_*.log: tools/recheck_some.sh) override the
results of the full run for the changes they cover.  usage: recheck_tables.py [logdir]"""
import ast, glob, os, re, sys
HERE = os.path.dirname(os.path.dirname(os.path.abspath(__file__)))
logdir = sys.argv[1] if len(sys.argv) > 1 else "/tmp"
seeded, benign = {}, {}
# the committed records are the base; logs found in logdir override the entries they cover
_bs = os.path.join(HERE, "seeded", "RECHECK_seeded.txt")
_bb = os.path.join(HERE, "seeded", "benign", "RECHECK_benign.txt")
for lp in [x for x in (_bs, _bb) if os.path.exists(x)] +  sorted(glob.glob(os.path.join(logdir, "recheck_*.log"))) + sorted(glob.glob(os.path.join(logdir, "recheck8_*.log"))) + sorted(glob.glob(os.path.join(logdir, "recheck9_*.log"))) + sorted(glob.glob(os.path.join(logdir, "recheck91_*.log"))) + sorted(glob.glob(os.path.join(logdir, "recheck92_*.log"))) + sorted(glob.glob(os.path.join(logdir, "recheck93_*.log"))):
    cur = None
    for line in open(lp):
        line = line.rstrip("\n")
        m = re.match(r"^(C\d\d-agent\d*-m\d+) (confirmed=.*)$", line)
        if m:
            seeded[m.group(1)] = m.group(2)
            cur = None
            continue
        m = re.match(r"^([R-Z]\d+-r\d+) alarms: (.*)$", line)
        if m:
            cur = m.group(1)
            benign[cur] = [m.group(2)]
            continue
        if cur and line.strip() and not re.match(r"^(C\d\d-agent|[R-Z]\d+-r\d+ )", line):
            benign[cur].append(line.strip())


def natkey(n):
    return [int(x) if x.isdigit() else x for x in re.split(r"(\d+)", n)]


names_s = sorted(os.path.basename(os.path.dirname(p)) for p in glob.glob(os.path.join(HERE, "seeded", "C*", "meta.json")))
names_b = sorted((os.path.basename(os.path.dirname(p)) for p in glob.glob(os.path.join(HERE, "seeded", "benign", "*", "meta.json"))), key=natkey)
missing = [n for n in names_s if n not in seeded] + [n for n in names_b if n not in benign]
if missing:
    print("no result for (left out):", missing)
    names_s = [n for n in names_s if n in seeded]
    names_b = [n for n in names_b if n in benign]
with open(os.path.join(HERE, "seeded", "RECHECK_seeded.txt"), "w") as f:
    for n in names_s:
        f.write("%s %s\n" % (n, seeded[n]))
with open(os.path.join(HERE, "seeded", "benign", "RECHECK_benign.txt"), "w") as f:
    for n in names_b:
        f.write("%s alarms: %s\n" % (n, benign[n][0]))
        for extra in benign[n][1:]:
            f.write("    %s\n" % extra)

# seeded/TABLE.md: refresh the `reported by` column and the tally
tp = os.path.join(HERE, "seeded", "TABLE.md")
out, own_ok = [], 0
for line in open(tp):
    m = re.match(r"^\| (C\d\d-agent\d*-m\d+) \| (C\d\d) \| (.*) \| [^|]*\|$", line.rstrip("\n"))
    if m and m.group(1) in seeded:
        fired = ast.literal_eval(re.search(r"fired=(\[.*\])", seeded[m.group(1)]).group(1))
        own = m.group(2)
        own_ok += own in fired
        cell = ", ".join(("**%s**" % p) if p == own else p for p in fired) or "**missed**"
        line = "| %s | %s | %s | %s |\n" % (m.group(1), own, m.group(3), cell)
    out.append(line)
open(tp, "w").write("".join(out))

# seeded/benign/TABLE.md: regenerate
tp = os.path.join(HERE, "seeded", "benign", "TABLE.md")
head = []
for line in open(tp):
    if line.startswith("| batch |"):
        break
    head.append(line)
rows, per = [], {}
for n in names_b:
    b = n[0]
    st = per.setdefault(b, [0, 0, 0, 0])
    st[0] += 1
    first = benign[n][0]
    if "DOES NOT APPLY" in first:
        st[1] += 1
        cell = first
    elif first == "none":
        st[2] += 1
        cell = "-"
    else:
        st[3] += 1
        cell = first + " " + " / ".join(x[:160] for x in benign[n][1:3])
    rows.append("| %s | %s |" % (n, cell.replace("|", "\\|")))
with open(tp, "w") as f:
    f.write("".join(head))
    f.write("| batch | changes | no longer apply to HEAD | silent | alarm |\n|---|---|---|---|---|\n")
    tot = [0, 0, 0, 0]
    for b in sorted(per):
        f.write("| %s | %d | %d | %d | %d |\n" % (b, *per[b]))
        tot = [a + c for a, c in zip(tot, per[b])]
    f.write("| **all** | **%d** | **%d** | **%d** | **%d** |\n\n" % tuple(tot))
    f.write("| change | alarms |\n|---|---|\n")
    f.write("\n".join(rows) + "\n")
print("seeded: %d results, own-property reports: %d; benign: %d results, %s" % (len(names_s), own_ok, len(names_b), {b: per[b] for b in sorted(per)}))
