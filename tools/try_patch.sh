#!/bin/bash
# usage: try_patch.sh <patch file> <Cxx> [<Cyy> ...]   - apply to /repo, run the given quick checks, undo
set -u
P="$1"; shift
test -z "$(git -C /repo status --porcelain)" || { echo "/repo not clean"; exit 3; }
git -C /repo apply "$P" || exit 3
for c in "$@"; do (cd /verif && ./verif check "$c" 2>&1 | grep -v "^VIOLATION" | cut -c1-400 | head -${LINES_MAX:-8}); done
git -C /repo checkout -- .
