#!/usr/bin/env python3
"""Confirm an independently seeded change and run the checks against it.

usage: eval_seeded.py <mutation dir with patch.diff + demo.rs [+ README.md]> <property id> <name>
       eval_seeded.py --recheck <name>        (re-run only the checks for a stored change)

 1. scratch worktree of /repo HEAD (outside /repo and /verif): the demo passes without the patch; with the patch the
    crate builds, the existing suites pass (default and all features), and the demo fails;
 2. the patch is applied to /repo, every registered quick check is run, the patch is undone;
 3. everything is stored under /verif/seeded/<name>/ (patch.diff, demo.rs, meta.json).
"""
import json
import os
import shutil
import subprocess
import sys
import tempfile

VERIF = os.path.dirname(os.path.dirname(os.path.abspath(__file__)))


def sh(cmd, cwd=None, env=None, timeout=1800):
    r = subprocess.run(cmd, shell=True, cwd=cwd, env=env, stdout=subprocess.PIPE, stderr=subprocess.STDOUT, text=True, timeout=timeout)
    return r.returncode, r.stdout


def tests_ok(wt, extra=""):
    rc, out = sh("cargo test --offline %s 2>&1 | grep -E '^test result|FAILED|panicked|error(\\[|:)' " % extra, cwd=wt)
    bad = [l for l in out.splitlines() if "FAILED" in l or "panicked" in l or l.startswith("error")]
    okl = [l for l in out.splitlines() if l.startswith("test result: ok")]
    return (not bad) and len(okl) > 0, out[-600:]


def demo_result(wt):
    shutil.copy(os.path.join(wt, "_demo.rs"), os.path.join(wt, "tests", "zz_demo.rs"))
    rc, out = sh("cargo test --offline --all-features --test zz_demo 2>&1 | tail -15", cwd=wt)
    os.unlink(os.path.join(wt, "tests", "zz_demo.rs"))
    passed = "test result: ok" in out and "FAILED" not in out
    compiled = "error[" not in out and "could not compile" not in out
    return passed, compiled, out[-800:]


def run_checks(patch):
    """Apply the patch to a scratch worktree of /repo HEAD, run every registered quick check against it (VERIF_REPO),
    remove the worktree.  /repo itself and the committed evidence are left alone, so evaluations can run while the
    checks are being worked on."""
    fired = {}
    wt = tempfile.mkdtemp(prefix="seedrun-")
    os.rmdir(wt)
    ev = tempfile.mkdtemp(prefix="seedev-")
    sh("git -C /repo worktree add -q --detach %s HEAD" % wt)
    try:
        rc, out = sh("git apply %s" % os.path.abspath(patch), cwd=wt)
        assert rc == 0, out
        env = dict(os.environ, VERIF_REPO=wt, VERIF_EVIDENCE_DIR=ev)   # VERIF_CACHE_DIR is inherited if the caller set one
        m = json.load(open(os.path.join(VERIF, "MANIFEST.json")))
        for c in m["checks"]:
            rc, out = sh(c["quick_cmd"], cwd=VERIF, env=env)
            if rc != 0:
                fired[c["property_id"]] = [l.strip()[:300] for l in out.splitlines() if "VIOLATION" not in l and l.strip()][:6]
    finally:
        sh("git -C /repo worktree remove --force %s" % wt)
        shutil.rmtree(wt, ignore_errors=True)
        shutil.rmtree(ev, ignore_errors=True)
    return fired


def report(meta, fired):
    print(meta["name"], "confirmed=%s caught=%s own=%s fired=%s" % (meta.get("confirmed"), meta["caught"], meta["caught_by_own_property"], sorted(fired)))
    for k, v in fired.items():
        print("   ", k, v[:2])


def main():
    if sys.argv[1] == "--recheck":
        name = sys.argv[2]
        dst = os.path.join(VERIF, "seeded", name)
        meta = json.load(open(os.path.join(dst, "meta.json")))
        fired = run_checks(os.path.join(dst, "patch.diff"))
        meta["checks_fired"] = fired
        meta["caught"] = bool(fired)
        meta["caught_by_own_property"] = meta["property"] in fired
        json.dump(meta, open(os.path.join(dst, "meta.json"), "w"), indent=1, ensure_ascii=False)
        report(meta, fired)
        return
    src, pid, name = sys.argv[1], sys.argv[2], sys.argv[3]
    patch = os.path.join(src, "patch.diff")
    demo = os.path.join(src, "demo.rs")
    meta = {"property": pid, "name": name, "source": "independent sub-agent (given only the property text and a scratch worktree)"}
    readme = os.path.join(src, "README.md")
    if os.path.exists(readme):
        meta["needs_to_manifest"] = open(readme).read()[:3000]
    wt = tempfile.mkdtemp(prefix="seedchk-")
    os.rmdir(wt)
    sh("git -C /repo worktree add -q --detach %s HEAD" % wt)
    try:
        shutil.copy(demo, os.path.join(wt, "_demo.rs"))
        p0, c0, o0 = demo_result(wt)
        meta["demo_passes_without_patch"] = p0
        rc, out = sh("git apply %s" % patch, cwd=wt)
        meta["patch_applies"] = rc == 0
        if rc != 0:
            meta["error"] = out[-500:]
        else:
            rc, out = sh("cargo build --offline --all-features 2>&1 | tail -3", cwd=wt)
            meta["builds"] = "error" not in out
            meta["tests_all_features_pass"], t1 = tests_ok(wt, "--all-features")
            meta["tests_default_pass"], t2 = tests_ok(wt, "")
            p1, c1, o1 = demo_result(wt)
            meta["demo_fails_with_patch"] = (not p1) and c1
            meta["demo_output_with_patch"] = o1[-400:]
        meta["confirmed"] = bool(meta.get("demo_passes_without_patch") and meta.get("patch_applies") and meta.get("builds") and
                                 meta.get("tests_all_features_pass") and meta.get("tests_default_pass") and meta.get("demo_fails_with_patch"))
    finally:
        sh("git -C /repo worktree remove --force %s" % wt)
        shutil.rmtree(wt, ignore_errors=True)
    fired = run_checks(patch) if meta.get("patch_applies") else {}
    meta["checks_fired"] = fired
    meta["caught"] = bool(fired)
    meta["caught_by_own_property"] = pid in fired
    meta["ran"] = ["cargo build --offline --all-features", "cargo test --offline --all-features", "cargo test --offline",
                   "cargo test --offline --all-features --test zz_demo (with and without the patch)",
                   "git -C /repo apply patch.diff; every MANIFEST quick_cmd; git -C /repo checkout -- ."]
    dst = os.path.join(VERIF, "seeded", name)
    os.makedirs(dst, exist_ok=True)
    shutil.copy(patch, os.path.join(dst, "patch.diff"))
    shutil.copy(demo, os.path.join(dst, "demo.rs"))
    json.dump(meta, open(os.path.join(dst, "meta.json"), "w"), indent=1, ensure_ascii=False)
    report(meta, fired)


if __name__ == "__main__":
    main()
