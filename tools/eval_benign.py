#!/usr/bin/env python3
"""Run every registered quick check against a behaviour-preserving refactoring (false-alarm probe).

usage: eval_benign.py <dir with patch.diff [+ README.md]> <name>
The patch is applied to /repo, checks run, patch undone; result stored in /verif/seeded/benign/<name>/.
"""
import json, os, shutil, subprocess, sys
VERIF = os.path.dirname(os.path.dirname(os.path.abspath(__file__)))


def sh(cmd, cwd=None):
    r = subprocess.run(cmd, shell=True, cwd=cwd, stdout=subprocess.PIPE, stderr=subprocess.STDOUT, text=True)
    return r.returncode, r.stdout


def main():
    old = {}
    if sys.argv[1] == "--recheck":
        name = sys.argv[2]
        src = os.path.join(VERIF, "seeded", "benign", name)
        old = json.load(open(os.path.join(src, "meta.json")))
    else:
        src, name = sys.argv[1], sys.argv[2]
    patch = os.path.join(src, "patch.diff") if os.path.isdir(src) else src
    import tempfile
    wt = tempfile.mkdtemp(prefix="benignrun-")
    os.rmdir(wt)
    ev = tempfile.mkdtemp(prefix="benignev-")
    sh("git -C /repo worktree add -q --detach %s HEAD" % wt)
    rc, out = sh("git apply %s" % os.path.abspath(patch), cwd=wt)
    meta = {"name": name, "kind": "behaviour-preserving refactoring (independent sub-agent)", "patch_applies": rc == 0}
    alarms = {}
    try:
        if rc == 0:
            env = dict(os.environ, VERIF_REPO=wt, VERIF_EVIDENCE_DIR=ev)
            m = json.load(open(os.path.join(VERIF, "MANIFEST.json")))
            for c in m["checks"]:
                r2 = subprocess.run(c["quick_cmd"], shell=True, cwd=VERIF, env=env, stdout=subprocess.PIPE, stderr=subprocess.STDOUT, text=True)
                if r2.returncode != 0:
                    alarms[c["property_id"]] = [l.strip()[:400] for l in r2.stdout.splitlines() if "VIOLATION" not in l and l.strip()][:8]
        else:
            meta["apply_error"] = out[-300:]
    finally:
        sh("git -C /repo worktree remove --force %s" % wt)
        shutil.rmtree(wt, ignore_errors=True)
        shutil.rmtree(ev, ignore_errors=True)
    meta["alarms"] = alarms
    readme = os.path.join(src, "README.md") if os.path.isdir(src) else None
    if readme and os.path.exists(readme):
        meta["description"] = open(readme).read()[:2000]
    if "description" not in meta and old.get("description"):
        meta["description"] = old["description"]
    if old.get("alarms") and "alarms_first_run" not in old:
        meta["alarms_first_run"] = sorted(old["alarms"])
    elif "alarms_first_run" in old:
        meta["alarms_first_run"] = old["alarms_first_run"]
    dst = os.path.join(VERIF, "seeded", "benign", name)
    os.makedirs(dst, exist_ok=True)
    if os.path.abspath(patch) != os.path.abspath(os.path.join(dst, "patch.diff")):
        shutil.copy(patch, os.path.join(dst, "patch.diff"))
    json.dump(meta, open(os.path.join(dst, "meta.json"), "w"), indent=1, ensure_ascii=False)
    print(name, "alarms:", (sorted(alarms) or "none") if meta["patch_applies"] else "PATCH DOES NOT APPLY TO HEAD")
    for k, v in alarms.items():
        for l in v[:3]:
            print("    ", k, l[:260])


if __name__ == "__main__":
    main()
