#!/usr/bin/env python3
"""Regenerate /verif/MANIFEST.json from the rule modules present in rules/."""
import importlib
import json
import os
import sys

HERE = os.path.dirname(os.path.dirname(os.path.abspath(__file__)))
sys.path.insert(0, HERE)

NA = {
}
PENDING = "check under construction (see DESIGN.md section 4); not claimed until its rules are armed"

LEVEL_TEXT = {
    "C15": "Per-occurrence take/clone bookkeeping decided as a decision table with the relation derived from the comparison, plus origin of the marked position; value equality of the two evaluation styles is not decided.",
    "C16": "Kind/propagation clauses decided for all operand values by exhaustive abstract interpretation over operand kinds; values themselves are not decided.",
    "C17": "Closed-world audit: every may-panic or unchecked-integer site reachable from the Val operator table is in an audited class whose structural guard is re-established on every run; over-approximate (new safe sites are reported).",
    "C19": "Table clause decided for all argument values: every entry of the default float operator table is exactly the documented Rust primitive (resolved callee, argument order), constants carry the documented IEEE bits; defaults resolved at type level.",
    "C20": "All obligations discharged by the compiler's type system (generic Send+Sync witness with failing twins) plus exhaustive walks (no interior mutability, &self API, no unsafe, statics inventory, no nondeterminism source).",
}


def shared_note(pid):
    from rules import imports
    parts = ["%s (%s)" % (m.upper(), ", ".join(a) if a else "all clauses") for m, a, _ in imports.IMPORTS.get(pid, [])]
    return (" Also runs, as necessary conditions of this property, the shared clauses of " + "; ".join(parts) + " (rules/imports.py).") if parts else ""


def main():
    props = [json.loads(l) for l in open(os.path.join(HERE, "properties.jsonl"))]
    checks, na, claimed = [], [], []
    for p in props:
        pid = p["id"]
        path = os.path.join(HERE, "rules", pid.lower() + ".py")
        if os.path.exists(path) and pid not in NA:
            mod = importlib.import_module("rules." + pid.lower())
            claimed.append(pid)
            checks.append({
                "property_id": pid,
                "quick_cmd": "./verif check %s --tier quick" % pid,
                "thorough_cmd": "./verif check %s --tier thorough" % pid,
                "evidence_file": "/verif/evidence/%s.json" % pid,
                "replay_cmd_template": "./verif replay {path}",
                "engine": "exmex-facts+rules",
                "level_claimed": {"category": mod.LEVEL, "text": LEVEL_TEXT.get(pid) or getattr(mod, "LEVEL_TEXT", mod.EXPLANATION[:400]),
                                  "design_ref": "DESIGN.md section 4, " + pid},
                "level_note": "Decides the structural clauses named in the evidence file's explanation, not the whole behaviour."
                              + shared_note(pid) + " Trusted: " + "; ".join(getattr(mod, "TRUSTED", [])),
                "technique": mod.TECHNIQUE,
            })
        else:
            na.append({"property_id": pid, "reason": NA.get(pid, PENDING)})
    m = {
        "version": 1,
        "setup_cmd": "./verif setup",
        "hooks": {"guard": "exmex_verif",
                  "enable": "none needed: every check reads the unmodified source through the compiler (cfg exmex_verif reserved, unused)",
                  "baseline_off_cmd": "cd /repo && cargo test --workspace --no-fail-fast --offline",
                  "source_commits": [], "add_only": True},
        "engines": [
            {"name": "exmex-facts", "path": "/verif/driver", "serves_properties": claimed,
             "kind_free_text": "rustc_private driver exporting MIR / HIR / type facts of the current /repo tree as JSON (no rule logic)"},
            {"name": "rules", "path": "/verif/rules", "serves_properties": claimed,
             "kind_free_text": "Python rule modules over the fact base: CFG + dominators, path-sensitive abstract interpreter (constants, variant tags, terms), table extraction, call graph, panic-site audit, typestate"},
            {"name": "witness", "path": "/verif/witness", "serves_properties": [c for c in claimed if c in ("C20",)],
             "kind_free_text": "type-level witness crates (compile / compile-fail twins), only type-checked"},
        ],
        "checks": checks,
        "not_applicable": na,
        "notes": "Static analysis family only; nothing executes exmex code. Genuine defects found by the rules were repaired with fix: commits in /repo and are listed in /verif/known_findings.json (fixed entries suppress nothing). See DESIGN.md.",
    }
    with open(os.path.join(HERE, "MANIFEST.json"), "w") as f:
        json.dump(m, f, indent=1)
    print("claimed:", claimed)


if __name__ == "__main__":
    main()
