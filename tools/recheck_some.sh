#!/bin/bash
# usage: recheck_some.sh <slot 0..N-1> <N> "<globs of seeded names, e.g. 'C*-agent8-*' or 'C01-* C04-*'>" [nobenign]
#   like recheck_all.sh, restricted to the seeded changes matching the globs (plus, by default, every behaviour-preserving change)
SLOT=$1; N=$2; PATS=$3; NB=$4; i=0
export VERIF_CACHE_DIR=/tmp/vcache-$((SLOT+1))
mkdir -p $VERIF_CACHE_DIR
cd /verif
for PAT in $PATS; do
for d in seeded/$PAT/; do
  n=$(basename $d); i=$((i+1))
  if [ $((i % N)) -eq $SLOT ]; then python3 tools/eval_seeded.py --recheck $n 2>&1 | head -1; fi
done
done
[ -n "$NB" ] && exit 0
for d in seeded/benign/*/; do
  n=$(basename $d); i=$((i+1))
  if [ $((i % N)) -eq $SLOT ]; then python3 tools/eval_benign.py --recheck $n 2>&1 | head -3 | cut -c1-300; fi
done
