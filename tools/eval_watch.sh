#!/bin/bash
# usage: eval_watch.sh <slot> <N> <root> <infix> <rounds>  - keep evaluating finished sub-agent outputs (m1..m5) of the slot's share of properties
SLOT=$1; N=$2; ROOT=$3; INFIX=$4; ROUNDS=${5:-40}
export VERIF_CACHE_DIR=/tmp/vcache-$((SLOT+1))
for r in $(seq 1 $ROUNDS); do
  i=0
  for c in C01 C02 C03 C04 C05 C06 C07 C08 C09 C10 C11 C12 C13 C14 C15 C16 C17 C18 C19 C20; do
    i=$((i+1))
    if [ $((i % N)) -eq $SLOT ] && [ -f "$ROOT/$c/out/m5/README.md" ]; then
      /verif/tools/eval_batch5.sh "$ROOT" "$INFIX" $c
    fi
  done
  sleep 120
done
