#!/bin/bash
# usage: recheck_all.sh <slot 0..N-1> <N>   - re-run all checks against every stored seeded change / benign refactoring (slot-th share)
SLOT=$1; N=$2; i=0
export VERIF_CACHE_DIR=/tmp/vcache-$((SLOT+1))
mkdir -p $VERIF_CACHE_DIR
cd /verif
for d in seeded/C*/; do
  n=$(basename $d); i=$((i+1))
  if [ $((i % N)) -eq $SLOT ]; then python3 tools/eval_seeded.py --recheck $n 2>&1 | head -1; fi
done
for d in seeded/benign/*/; do
  n=$(basename $d); i=$((i+1))
  if [ $((i % N)) -eq $SLOT ]; then python3 tools/eval_benign.py --recheck $n 2>&1 | head -3 | cut -c1-300; fi
done
