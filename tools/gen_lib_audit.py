#!/usr/bin/env python3
"""One-off generator for spec/panic_audit.json#lib (population on the audited tree + reasons by class pattern).
The output is committed and reviewed; checks never run this script."""
import collections, json, os, re, sys
HERE = os.path.dirname(os.path.dirname(os.path.abspath(__file__)))
sys.path.insert(0, HERE)
from analysis import facts, panics
from rules import c06

REASONS = [
 (r"^index\|slice-like", "indexing of slices / vectors (bounds-check asserts and Index/IndexMut calls): every index comes from a loop range bounded by len, from `len-1` after the non-empty check, from `idx+1` behind the last-token-is-not-an-operator precondition (C07), from the parser's own variable table, from positions found by search in the same vector, from the priority order (a permutation of 0..#ops), or from the number tracker (distance to the next unconsumed operand; C14's invariant)"),
 (r"^index\|str", "byte offsets produced by char_indices / take_while(len_utf8) / next_char_boundary are char boundaries inside the text"),
 (r"^remove\|", "index < len: num_idx + 1 with num_idx from the priority order (< #nodes - 1), or element 0 of a non-empty unary list"),
 (r"^assert\|(DivisionByZero|RemainderByZero)", "divisor is usize::BITS (a non-zero constant)"),
 (r"^assert\|Overflow\(Shl\)", "1 << bit with bit < 64 (idx % 64, or single-word tracker used only for <= 64 operands)"),
 (r"expect\|usize", "next_char_boundary is only called with range_end < text.len(): a boundary exists within the next 4 bytes (guard: the searched offsets cover 1..len)"),
 (r"unwrap\|<-next|unwrap\|&str|unwrap\|String|unwrap\|T$", "first element of a sequence that is non-empty by construction (>= 1 node / operand), or NumCast of an f64 constant into a float type"),
 (r"unwrap\|\(usize,Operator\)", "inside take_while(is_some)"),
 (r"unwrap\|F$|unwrap\|I$", "f64 / small literal into a float or signed int type: always representable"),
 (r"unwrap\|Ordering", "partial_cmp on i64 / str is total"),
 (r"unwrap\|usize", "every variable of a node is in the union list it is re-indexed against (built from the same nodes; C04 R04.4)"),
 (r"expect\|Self", "from_deepex of a single-number expression cannot fail"),
 (r"expect\|SmallVec|unwrap\|SmallVec", "operator indices stored in an expression always exist in the factory's table they came from"),
 (r"unwrap\|DeepEx", "DeepEx::new with #nodes = #ops + 1 by construction"),
 (r"unwrap\|Regex", "constant, valid regular expressions"),
 (r"^diverge\|core::panicking::panic", "assert!/debug_assert! in flatex_to_deepex on indices that come from the expression's own priority order ('point of panic for invalid input': unreachable for expressions built by this crate)"),
 (r"^diverge\|std::rt::panic_fmt", "defensive panics on internal inconsistencies: unknown variable (variables come from the same token list), operator both constant and unary/binary (table construction), operator index not in the table, empty flat_ops after a non-empty test"),
]

def main():
    fb = facts.load()
    pop = c06.lib_population(fb)
    by = collections.defaultdict(list)
    for s in pop:
        k = panics.lib_key(s)
        if k is not None:
            by[k].append(s)
    out = []
    for k in sorted(by):
        reason = None
        for pat, r in REASONS:
            if re.search(pat, k):
                reason = r
                break
        if reason is None:
            print("NO REASON FOR", k, file=sys.stderr)
            reason = "UNREVIEWED"
        g = {"call|std::option::Option::<T>::expect|usize": ["char_boundary_range"], "index|str": ["str_index"],
             "call|std::result::Result::<T, E>::unwrap|DeepEx<T>": ["new_total"]}.get(k, ["none"])
        out.append({"key": k, "max": len(by[k]), "guards": g, "reason": reason,
                    "where": sorted({s["fn"].split("::")[-1] for s in by[k]})[:8]})
    path = os.path.join(HERE, "spec", "panic_audit.json")
    a = json.load(open(path))
    a["lib"] = out
    json.dump(a, open(path, "w"), indent=1, ensure_ascii=False)
    print(len(out), "classes,", len(pop), "sites")

if __name__ == "__main__":
    main()
