#!/usr/bin/env python3
"""One-off generator for spec/panic_audit.json#lib (population on the audited tree + reasons by class pattern).
The output is committed and reviewed; checks never run this script."""
import collections, json, os, re, sys
HERE = os.path.dirname(os.path.dirname(os.path.abspath(__file__)))
sys.path.insert(0, HERE)
from analysis import facts, panics
from rules import c06

REASONS = [
 (r"^assert\|BoundsCheck", "slice indexing: index comes from a loop range bounded by len, from `len-1` after the non-empty check, from the parser's own variable table, or from the number tracker (distance to the next unconsumed operand, bounded by the operand count; C14's invariant)"),
 (r"^assert\|(DivisionByZero|RemainderByZero)", "divisor is usize::BITS (a non-zero constant)"),
 (r"^assert\|Overflow\(Add\)\|i32", "parenthesis counters: +-1 per token, bounded by the token count"),
 (r"^assert\|Overflow\((Add|Mul)\)\|i64", "priority arithmetic: prio (0..=99) * 10 + 5, prio + depth * 1000 / + 100 per level; depth bounded by the token count, far below i64::MAX"),
 (r"^assert\|Overflow\(Add\)\|u32", "idx + 1 with idx < 64 (bit index inside one tracker word)"),
 (r"^assert\|Overflow\(Add\)\|usize", "index + 1 / offset + len arithmetic on positions inside an in-memory vector or text (bounded by its length)"),
 (r"^assert\|Overflow\(Mul\)\|usize", "word count * 64 for the tracker capacity"),
 (r"^assert\|Overflow\(Shl\)", "1 << bit with bit < 64 (idx % 64, or single-word tracker used only for <= 64 operands)"),
 (r"^assert\|Overflow\(Sub\)\|i32", "parenthesis counter - 1"),
 (r"^assert\|Overflow\(Sub\)\|i64", "depth - 1 at a closing parenthesis: depth >= 1 by the balance precondition (C07 R07.1)"),
 (r"^assert\|Overflow\(Sub\)\|usize", "len - 1 after the non-empty check; idx - distance with distance <= idx (tracker); index shifts after a removal at a smaller index"),
 (r"sort", "comparators are total (String/&str Ord; partial_cmp on i64/str never None); sort itself only panics if the comparator does"),
 (r"str>::get\|", "str::get returns None instead of panicking"),
 (r"::remove\|", "index < len: num_idx + 1 with num_idx from the priority order (< #nodes - 1), element 0 of a non-empty unary list"),
 (r"Iterator::(count|sum|enumerate|position|last)\|", "can only overflow beyond usize::MAX elements"),
 (r"Drop::drop", "dropping a Box does not panic"),
 (r"Index(Mut)?::index(_mut)?\|str", "byte offsets produced by char_indices / take_while(len_utf8) / next_char_boundary are char boundaries inside the text"),
 (r"Index(Mut)?::index(_mut)?\|", "same invariants as the slice bounds checks: indices from the priority order, loop ranges, the tracker, or positions found by search in the same vector"),
 (r"expect\|usize\|<-Iterator::find", "next_char_boundary is only called with range_end < text.len(): a boundary exists within the next 4 bytes"),
 (r"unwrap\|.*<-Iterator::next", "first element of a sequence that is non-empty by construction (>= 1 node / operand)"),
 (r"unwrap\|\(usize,Operator\)\|<-param", "inside take_while(is_some)"),
 (r"unwrap\|.*<-NumCast::from", "f64 / small literal into a float or signed int type: always representable"),
 (r"unwrap\|Ordering", "partial_cmp on i64 / str is total"),
 (r"unwrap\|usize\|<-Iterator::position", "every variable of a node is in the union list it is re-indexed against (built from the same nodes)"),
 (r"expect\|Self\|<-Express::from_deepex", "from_deepex of a single-number expression cannot fail"),
 (r"expect\|.*<-Iterator::next|unwrap\|SmallVec<\[str\]>", "operator indices stored in an expression always exist in the factory's table they came from"),
 (r"unwrap\|DeepEx", "DeepEx::new with #nodes = #ops + 1 by construction"),
 (r"unwrap\|Regex", "constant, valid regular expressions"),
 (r"String::push", "allocation failure only"),
 (r"Vec::<T, A>::push|with_capacity", "allocation failure / capacity overflow only"),
 (r"^diverge\|core::panicking::panic", "assert!/debug_assert! in flatex_to_deepex on indices that come from the expression's own priority order ('point of panic for invalid input': unreachable for expressions built by this crate)"),
 (r"^diverge\|std::rt::panic_fmt", "defensive panics on internal inconsistencies: unknown variable (variables come from the same token list), operator both constant and unary/binary (table construction), operator index not in the table, empty flat_ops after a non-empty test"),
]

def main():
    fb = facts.load()
    pop = c06.lib_population(fb)
    by = collections.defaultdict(list)
    for s in pop:
        by[panics.coarse_key(s)].append(s)
    out = []
    for k in sorted(by):
        reason = None
        for pat, r in REASONS:
            if re.search(pat, k):
                reason = r
                break
        if reason is None:
            print("NO REASON FOR", k, file=sys.stderr)
            reason = "UNREVIEWED"
        g = ["char_boundary_range"] if k == "call|std::option::Option::<T>::expect|usize|<-Iterator::find" else ["none"]
        out.append({"key": k, "max": len(by[k]), "guards": g, "reason": reason,
                    "where": sorted({s["fn"].split("::")[-1] for s in by[k]})[:8]})
    path = os.path.join(HERE, "spec", "panic_audit.json")
    a = json.load(open(path))
    a["lib"] = out
    json.dump(a, open(path, "w"), indent=1, ensure_ascii=False)
    print(len(out), "classes,", len(pop), "sites")

if __name__ == "__main__":
    main()
