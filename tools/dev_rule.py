#!/usr/bin/env python3
"""development aid: run rules/<module>.py as property <PID> against VERIF_REPO without touching /verif/evidence.
usage: VERIF_REPO=/tmp/x tools/dev_rule.py C15 c15_new"""
import importlib, os, sys, tempfile
HERE = os.path.dirname(os.path.dirname(os.path.abspath(__file__)))
sys.path.insert(0, HERE)
os.environ.setdefault("VERIF_EVIDENCE_DIR", tempfile.mkdtemp(prefix="devrule-"))
from analysis import facts, report
pid, modname = sys.argv[1], sys.argv[2]
mod = importlib.import_module("rules." + modname)


class Ctx:
    pass


ctx = Ctx()
chk = report.Check(pid, "quick", 0, mod.LEVEL, mod.EXPLANATION, mod.TECHNIQUE, assumptions=[], trusted_base=[])
ctx.check = chk
ctx.fb = facts.load(facts.ALL_FEATURES)
chk.meta = {}
mod.run(ctx)
rc = chk.finish("dev")
sys.exit(rc)
