#!/bin/bash
# like eval_batch.sh but for m1..m5
ROOT="$1"; INFIX="$2"; shift 2
for c in "$@"; do
  for m in m1 m2 m3 m4 m5; do
    d="$ROOT/$c/out/$m"; n="$c-$INFIX-$m"
    if [ -f "$d/patch.diff" ] && [ -f "$d/demo.rs" ] && [ ! -f "/verif/seeded/$n/meta.json" ]; then
      [ -f "$d/README.md" ] || touch "$d/README.md"
      (cd /verif && python3 tools/eval_seeded.py "$d" "$c" "$n" 2>&1 | head -8)
    fi
  done
done
