use exmex::prelude::*;
use exmex::{DeepEx, FlatEx};
// tiny deterministic rng
struct R(u64);
impl R { fn n(&mut self, m: u64) -> u64 { self.0 ^= self.0 << 13; self.0 ^= self.0 >> 7; self.0 ^= self.0 << 17; self.0 % m } }
#[derive(Clone, Debug)]
enum E { Num(f64), Var(usize), Bin(Box<E>, &'static str, Box<E>), Un(&'static str, Box<E>), Par(Box<E>) }
const BIN: [(&str, i64); 8] = [("^",4),("*",2),("/",3),("+",0),("-",1),("atan2",0),("min",0),("max",0)];
const UN: [&str; 4] = ["sin","cos","-","abs"];
// generate a flat chain: operand (op operand)*, operands may be parenthesised chains or unary applications
#[derive(Clone, Debug)]
enum Tok { Num(f64), Var(usize), Op(usize), Group(Vec<Tok>, Vec<&'static str>) /* chain + unary prefix applied to group */ , UnAtom(Vec<&'static str>, Box<Tok>) }
fn gen_chain(r: &mut R, depth: u32) -> Vec<Tok> {
    let n = 1 + r.n(5) as usize;
    let mut v = vec![gen_operand(r, depth)];
    for _ in 0..n { v.push(Tok::Op(r.n(BIN.len() as u64) as usize)); v.push(gen_operand(r, depth)); }
    v
}
fn gen_operand(r: &mut R, depth: u32) -> Tok {
    let k = r.n(10);
    if k < 4 { Tok::Num((r.n(9) + 1) as f64) }
    else if k < 7 { Tok::Var(r.n(3) as usize) }
    else if k < 9 && depth < 3 {
        let nu = r.n(3) as usize;
        let us = (0..nu).map(|_| UN[r.n(UN.len() as u64) as usize]).collect();
        Tok::Group(gen_chain(r, depth + 1), us)
    } else {
        let nu = 1 + r.n(2) as usize;
        let us: Vec<&'static str> = (0..nu).map(|_| UN[r.n(UN.len() as u64) as usize]).collect();
        let atom = if r.n(2) == 0 { Tok::Num((r.n(9) + 1) as f64) } else { Tok::Var(r.n(3) as usize) };
        Tok::UnAtom(us, Box::new(atom))
    }
}
fn render(c: &[Tok], out: &mut String) {
    for t in c { match t {
        Tok::Num(x) => out.push_str(&format!("{}", x)),
        Tok::Var(i) => out.push_str(["x","y","z"][*i]),
        Tok::Op(i) => { out.push(' '); out.push_str(BIN[*i].0); out.push(' '); }
        Tok::Group(ch, us) => { for u in us { out.push_str(u); out.push(' ');} out.push('('); render(ch, out); out.push(')'); }
        Tok::UnAtom(us, a) => { for u in us { out.push_str(u); out.push(' ');} render(std::slice::from_ref(a), out); }
    }}
}
fn un(name: &str, x: f64) -> f64 { match name { "sin" => x.sin(), "cos" => x.cos(), "-" => -x, "abs" => x.abs(), _ => unreachable!() } }
fn bin(i: usize, a: f64, b: f64) -> f64 { match BIN[i].0 { "^" => a.powf(b), "*" => a*b, "/" => a/b, "+" => a+b, "-" => a-b, "atan2" => a.atan2(b), "min" => a.min(b), "max" => a.max(b), _ => unreachable!() } }
fn eval_operand(t: &Tok, vars: &[f64]) -> f64 { match t {
    Tok::Num(x) => *x, Tok::Var(i) => vars[*i],
    Tok::Group(ch, us) => { let mut v = eval_chain(ch, vars); for u in us.iter().rev() { v = un(u, v); } v }
    Tok::UnAtom(us, a) => { let mut v = eval_operand(a, vars); for u in us.iter().rev() { v = un(u, v); } v }
    Tok::Op(_) => unreachable!() } }
fn eval_chain(c: &[Tok], vars: &[f64]) -> f64 {
    let mut vals: Vec<f64> = c.iter().step_by(2).map(|t| eval_operand(t, vars)).collect();
    let mut ops: Vec<usize> = c.iter().skip(1).step_by(2).map(|t| if let Tok::Op(i) = t { *i } else { unreachable!() }).collect();
    while !ops.is_empty() {
        let maxp = ops.iter().map(|i| BIN[*i].1).max().unwrap();
        let k = ops.iter().position(|i| BIN[*i].1 == maxp).unwrap();
        let r = bin(ops[k], vals[k], vals[k+1]);
        vals[k] = r; vals.remove(k+1); ops.remove(k);
    }
    vals[0]
}
fn close(a: f64, b: f64) -> bool { (a.is_nan() && b.is_nan()) || a == b || (a - b).abs() <= 1e-9 * (1.0 + a.abs().max(b.abs())) }
fn main() {
    let n: u64 = std::env::args().nth(1).map(|s| s.parse().unwrap()).unwrap_or(20000);
    let mut r = R(0x9E3779B97F4A7C15);
    let (mut bad_flat, mut bad_wo, mut bad_deep, mut bad_conv, mut total) = (0, 0, 0, 0, 0);
    let mut shown = 0;
    for _ in 0..n {
        let c = gen_chain(&mut r, 0);
        let mut s = String::new(); render(&c, &mut s);
        let vars_all = [0.5 + r.n(7) as f64, 1.5 + r.n(5) as f64, 2.25 + r.n(3) as f64];
        let refv = eval_chain(&c, &vars_all);
        if !refv.is_finite() { continue; }
        let f = match FlatEx::<f64>::parse(&s) { Ok(f) => f, Err(e) => { println!("PARSE FAIL {s}: {e}"); continue; } };
        let names = f.var_names().to_vec();
        let vals: Vec<f64> = names.iter().map(|n| vars_all[["x","y","z"].iter().position(|m| m == n).unwrap()]).collect();
        total += 1;
        let vf = f.eval(&vals).unwrap();
        let vw = FlatEx::<f64>::parse_wo_compile(&s).unwrap().eval(&vals).unwrap();
        let d = DeepEx::<f64>::parse(&s).unwrap();
        let vd = d.eval(&vals).unwrap();
        let vc = FlatEx::<f64>::from_deepex(f.clone().to_deepex().unwrap()).unwrap().eval(&vals).unwrap();
        let mut bad = false;
        if !close(vf, refv) { bad_flat += 1; bad = true; }
        if !close(vw, refv) { bad_wo += 1; bad = true; }
        if !close(vd, refv) { bad_deep += 1; bad = true; }
        if !close(vc, refv) { bad_conv += 1; bad = true; }
        if bad && shown < 12 && s.len() < 60 { shown += 1; println!("MISMATCH {s}  vars={vals:?} ref={refv} flat={vf} wo={vw} deep={vd} conv={vc}"); }
    }
    println!("total={total} bad_flat={bad_flat} bad_wo_compile={bad_wo} bad_deep={bad_deep} bad_flat->deep->flat={bad_conv}");
}
