//! Development-time differential run for C08 (NOT a check): random trees, every alphabetic binary operator rendered
//! either infix `((a) op (b))` or in call form `op(a, b)`; both renderings must parse and evaluate alike.
use exmex::prelude::*;
use exmex::{DeepEx, FlatEx};

struct Rng(u64);
impl Rng {
    fn next(&mut self) -> u64 { self.0 ^= self.0 << 13; self.0 ^= self.0 >> 7; self.0 ^= self.0 << 17; self.0 }
    fn below(&mut self, n: u64) -> u64 { self.next() % n }
}
enum Tree { Num(u32), Var(usize), Un(&'static str, Box<Tree>), Bin(&'static str, Box<Tree>, Box<Tree>, bool) }
const ALPHA: [&str; 3] = ["atan2", "min", "max"];
const SYM: [&str; 5] = ["+", "-", "*", "/", "^"];
const UN: [&str; 4] = ["sin", "cos", "-", "abs"];
fn gen(r: &mut Rng, depth: u32) -> Tree {
    if depth == 0 || r.below(5) == 0 {
        return if r.below(2) == 0 { Tree::Num(1 + r.below(9) as u32) } else { Tree::Var(r.below(3) as usize) };
    }
    match r.below(10) {
        0 | 1 => Tree::Un(UN[r.below(4) as usize], Box::new(gen(r, depth - 1))),
        2 | 3 | 4 => Tree::Bin(SYM[r.below(5) as usize], Box::new(gen(r, depth - 1)), Box::new(gen(r, depth - 1)), false),
        _ => Tree::Bin(ALPHA[r.below(3) as usize], Box::new(gen(r, depth - 1)), Box::new(gen(r, depth - 1)), r.below(3) != 0),
    }
}
fn render(t: &Tree, call: bool, extra: &mut Rng) -> String {
    match t {
        Tree::Num(n) => format!("{n}"),
        Tree::Var(i) => ["x", "y", "z"][*i].to_string(),
        Tree::Un(u, a) => format!("{u}({})", render(a, call, extra)),
        Tree::Bin(op, a, b, as_call) => {
            let (sa, sb) = (render(a, call, extra), render(b, call, extra));
            if call && *as_call {
                let s = format!("{op}({sa}, {sb})");
                if extra.below(4) == 0 { format!("({s})") } else { s }
            } else {
                format!("(({sa}) {op} ({sb}))")
            }
        }
    }
}
fn same(a: f64, b: f64) -> bool { (a.is_nan() && b.is_nan()) || a == b || (a - b).abs() <= 1e-9 * (1.0 + a.abs().max(b.abs())) }
fn main() {
    let mut r = Rng(0x9E3779B97F4A7C15);
    let (mut total, mut bad_parse, mut bad_val, mut shown) = (0, 0, 0, 0);
    let vals = [0.7, -1.3, 2.4];
    for _ in 0..40000 {
        let t = gen(&mut r, 4);
        let mut e1 = Rng(1); let mut e2 = Rng(r.next() | 1);
        let infix = render(&t, false, &mut e1);
        let call = render(&t, true, &mut e2);
        if infix == call { continue; }
        total += 1;
        let reference = match FlatEx::<f64>::parse(&infix) { Ok(f) => f, Err(_) => { continue; } };
        let names = reference.var_names().to_vec();
        let vs: Vec<f64> = names.iter().map(|n| vals[["x","y","z"].iter().position(|v| v == n).unwrap()]).collect();
        let want = reference.eval(&vs).unwrap();
        let mut bad = None;
        match FlatEx::<f64>::parse(&call) {
            Err(e) => { bad_parse += 1; bad = Some(format!("flat parse error {e}")); }
            Ok(f) => { let got = f.eval(&vs).unwrap(); if !same(got, want) { bad_val += 1; bad = Some(format!("flat {got} != {want}")); } }
        }
        if bad.is_none() {
            match DeepEx::<f64>::parse(&call) {
                Err(e) => { bad_parse += 1; bad = Some(format!("deep parse error {e}")); }
                Ok(d) => { let got = d.eval(&vs).unwrap(); if !same(got, want) { bad_val += 1; bad = Some(format!("deep {got} != {want}")); } }
            }
        }
        if let Some(b) = bad { if shown < 8 && call.len() < 70 { shown += 1; println!("MISMATCH {call}   vs   {infix}: {b}"); } }
    }
    println!("total={total} parse_errors={bad_parse} value_mismatches={bad_val}");
}
