use exmex::{Express, Val, parse_val};
use std::panic;
fn try_it(name: &str, f: impl FnOnce() -> String + panic::UnwindSafe) {
    match panic::catch_unwind(f) {
        Ok(s) => println!("{name}: ok -> {s}"),
        Err(_) => println!("{name}: PANIC"),
    }
}
fn main() {
    panic::set_hook(Box::new(|_| {}));
    try_it("minus MIN", || format!("{:?}", parse_val::<i32, f64>("-x").unwrap().eval(&[Val::Int(i32::MIN)])));
    try_it("abs MIN", || format!("{:?}", parse_val::<i32, f64>("abs(x)").unwrap().eval(&[Val::Int(i32::MIN)])));
    try_it("rem MIN % -1", || format!("{:?}", parse_val::<i32, f64>("x % y").unwrap().eval(&[Val::Int(i32::MIN), Val::Int(-1)])));
    try_it("to_int(1e10) at parse", || format!("{:?}", parse_val::<i32, f64>("to_int(10000000000.0)").map(|e| e.eval(&[]))));
    try_it("to_int(NaN)", || format!("{:?}", parse_val::<i32, f64>("to_int(x)").unwrap().eval(&[Val::Float(f64::NAN)])));
    try_it("2.0^3000000000 i64", || format!("{:?}", parse_val::<i64, f64>("x^y").unwrap().eval(&[Val::Float(2.0), Val::Int(3000000000)])));
    try_it("fact(usize::MAX) i128", || format!("{:?}", parse_val::<i128, f64>("fact(x)").unwrap().eval(&[Val::Int(usize::MAX as i128)])));
    try_it("x == 2 == false, x=2", || format!("{:?}", parse_val::<i32, f64>("x == 2 == false").unwrap().eval(&[Val::Int(2)])));
    try_it("(x == 2) == false, x=2", || format!("{:?}", parse_val::<i32, f64>("(x == 2) == false").unwrap().eval(&[Val::Int(2)])));
    try_it("10-2+3", || format!("{:?}", parse_val::<i32, f64>("10-2+3").unwrap().eval(&[])));
    try_it("x-2+3 x=10", || format!("{:?}", parse_val::<i32, f64>("x-2+3").unwrap().eval(&[Val::Int(10)])));
    try_it("x min 1 + 2, x=0 (f64)", || format!("{:?}", exmex::parse::<f64>("x min 1 + 2").unwrap().eval(&[0.0])));
    try_it("sin(x+3+2) x=1", || format!("{:?} vs {}", exmex::parse::<f64>("sin(x+3+2)").unwrap().eval(&[1.0]), (6.0f64).sin()));
}
