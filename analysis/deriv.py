"""TERM family: derivative rules of `make_partial_derivative_ops` as terms / CAS jobs."""
import json
import os
import re
import struct
import subprocess

from . import tables, facts
from .interp import Interp, Policy, Sym, App, Const, Variant, Closure, show

VD = "expression::partial::ValueDerivative"
HELPERS = {"abs", "sin", "cos", "tan", "sinh", "cosh", "tanh", "asin", "acos", "atan", "signum", "log", "log2", "log10", "ln",
           "round", "floor", "ceil", "exp", "sqrt", "cbrt", "fract", "trunc", "asinh", "acosh", "atanh"}
DEEP_M = re.compile(r"^expression::deep::DeepEx::<.*>::(\w+)$")


class Unrec(Exception):
    pass


class _Rules(Policy):
    max_depth = 5
    try_mode = "ok_only"

    def inline(self, fn, args, interp, path):
        # helper functions of the rule table itself (log_deri, partial_derisval, ...) are part of the rule
        return fn["path"].startswith("expression::partial::")


def table(fb):
    body = fb.one_body(lambda b: b["kind"] == "Fn" and b["locals"][0]["ty"].startswith("std::vec::Vec<expression::partial::PartialDerivative<"),
                       "derivative table constructor (fn returning Vec<PartialDerivative>)")
    return body, tables.derivative_table(fb, body)


def rule_value(fb, target, role):
    body = tables.target_body(fb, target)
    if body is None:
        raise Unrec("no body for rule %s" % tables.target_name(target))
    if role == "unary":
        args = [Sym("f")]
    else:
        args = [Variant(VD, None, {"val": Sym("a"), "der": Sym("da")}), Variant(VD, None, {"val": Sym("b"), "der": Sym("db")})]
    if isinstance(target, Closure):
        args = [Sym("env")] + args
    if body["arg_count"] != len(args):
        raise Unrec("rule arity %d" % body["arg_count"])
    ps = Interp(fb, _Rules()).run(body, args)
    ps = [p for p in ps if p.status != "unreachable"]
    if len(ps) != 1 or ps[0].status != "return":
        raise Unrec("rule is not straight-line: %s" % [(p.status, p.note) for p in ps][:3])
    v = ps[0].result
    if isinstance(v, Variant) and v.variant == "Ok":
        v = v.fields.get("0")
    return v, ps[0]


def f32_of(c):
    if c.bits is not None and c.ty == "f32":
        return struct.unpack("<f", struct.pack("<I", c.bits))[0]
    if c.bits is not None and c.ty == "f64":
        return struct.unpack("<d", struct.pack("<Q", c.bits))[0]
    m = re.match(r"^(-?[0-9.eE+-]+)f(32|64)$", c.text or "")
    if m:
        return float(m.group(1))
    raise Unrec("numeric constant not understood: %s" % show(c))


def to_ast(v, consts=None):
    """Term -> CAS AST. `consts` (list) collects how numeric constants enter."""
    if isinstance(v, Variant) and v.variant == "Ok":
        return to_ast(v.fields.get("0"), consts)
    if isinstance(v, Sym):
        if v.name == "f":
            return ["sym", "k"]
        if v.name in ("a", "b", "da", "db"):
            return ["sym", v.name]
        raise Unrec("unexpected symbol %s" % v.name)
    if not isinstance(v, App):
        raise Unrec("unexpected value %s" % show(v)[:80])
    fn = v.fn
    info = v.info or {}
    m = DEEP_M.match(fn)
    if m:
        name = m.group(1)
        if name == "one" and not v.args:
            if consts is not None:
                consts.append(("one", None))
            return ["num", "1"]
        if name == "zero" and not v.args:
            if consts is not None:
                consts.append(("zero", None))
            return ["num", "0"]
        if name == "from_num" and len(v.args) == 1:
            x = v.args[0]
            if isinstance(x, App) and x.fn == "std::convert::From::from" and len(x.args) == 1 and isinstance(x.args[0], Const):
                val = f32_of(x.args[0])
                if consts is not None:
                    consts.append(("from", x.args[0].ty, (x.info or {}).get("self_ty"), val))
                return ["num", repr(val)]
            raise Unrec("numeric constant does not enter through T::from(<literal>): %s" % show(x)[:80])
        if name == "without_latest_unary" and len(v.args) == 1:
            if isinstance(v.args[0], Sym) and v.args[0].name == "f":
                return ["sym", "u"]
            raise Unrec("without_latest_unary applied to %s" % show(v.args[0])[:60])
        if name == "pow" and len(v.args) == 2:
            return ["pow", to_ast(v.args[0], consts), to_ast(v.args[1], consts)]
        if name in HELPERS and len(v.args) == 1:
            return ["fn", name, to_ast(v.args[0], consts)]
        if name == "operate_unary" and len(v.args) == 2 and isinstance(v.args[1], Const) and v.args[1].s is not None:
            return ["fn", v.args[1].s, to_ast(v.args[0], consts)]
        if name == "operate_bin" and len(v.args) == 3 and isinstance(v.args[2], Const) and v.args[2].s is not None:
            op = v.args[2].s
            x, y = to_ast(v.args[0], consts), to_ast(v.args[1], consts)
            arith = {"+": "add", "-": "sub", "*": "mul", "/": "div", "^": "pow"}
            if op in arith:
                return [arith[op], x, y]
            return ["opbin", op, x, y]
        raise Unrec("DeepEx method %s is not part of the rule vocabulary" % name)
    ops = {"std::ops::Add::add": "add", "std::ops::Sub::sub": "sub", "std::ops::Mul::mul": "mul", "std::ops::Div::div": "div"}
    if fn in ops and len(v.args) == 2 and "DeepEx<" in (info.get("self_ty") or ""):
        return [ops[fn], to_ast(v.args[0], consts), to_ast(v.args[1], consts)]
    if fn == "std::ops::Neg::neg" and len(v.args) == 1 and "DeepEx<" in (info.get("self_ty") or ""):
        return ["neg", to_ast(v.args[0], consts)]
    raise Unrec("call %s is not part of the rule vocabulary" % fn)


def names_emitted(ast, out=None):
    """Operator names (with arity) a rule can emit into the derivative expression."""
    out = set() if out is None else out
    k = ast[0]
    if k == "fn":
        out.add((ast[1], 1))
        names_emitted(ast[2], out)
    elif k == "neg":
        out.add(("-", 1))
        names_emitted(ast[1], out)
    elif k in ("add", "sub", "mul", "div", "pow"):
        out.add(({"add": "+", "sub": "-", "mul": "*", "div": "/", "pow": "^"}[k], 2))
        names_emitted(ast[1], out)
        names_emitted(ast[2], out)
    elif k == "opbin":
        out.add((ast[1], 2))
        names_emitted(ast[2], out)
        names_emitted(ast[3], out)
    return out


def run_cas(jobs):
    if not jobs:
        return {}
    exe = shutil_which("python3-vt") or "/usr/local/bin/python3-vt"
    r = subprocess.run([exe, os.path.join(facts.VERIF, "analysis", "cas.py")], input=json.dumps(jobs), stdout=subprocess.PIPE,
                       stderr=subprocess.PIPE, text=True, timeout=600)
    if r.returncode != 0:
        raise RuntimeError("CAS back end failed: " + r.stderr[-800:])
    return {x["id"]: x for x in json.loads(r.stdout)}


def shutil_which(name):
    import shutil
    return shutil.which(name)
