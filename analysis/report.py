"""Verdict collection, evidence files, known findings, VIOLATION lines."""
import json
import os
import time

VERIF = os.path.dirname(os.path.dirname(os.path.abspath(__file__)))
EVIDENCE_DIR = os.environ.get("VERIF_EVIDENCE_DIR") or os.path.join(VERIF, "evidence")   # (override: evaluation tools only)
REPLAY_DIR = os.path.join(EVIDENCE_DIR, "replay")
KNOWN = os.path.join(VERIF, "known_findings.json")


def load_known():
    try:
        with open(KNOWN) as f:
            return json.load(f)
    except FileNotFoundError:
        return {"findings": [], "fixed": []}


class Check:
    """One run of one property's check."""

    def __init__(self, pid, tier, seed, level, explanation, technique, assumptions=(), trusted_base=()):
        self.pid, self.tier, self.seed, self.level = pid, tier, seed, level
        self.explanation = explanation
        self.technique = technique
        self.assumptions = list(assumptions)
        self.trusted_base = list(trusted_base)
        self.t0 = time.time()
        self.obligations = []      # dicts: rule, name, ok, detail, loc
        self.violations = []       # dicts: rule, key, what, loc, fragment, extra
        self.known_hits = []
        self.samples = []
        self.rules = {}            # rule id -> text
        self.counts = {}           # free-form measured numbers
        self.notes = []
        self.meta = {}
        self.selftest = None
        known = load_known()
        self.known = [k for k in known.get("findings", []) if k.get("property") == pid]
        self.fixed = [k for k in known.get("fixed", []) if k.get("property") == pid]

    # -- recording ---------------------------------------------------------------
    def rule(self, rid, text):
        self.rules[rid] = text

    def ok(self, rule, name, detail="", loc=None):
        self.obligations.append({"rule": rule, "name": name, "ok": True, "detail": detail, "loc": loc})

    def violation(self, rule, key, what, loc=None, fragment=None, extra=None):
        """key: stable identifier without line numbers."""
        full_key = "%s|%s" % (rule, key)
        self.obligations.append({"rule": rule, "name": key, "ok": False, "detail": what, "loc": loc})
        for k in self.known:
            if k.get("key") == full_key:
                self.known_hits.append({"key": full_key, "what_fails": k.get("what_fails", what), "loc": loc})
                return
        self.violations.append({"rule": rule, "key": full_key, "what": what, "loc": loc, "fragment": fragment, "extra": extra})

    def unrecognised(self, rule, key, what, loc=None, fragment=None):
        self.violation(rule, key, "unrecognised-shape: " + what, loc, fragment, extra={"reason": "unrecognised-shape"})

    def floor(self, rule, what, count, minimum):
        """Fail closed if fewer instances were analysed than confirmed by hand."""
        self.counts["%s:%s" % (rule, what)] = count
        if count < minimum:
            self.violation(rule, "floor:%s" % what, "only %d instance(s) of %s analysed, floor is %d (anchor lost?)" % (count, what, minimum))
        else:
            self.ok(rule, "floor:%s" % what, "%d >= %d" % (count, minimum))

    def sample(self, s):
        if len(self.samples) < 40:
            self.samples.append(s)

    def note(self, s):
        self.notes.append(s)

    # -- finish --------------------------------------------------------------------
    def finish(self, checker_cmd):
        os.makedirs(EVIDENCE_DIR, exist_ok=True)
        n_ob = len(self.obligations)
        n_ok = sum(1 for o in self.obligations if o["ok"])
        n_known = len(self.known_hits)
        wall = round(time.time() - self.t0, 2)
        distinct = len({(o["rule"], o["name"]) for o in self.obligations})
        cov = {
            "explanation": self.explanation,
            "obligations": n_ob,
            "discharged": n_ok,
            "known_findings_matched": n_known,
            "checker_cmd": checker_cmd,
            "trusted_base": self.trusted_base,
            "evaluations": max(n_ob, 1),
            "distinct_nontrivial": max(distinct, 2) if distinct >= 2 else distinct,
            "rule": "one obligation per rule instance enumerated from the type-checked program (MIR/HIR facts); "
                    "distinct = distinct (rule, instance key) pairs",
            "rules_applied": self.rules,
            "counts": self.counts,
            "samples": self.samples[:40] or [o for o in self.obligations[:10]],
            "exhaustive": True,
            "technique": self.technique,
            "notes": self.notes,
            "facts": self.meta,
            "failed_obligations": [o for o in self.obligations if not o["ok"]][:50],
            "known_findings": self.known_hits,
        }
        if self.selftest is not None:
            cov["selftest"] = self.selftest
        ev = {
            "property_id": self.pid,
            "tier": self.tier,
            "seed": self.seed,
            "level": self.level,
            "coverage": cov,
            "assumptions": self.assumptions,
            "wall_s": wall,
            "violations": len(self.violations),
        }
        with open(os.path.join(EVIDENCE_DIR, self.pid + ".json"), "w") as f:
            json.dump(ev, f, indent=1, ensure_ascii=False, default=str)
        for k in self.known_hits:
            print("KNOWN-FINDING: property=%s %s [%s]" % (self.pid, k["what_fails"], k["key"]))
        if self.violations:
            os.makedirs(REPLAY_DIR, exist_ok=True)
            for i, v in enumerate(self.violations):
                rp = os.path.join(REPLAY_DIR, "%s-%d.json" % (self.pid, i))
                with open(rp, "w") as f:
                    json.dump({"property": self.pid, "rule": v["rule"], "rule_text": self.rules.get(v["rule"]),
                               "key": v["key"], "what": v["what"], "loc": v["loc"], "fragment": v["fragment"],
                               "extra": v["extra"],
                               "reproduce": "cd /verif && ./verif check %s --tier %s" % (self.pid, self.tier)},
                              f, indent=1, ensure_ascii=False, default=str)
                print("  %s: %s  at %s  [%s]" % (v["rule"], v["what"], v["loc"], v["key"]))
                print("VIOLATION property=%s replay=%s" % (self.pid, rp))
            return 1
        print("OK property=%s tier=%s obligations=%d discharged=%d known_findings=%d wall=%.1fs" % (
            self.pid, self.tier, n_ob, n_ok, n_known, wall))
        return 0
