"""Rule dispatch through a looked-up function pointer (C05 R05.4): the shape-independent part.

A *unit* is a function or closure that, per operator of the expression, looks a rule up in a table and calls it through a
function pointer.  The analysis interprets the unit (crate-local helpers inlined, loops widened) and reads the ordered
trace of every path:

  (a) every call through a function pointer takes its callee from the designated rule field of a table entry
      (`.unary_outer_op(E)` / `.bin_op(E)` after unwrapping Some/Ok), and the entry E was selected by comparing its key
      `.repr` for equality (predicate of Iterator::find, or an `==` decided true on the path);
  (b) work is never completed without a rule:
        closure form - every return that is not Err has called a rule;
        loop form    - between two arrivals at the per-operator loop header a rule was called, and the loop is only left
                       with a non-Err result through its own exit condition (first decision after the last arrival is the
                       header's decision with the other outcome), not by `break`/`return Ok` from inside an iteration.

The unit's shape (iterator chain with `?`, explicit loops, helper functions, match vs. combinators) does not matter.
"""
from .interp import Interp, App, Variant, Tup, Closure, Sym, Const, Unknown, show

UNWRAP = {"ok", "as:Some", "as:Ok", ".0", ".1", ".2", "deref", "std::clone::Clone::clone", "std::ops::Deref::deref",
          "std::option::Option::<T>::ok_or_else", "std::option::Option::<T>::ok_or", "std::option::Option::<T>::as_ref",
          "std::option::Option::<&T>::copied", "std::option::Option::<&T>::cloned", "std::ops::Index::index",
          "std::convert::AsRef::as_ref", "std::borrow::Borrow::borrow"}


def strip(v):
    while isinstance(v, App) and v.fn in UNWRAP and v.args:
        v = v.args[0]
    return v


def subterms(v, depth=0):
    yield v
    if depth > 40:
        return
    if isinstance(v, App):
        for a in v.args:
            yield from subterms(a, depth + 1)
    elif isinstance(v, Variant):
        for a in v.fields.values():
            yield from subterms(a, depth + 1)
    elif isinstance(v, Tup):
        for a in v.elems:
            yield from subterms(a, depth + 1)
    elif isinstance(v, Closure):
        for a in v.caps.values():
            yield from subterms(a, depth + 1)


def is_key_eq(v, key_field=".repr"):
    """`x.repr == y` in either order: returns (entry term x) or None."""
    if isinstance(v, App) and v.fn in ("std::cmp::PartialEq::eq", "binop:Eq") and len(v.args) == 2:
        for a, b in (v.args, v.args[::-1]):
            a = strip(a)
            if isinstance(a, App) and a.fn == key_field and not isinstance(strip(b), Const):
                return a.args[0]
    return None


def closure_result(fb, clo, policy, nargs=None):
    cb = fb.bodies.get(clo.path)
    if cb is None:
        return []
    args = [Sym("env")] + [Sym("cand%d" % i) for i in range(cb["arg_count"] - 1)]
    ps = Interp(fb, policy).run(cb, args)
    return [p for p in ps if p.status == "return"]


def selected_by_key(fb, entry, path, policy, depth=0):
    """Was table entry `entry` selected by an equality test on its key?"""
    if depth > 3:
        return False
    e = strip(entry)
    # an `==` on this very entry's key decided true on the path
    for d in path.decisions:
        if d[2] is True or d[2] == "True":
            x = is_key_eq(d[1])
            if x is not None and strip(x).key() == e.key():
                return True
    for s in subterms(entry):
        if isinstance(s, App) and s.fn in ("std::iter::Iterator::find", "std::iter::Iterator::position", "std::iter::Iterator::find_map") and len(s.args) == 2 \
                and isinstance(s.args[1], Closure):
            rs = closure_result(fb, s.args[1], policy)
            if len(rs) == 1 and is_key_eq(rs[0].result) is not None:
                return True
        if isinstance(s, Closure):
            # e.g. the closure of a `.map(..)` that performs the lookup for every operator name
            for r in closure_result(fb, s, policy):
                if r.result is not None and r.result.key() != entry.key() and selected_by_key(fb, r.result, r, policy, depth + 1):
                    return True
    return False


def _sk(span):
    return str(sorted(span.items())) if isinstance(span, dict) else str(span)


class Result:
    def __init__(self):
        self.paths = 0
        self.calls = 0
        self.form = None
        self.problems = []      # (key, text)
        self.unrecognised = []  # (key, text)


def analyse(fb, body, args, field, policy):
    """See module docstring. `field` is the name of the rule field, e.g. '.bin_op'."""
    res = Result()
    ps = [p for p in Interp(fb, policy).run(body, args) if p.status != "unreachable"]
    res.paths = len(ps)
    for p in ps:
        if p.status not in ("return", "loop-pruned"):
            res.unrecognised.append(("shape", "%s: %s" % (p.status, p.note)))
    unit = body["path"]

    def is_head(x):
        return x[0] == "e" and x[1][0] == "loophead" and x[1][2] == unit and x[1][3] == 0

    # ---- (a) provenance of every callee
    for p in ps:
        for ev in p.events:
            if ev[0] != "callptr":
                continue
            res.calls += 1
            c = strip(ev[1])
            if not (isinstance(c, App) and c.fn == field and len(c.args) == 1):
                res.problems.append(("callee", "a function pointer that is not the %s of a table entry is called: %s" % (field, show(ev[1])[:160])))
                continue
            if not selected_by_key(fb, c.args[0], p, policy):
                res.problems.append(("entry", "the rule is taken from an entry that was not selected by comparing its key: %s" % show(c.args[0])[:160]))
    if res.calls == 0:
        return res
    # ---- which loop (if any) iterates over the operators?
    head = None
    first_seen = {}
    for p in ps:
        last = {}
        for i, x in enumerate(p.trace):
            if is_head(x):
                h = x[1][1]
                first_seen.setdefault(h, i)
                last[h] = i
            elif x[0] == "e" and x[1][0] == "callptr":
                for h in last:
                    # a later arrival at h proves the call was inside an iteration of h
                    if any(is_head(y) and y[1][1] == h for y in p.trace[i + 1:]):
                        if head is None or first_seen[h] < first_seen[head]:
                            head = h
    if head is None:
        res.form = "closure"
        for p in ps:
            if p.status != "return":
                continue
            r = p.result
            if isinstance(r, Variant) and r.variant in ("Err", "None"):
                continue
            if not any(ev[0] == "callptr" for ev in p.events):
                res.problems.append(("skip", "returns %s without having applied a rule" % show(r)[:120]))
        return res
    res.form = "loop@bb%d" % head
    cont = {}   # span of the header decision -> outcomes seen at the start of completed iterations
    finals = []
    for p in ps:
        idx = [i for i, x in enumerate(p.trace) if is_head(x) and x[1][1] == head]
        if not idx:
            continue
        for a, b in zip(idx, idx[1:]):
            seg = p.trace[a + 1:b]
            ds = [x[1] for x in seg if x[0] == "d"]
            if ds:
                cont.setdefault(_sk(ds[0][3]), set()).add(str(ds[0][2]))
            if not any(x[0] == "e" and x[1][0] == "callptr" for x in seg):
                res.problems.append(("skip", "an iteration of the per-operator loop completes without applying a rule (decisions: %s)" % [
                    (show(d[1])[:60], d[2]) for d in ds][-3:]))
        if p.status == "return" and not (isinstance(p.result, Variant) and p.result.variant in ("Err", "None")):
            finals.append((p, [x[1] for x in p.trace[idx[-1] + 1:] if x[0] == "d"]))
    for p, ds in finals:
        if not ds:
            res.unrecognised.append(("exit", "the per-operator loop is left without a decision"))
            continue
        d = ds[0]
        if _sk(d[3]) in cont and str(d[2]) not in cont[_sk(d[3])]:
            continue
        if not cont:
            res.unrecognised.append(("exit", "no completed iteration of the per-operator loop was observed"))
            continue
        res.problems.append(("exit", "the per-operator loop is left from inside an iteration with a result that is not an error (first decision after the header: %s = %s)" % (show(d[1])[:80], d[2])))
    return res
