"""DOM family on CFGs with loops: dominating edges, guard terms (origins), Ok/Err returns.

`term_of` is a flow-insensitive backward origin tracer: temporaries with a single
definition are expanded (copies, reborrows, casts, binops, calls with resolved callee),
named variables that are mutated (multiple definitions or mutably borrowed) stay as
`var:<name>`; parameters as `param:<name>`.  It is used to *recognise* guard
conditions, never to evaluate them.
"""
import re

from . import mir


class Origins:
    def __init__(self, body):
        self.body = body
        self.types = {}
        self.defs = mir.local_defs(body)
        self.mut_borrowed = set()
        nb = mir.normal_blocks(body)
        for bi, si, st in mir.iter_stmts(body, nb):
            if st["k"] == "assign" and st["rv"]["k"] == "ref" and "Mut" in st["rv"]["borrow"] and not st["rv"]["place"]["proj"]:
                self.mut_borrowed.add(st["rv"]["place"]["local"])
        # partial writes (field assignments) also count as mutation
        self.partially_written = set()
        for bi, si, st in mir.iter_stmts(body, nb):
            if st["k"] == "assign" and st["place"]["proj"] and st["place"]["proj"][0]["k"] != "deref":
                self.partially_written.add(st["place"]["local"])

    def name(self, local):
        n = self.body["locals"][local].get("name")
        if n is None:
            return None
        same = [i for i, l in enumerate(self.body["locals"]) if l.get("name") == n]
        if len(same) > 1:
            return "%s#%d" % (n, same.index(local))
        return n

    def local_term(self, local, depth=0):
        b = self.body
        nm = self.name(local)
        if 0 < local <= b["arg_count"]:
            return "param:%s" % (nm or local)
        ds = self.defs.get(local, [])
        stable = len(ds) == 1 and local not in self.partially_written
        if nm and (not stable or local in self.mut_borrowed):
            return "var:%s" % nm
        if not stable or depth > 14:
            return "var:%s" % (nm or ("_%d" % local))
        d = ds[0]
        if d[0] == "call":
            t = d[2]
            f = t["func"]
            fn = f["path"] if f.get("k") == "fndef" else "fnptr"
            return "%s(%s)" % (fn, ", ".join(self.op_term(a, depth + 1) for a in t["args"]))
        return self.rv_term(d[3], depth + 1)

    def local_by_name(self, name):
        for i in range(len(self.body["locals"])):
            if self.name(i) == name:
                return i
        return None

    def def_term(self, local):
        """Term of the single definition of a (possibly mutated) variable, or None."""
        ds = self.defs.get(local, [])
        if len(ds) != 1:
            return None
        d = ds[0]
        if d[0] == "call":
            t = d[2]
            f = t["func"]
            fn = f["path"] if f.get("k") == "fndef" else "fnptr"
            return "%s(%s)" % (fn, ", ".join(self.op_term(a, 1) for a in t["args"]))
        return self.rv_term(d[3], 1)

    def expand(self, term, rounds=3):
        """Replace `var:_N` (compiler temporaries with a single definition that are mutably borrowed) by their definition."""
        for _ in range(rounds):
            m = re.search(r"var:_(\d+)(?![\w#])", term)
            if not m:
                break
            d = self.def_term(int(m.group(1)))
            if d is None:
                break
            term = term[:m.start()] + d + term[m.end():]
        return term

    def expand_named(self, term, rounds=3):
        """Like expand, but also for named variables with a single definition (`let mut iter = ..; iter.next()`)."""
        for _ in range(rounds):
            term = self.expand(term)
            m = re.search(r"var:([A-Za-z_]\w*(?:#\d+)?)", term)
            if not m or re.match(r"^_\d+$", m.group(1)):
                break
            l = self.local_by_name(m.group(1))
            d = self.def_term(l) if l is not None else None
            if d is None:
                break
            term = term[:m.start()] + d + term[m.end():]
        return term

    def place_term(self, place, depth=0):
        s = self._place_term(place, depth)
        self.types.setdefault(s, place.get("ty"))
        return s

    def _place_term(self, place, depth=0):
        s = self.local_term(place["local"], depth)
        for e in place["proj"]:
            k = e["k"]
            if k == "deref":
                continue
            if k == "field":
                if e["name"] == "0" and re.match(r"^(Add|Sub|Mul|Shl|Shr)\(", s):
                    continue  # value part of a checked arithmetic (value, overflow-flag) pair
                s = "%s.%s" % (s, e["name"])
            elif k == "downcast":
                s = "(%s as %s)" % (s, e["variant"])
            elif k == "index":
                s = "%s[%s]" % (s, self.local_term(e["local"], depth + 1))
            elif k == "constindex":
                s = "%s[%s%d]" % (s, "-" if e["from_end"] else "", e["offset"])
            else:
                s = "%s.<%s>" % (s, k)
        return s

    def op_term(self, o, depth=0):
        k = o["k"]
        if k in ("copy", "move"):
            return self.place_term(o["place"], depth)
        if k == "const":
            if o.get("str") is not None:
                return repr(o["str"])
            if "fn" in o:
                return "fn:" + o["fn"]["path"]
            if o.get("static"):
                return "static(%s)" % o["static"]
            return o.get("named") or o.get("text", "const").replace("const ", "")
        return "?"

    def rv_term(self, rv, depth=0):
        k = rv["k"]
        if k == "use":
            return self.op_term(rv["op"], depth)
        if k in ("ref", "rawptr"):
            return self.place_term(rv["place"], depth)
        if k == "cast":
            return self.op_term(rv["op"], depth)
        if k == "binop":
            op = rv["op"].replace("WithOverflow", "")
            return "%s(%s, %s)" % (op, self.op_term(rv["a"], depth), self.op_term(rv["b"], depth))
        if k == "unop":
            if rv["op"] == "PtrMetadata":
                return "len(%s)" % self.op_term(rv["a"], depth)
            return "%s(%s)" % (rv["op"], self.op_term(rv["a"], depth))
        if k == "discriminant":
            return "discr(%s)" % self.place_term(rv["place"], depth)
        if k == "aggregate":
            name = rv.get("adt") or rv.get("closure") or rv["agg"]
            if rv.get("variant") and rv["agg"] == "adt":
                name += "::" + rv["variant"]
            return "%s{%s}" % (name, ", ".join(self.op_term(o, depth) for o in rv["ops"]))
        return "<%s>" % k


def remove_edge_reach(body, edge, target):
    """Is `target` reachable from entry when CFG edge (s, t) is removed?"""
    s0, t0 = edge
    seen = {0}
    work = [0]
    while work:
        b = work.pop()
        for s in mir.succs(body, b):
            if b == s0 and s == t0:
                continue
            if s not in seen:
                seen.add(s)
                work.append(s)
    return target in seen


def switch_edges(body, bi):
    """[(label, target)] of a SwitchInt terminator; bool switches get True/False labels."""
    t = body["blocks"][bi]["term"]
    if t["k"] != "switch":
        return []
    tg = [(int(v), b) for v, b in t["targets"]]
    if t.get("discr_ty") == "bool" and len(tg) == 1:
        v, b = tg[0]
        return [(bool(v), b), (not bool(v), t["otherwise"])]
    out = [(v, b) for v, b in tg]
    out.append(("otherwise", t["otherwise"]))
    return out


def dominating_guards(body, block, org=None):
    """[(switch bb, label, discr term)] for every switch edge that all paths entry->block must take."""
    org = org or Origins(body)
    dom = mir.dominators(body)
    out = []
    for s in sorted(dom.get(block, ())):
        t = body["blocks"][s]["term"]
        if t["k"] != "switch" or s == block and False:
            continue
        edges = switch_edges(body, s)
        # multiple labels may share a target: group by target
        by_target = {}
        for lab, tgt in edges:
            by_target.setdefault(tgt, []).append(lab)
        for tgt, labs in by_target.items():
            if tgt == block or tgt in dom.get(block, ()):
                if not remove_edge_reach(body, (s, tgt), block):
                    out.append((s, labs[0] if len(labs) == 1 else tuple(labs), org.op_term(t["discr"]), t["span"]))
    return out


def result_assign_blocks(body, variant):
    """Blocks (normal) that assign `_0 = Result::<variant>{..}` (or Option)."""
    out = []
    nb = mir.normal_blocks(body)
    for bi, si, st in mir.iter_stmts(body, nb):
        if st["k"] == "assign" and st["place"]["local"] == 0 and not st["place"]["proj"]:
            rv = st["rv"]
            if rv["k"] == "aggregate" and rv["agg"] == "adt" and rv.get("variant") == variant:
                out.append(bi)
    return sorted(set(out))


def residual_blocks(body):
    """Blocks that return an error through `?` (FromResidual::from_residual into _0)."""
    out = []
    for bi, t in mir.calls(body):
        if mir.callee_path(t) == "std::ops::FromResidual::from_residual" and t["dest"]["local"] == 0:
            out.append(bi)
    return out


def call_blocks(body, pred):
    """[(bb, term)] of calls whose resolved callee path satisfies pred."""
    return [(bi, t) for bi, t in mir.calls(body) if mir.callee_path(t) and pred(mir.callee_path(t), t)]


def question_mark_ok_edge(body, call_bb):
    """For `x = f(..)?`: the block reached when the call result is Ok/Continue, or None.

    Shape: call f -> bbA: Try::branch(result) -> bbB: discr; switch [0: cont, 1: brk].
    """
    t = body["blocks"][call_bb]["term"]
    if t["k"] != "call" or t["target"] is None:
        return None
    dest = t["dest"]["local"]
    b = t["target"]
    steps = 0
    while steps < 4:
        blk = body["blocks"][b]
        tt = blk["term"]
        if tt["k"] == "call" and mir.callee_path(tt) == "std::ops::Try::branch":
            a = tt["args"][0]
            if a.get("k") in ("move", "copy") and a["place"]["local"] == dest and tt["target"] is not None:
                sw = tt["target"]
                st = body["blocks"][sw]["term"]
                if st["k"] == "switch":
                    for v, tgt in st["targets"]:
                        if int(v) == 0:
                            return (sw, tgt)
            return None
        if tt["k"] == "goto":
            b = tt["target"]
            steps += 1
            continue
        return None
    return None


def reaches_only_err(body, start, loop_headers=()):
    """All paths from `start` end in a return without ever assigning Ok to _0 or re-entering a loop."""
    reach = mir.reach_from(body, start)
    oks = set(result_assign_blocks(body, "Ok")) | set(result_assign_blocks(body, "Some"))
    if reach & oks:
        return False, "an Ok-return is reachable"
    if reach & set(loop_headers):
        return False, "the loop continues"
    errs = set(result_assign_blocks(body, "Err")) | set(residual_blocks(body))
    if not (reach & errs):
        return False, "no Err-return reachable"
    return True, ""


def refine(body):
    """Copy of `body` with statically infeasible `?` edges removed.

    `Err(e)?` / `return Err(e)?`: Try::branch of a value whose single definition is the aggregate
    Result::Err (or Option::None) can only take the Break edge; likewise Ok/Some -> Continue.
    """
    defs = mir.local_defs(body)
    new_blocks = None
    for bi, blk in enumerate(body["blocks"]):
        t = blk["term"]
        if t["k"] != "call" or mir.callee_path(t) != "std::ops::Try::branch" or t["target"] is None:
            continue
        a = t["args"][0]
        if a.get("k") not in ("move", "copy") or a["place"]["proj"]:
            continue
        ds = defs.get(a["place"]["local"], [])
        if len(ds) != 1 or ds[0][0] != "stmt":
            continue
        rv = ds[0][3]
        if rv["k"] != "aggregate" or rv["agg"] != "adt" or rv.get("variant") not in ("Err", "None", "Ok", "Some"):
            continue
        want = 1 if rv["variant"] in ("Err", "None") else 0
        sw = t["target"]
        st = body["blocks"][sw]["term"]
        if st["k"] != "switch":
            continue
        tgt = None
        for v, b in st["targets"]:
            if int(v) == want:
                tgt = b
        if tgt is None:
            continue
        if new_blocks is None:
            new_blocks = list(body["blocks"])
        nb = dict(new_blocks[sw])
        nb["term"] = {"k": "goto", "target": tgt, "span": st["span"]}
        new_blocks[sw] = nb
    if new_blocks is None:
        return body
    out = dict(body)
    out["blocks"] = new_blocks
    return out


# ---- tiny term parser / linear normaliser ------------------------------------------

def parse_term(s):
    """'Ne(Add(f(x), 1_usize), g(y))' -> ('Ne', [('Add', [('f', ['x']), '1_usize']), ('g', ['y'])]).

    Atoms are strings: plain names, parenthesised projections `(x as V).0`, aggregates `Name{..}`,
    and calls followed by a projection `f(x).1`.
    """
    # quoted literals may contain brackets: mask their content while scanning
    masked = {}

    def _mask(m):
        k = "\x01%d\x01" % len(masked)
        masked[k] = m.group(2)
        return m.group(1) + k
    s = re.sub(r"((?:^|[({]|, |: ))('(?:[^'\\]|\\.)*')(?=$|[),}])", _mask, s)

    def _unmask(x):
        if isinstance(x, tuple):
            return (_unmask(x[0]), [_unmask(a) for a in x[1]])
        for k, v in masked.items():
            x = x.replace(k, v)
        return x
    n = len(s)

    def skip_balanced(i, open_ch, close_ch):
        depth = 0
        while i < n:
            c = s[i]
            if c == open_ch:
                depth += 1
            elif c == close_ch:
                depth -= 1
                if depth == 0:
                    return i + 1
            i += 1
        return n

    def trailing(i):
        """consume `.field` / ` as X` suffixes up to a top-level ',' or ')'"""
        while i < n and s[i] not in ",)":
            if s[i] == "(":
                i = skip_balanced(i, "(", ")")
            elif s[i] == "{":
                i = skip_balanced(i, "{", "}")
            else:
                i += 1
        return i

    def parse(i):
        while i < n and s[i] == " ":
            i += 1
        start = i
        if i < n and s[i] == "(":
            j = trailing(skip_balanced(i, "(", ")"))
            return s[start:j].strip(), j
        angle = 0
        while i < n:
            c = s[i]
            if c == "<":
                angle += 1
            elif c == ">":
                angle -= 1
            elif angle <= 0 and c in "(),{":
                break
            i += 1
        if i < n and s[i] == "{":
            j = trailing(skip_balanced(i, "{", "}"))
            return s[start:j].strip(), j
        head = s[start:i].strip()
        if i < n and s[i] == "(" and head:
            i += 1
            args = []
            while i < n and s[i] == " ":
                i += 1
            if i < n and s[i] == ")":
                i += 1
            else:
                while True:
                    a, i = parse(i)
                    args.append(a)
                    if i >= n:
                        break
                    if s[i] == ",":
                        i += 1
                        continue
                    if s[i] == ")":
                        i += 1
                        break
                    break
            if i < n and s[i] not in ",)":
                j = trailing(i)
                return s[start:j].strip(), j
            return (head, args), i
        return head, i
    try:
        r, _ = parse(0)
        return _unmask(r) if masked else r
    except (IndexError, RecursionError):
        return _unmask(s) if masked else s


def unparse_term(t):
    if isinstance(t, tuple):
        return "%s(%s)" % (t[0], ", ".join(unparse_term(a) for a in t[1]))
    return t


def linear(t):
    """Linear form {atom-string: coef} with '1' for the constant, or None."""
    if isinstance(t, tuple) and t[0] in ("Add", "Sub") and len(t[1]) == 2:
        a, b = linear(t[1][0]), linear(t[1][1])
        if a is None or b is None:
            return None
        out = dict(a)
        sign = 1 if t[0] == "Add" else -1
        for k, v in b.items():
            out[k] = out.get(k, 0) + sign * v
        return {k: v for k, v in out.items() if v != 0}
    if isinstance(t, str):
        m = re.match(r"^(-?\d+)_[iu](8|16|32|64|128|size)$", t)
        if m:
            return {"1": int(m.group(1))} if int(m.group(1)) != 0 else {}
        return {t: 1}
    return {unparse_term(t): 1}


def relation(cond_term, label):
    """Relation that HOLDS on the edge `label` of a switch on `cond_term`:
    returns (op, linear form of lhs-rhs) with op in {'==','!=','<','<=','>','>='} or None."""
    t = parse_term(cond_term)
    if not (isinstance(t, tuple) and t[0] in ("Eq", "Ne", "Lt", "Le", "Gt", "Ge") and len(t[1]) == 2):
        return None
    if label not in (True, False):
        return None
    a, b = linear(t[1][0]), linear(t[1][1])
    if a is None or b is None:
        return None
    diff = dict(a)
    for k, v in b.items():
        diff[k] = diff.get(k, 0) - v
    diff = {k: v for k, v in diff.items() if v != 0}
    op = {"Eq": "==", "Ne": "!=", "Lt": "<", "Le": "<=", "Gt": ">", "Ge": ">="}[t[0]]
    if label is False:
        op = {"==": "!=", "!=": "==", "<": ">=", "<=": ">", ">": "<=", ">=": "<"}[op]
    return op, diff
