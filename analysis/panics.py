"""PANIC / INTARITH site enumeration (closed world over a set of bodies)."""
from . import mir
from .facts import loc

# externally documented-panicking callees are taken from the driver's doc scan
# (`externs[path].doc_panics`), plus this short explicit supplement.
SUPPLEMENT = {
    "std::ops::Index::index", "std::ops::IndexMut::index_mut",
    "std::cell::RefCell::<T>::borrow", "std::cell::RefCell::<T>::borrow_mut",
}

ARITH_TRAITS = {
    ("std::ops::Add", "add"), ("std::ops::Sub", "sub"), ("std::ops::Mul", "mul"), ("std::ops::Div", "div"),
    ("std::ops::Rem", "rem"), ("std::ops::Neg", "neg"), ("std::ops::Shl", "shl"), ("std::ops::Shr", "shr"),
    ("std::ops::AddAssign", "add_assign"), ("std::ops::SubAssign", "sub_assign"), ("std::ops::MulAssign", "mul_assign"),
    ("std::ops::DivAssign", "div_assign"), ("std::ops::RemAssign", "rem_assign"),
    ("num::Signed", "abs"), ("num::Signed", "abs_sub"), ("num::traits::Pow", "pow"),
}
ARITH_FNS = {"num::pow", "num::pow::pow", "num::abs", "num::abs_sub", "num::clamp"}


def int_params(body):
    """Names of type parameters bounded by an integer trait in the enclosing item."""
    out = set()
    for p in body.get("predicates", []):
        # e.g. "I: num::PrimInt", "<I as ...>"
        if ": num::PrimInt" in p or ": num::Integer" in p or ": num::Signed" in p and "Float" not in p:
            out.add(p.split(":")[0].strip())
    return out


def origin_of(body, defs, op, depth=0):
    """Short description of where an operand's value comes from (one or two steps back)."""
    if op.get("k") == "const":
        return "const"
    if op.get("k") not in ("copy", "move"):
        return "?"
    pl = op["place"]
    ds = defs.get(pl["local"], [])
    if len(ds) != 1 or depth > 4:
        return "param" if pl["local"] <= body["arg_count"] and pl["local"] > 0 else "multi"
    d = ds[0]
    if d[0] == "call":
        f = d[2]["func"]
        if f.get("k") == "fndef":
            gen = ",".join(f.get("args", []))
            return "%s<%s>" % (f["path"], gen)
        return "fnptr"
    rv = d[3]
    if rv["k"] == "use":
        return origin_of(body, defs, rv["op"], depth + 1)
    if rv["k"] == "ref":
        return "&" + origin_of(body, defs, {"k": "copy", "place": {"local": rv["place"]["local"], "proj": []}}, depth + 1) \
            if not rv["place"]["proj"] else "&place"
    if rv["k"] == "cast":
        return origin_of(body, defs, rv["op"], depth + 1)
    return rv["k"]


_INT_BITS = {"u8": 8, "u16": 16, "u32": 32, "u64": 64, "u128": 128, "usize": 32, "i8": 7, "i16": 15, "i32": 31, "i64": 63, "i128": 127, "isize": 31}


def _widening_try_from(origin):
    """origin `std::convert::TryFrom::try_from<Dst,Src>` with every Src value representable in Dst (usize counted as 32 bits as a
    destination; as a source it is not widening into anything but u64/u128/i128... which is not assumed)"""
    m = _re.match(r"^std::convert::(?:TryFrom::try_from|TryInto::try_into)<(\w+),(\w+)>$", origin or "")
    if not m:
        return False
    dst, src = m.group(1), m.group(2)
    if dst not in _INT_BITS or src not in _INT_BITS or src in ("usize", "isize"):
        return False
    signed_src, signed_dst = src.startswith("i"), dst.startswith("i")
    if signed_src and not signed_dst:
        return False
    return _INT_BITS[dst] >= _INT_BITS[src]


def _class_path(path):
    """unwrap() and expect("reason") are the same may-panic site: one audited class"""
    for ty in ("std::option::Option::<T>", "std::result::Result::<T, E>"):
        if path == ty + "::expect":
            return ty + "::unwrap"
    return path


DEBUG_ASSERTS = set()     # (function, location) of debug assertions met while enumerating sites: trusted, reported in the evidence


def sites(fb, body):
    """Yield dicts describing every may-panic / unchecked-int site in `body` (normal blocks)."""
    nb = mir.normal_blocks(body)
    defs = mir.local_defs(body)
    ints = int_params(body)
    root = fb.bodies.get(body.get("root"), body)
    if body["kind"] == "Closure":
        ints = int_params(root)
    for bi in sorted(nb):
        t = body["blocks"][bi]["term"]
        if t["k"] == "assert":
            if t["kind"].startswith("MisalignedPointerDereference") or t["kind"].startswith("NullPointerDereference"):
                # pointer-validity checks rustc inserts in debug builds around derefs of Box/raw pointers;
                # they guard UB of unsafe code and cannot fire in a crate without unsafe (C20 R20.4)
                continue
            yield {"kind": "assert", "what": t["kind"], "ty": t.get("operand_ty"), "loc": loc(t["span"]), "span": t["span"],
                   "fn": body["path"], "key": "assert|%s|%s" % (t["kind"], t.get("operand_ty"))}
        elif t["k"] == "call":
            f = t["func"]
            if f["k"] != "fndef":
                continue
            path = f["path"]
            ext = fb.externs.get(path)
            span = t["span"]
            if t["target"] is None:
                if mir.is_debug_assert(t):
                    DEBUG_ASSERTS.add((body["path"], loc(span)))
                    continue
                yield {"kind": "diverge", "what": path, "what_path": path, "loc": loc(span), "span": span, "fn": body["path"], "key": "diverge|%s" % path}
                continue
            tr = f.get("trait")
            st = f.get("self_ty") or ""
            if (tr, f["name"]) in ARITH_TRAITS or path in ARITH_FNS:
                recv = st if tr else (f.get("args") or ["?"])[0]
                if recv in ints:
                    yield {"kind": "intarith", "what_path": path, "what": "%s::%s" % (tr or path, f["name"]) if tr else path, "ty": recv, "loc": loc(span), "span": span,
                           "fn": body["path"], "key": "intarith|%s::%s|int-param" % (tr, f["name"]) if tr else "intarith|%s|int-param" % path}
                    continue
            if f["name"] == "drain" and len(t["args"]) == 2 and ((t["args"][1].get("place") or {}).get("ty") or t["args"][1].get("ty") or "").endswith("RangeFull"):
                continue        # drain(..) over the full range has no bound to violate
            if f["name"] in ("unwrap", "expect") and t["args"] and _widening_try_from(origin_of(body, defs, t["args"][0])):
                continue        # u8/u16/u32 -> usize (u64, ...): the conversion cannot fail on a target with >= 32 bit pointers
            if ext and (ext.get("doc_panics") or path in SUPPLEMENT) or path in SUPPLEMENT:
                org = origin_of(body, defs, t["args"][0]) if t["args"] else ""
                recv = st or ",".join(f.get("args", []))
                c1 = None
                if len(t["args"]) > 1:
                    cc = mir.trace_const(body, t["args"][1], defs)
                    if cc is not None and cc.get("bits") is not None:
                        c1 = int(cc["bits"])
                yield {"kind": "maypanic-call", "const_arg1": c1, "what": path, "what_path": path, "ty": recv, "origin": org, "loc": loc(span), "span": span, "fn": body["path"],
                       "key": "call|%s|%s|<-%s" % (_class_path(path), recv, org)}


def population(fb, paths):
    out = []
    for p in sorted(paths):
        b = fb.bodies.get(p)
        if b is not None:
            out.extend(sites(fb, b))
    return out


import re as _re


def norm_key(k):
    """Keys must not contain positions: closure types print as {closure@file:l:c: l:c}."""
    return _re.sub(r"\{closure@[^}]*\}", "{closure}", k)


def audit(fb, chk, rule, group, pop, classes, guards):
    """Compare a site population with the audited classes.

    classes: list of {key, max, guards: [names], reason}.  A site passes when its class exists,
    one of the class's guards holds for it, and the class count does not exceed `max`.
    """
    by_key = {}
    for s in pop:
        s["nkey"] = norm_key(s["key"])
        by_key.setdefault(s["nkey"], []).append(s)
    cls = {c["key"]: c for c in classes}
    n_ok = 0
    if DEBUG_ASSERTS:
        chk.counts["debug assertions assumed to hold (not may-panic sites)"] = len(DEBUG_ASSERTS)
        chk.note("debug_assert*! failure arms are treated as assumptions, not as may-panic sites: %s" % sorted("%s@%s" % d for d in DEBUG_ASSERTS)[:20])
    for k, ss in sorted(by_key.items()):
        c = cls.get(k)
        where = sorted({"%s@%s" % (s["fn"].split("::", 1)[-1] if s["fn"].count("::") else s["fn"], s["loc"]) for s in ss})
        if c is None:
            for s in ss:
                chk.violation(rule, "%s:%s:%s" % (group, s["fn"], k),
                              "unaudited may-panic site in %s: %s" % (s["fn"], k), s["loc"])
            continue
        passed = []
        for s in ss:
            b = fb.bodies[s["fn"]]
            res = [guards[g](fb, b, s) for g in c.get("guards", ["none"])]
            if any(r[0] for r in res):
                passed.append(s)
                n_ok += 1
            else:
                chk.violation(rule, "%s:%s:%s:guard" % (group, s["fn"], k),
                              "may-panic site in %s lost its guard (%s): %s" % (s["fn"], k, "; ".join(r[1] for r in res)), s["loc"])
        if len(ss) > c["max"]:
            chk.violation(rule, "%s:count:%s" % (group, k),
                          "%d sites of audited class %s, audit covers %d; sites: %s" % (len(ss), k, c["max"], where[:12]), ss[0]["loc"])
        else:
            chk.ok(rule, "%s class %s" % (group, k), "%d site(s) <= %d audited; %s" % (len(ss), c["max"], c.get("reason", "")), where[0] if where else None)
    return n_ok


def _split_top(s):
    out, depth, cur = [], 0, ""
    for ch in s:
        if ch in "<([":
            depth += 1
        elif ch in ">)]":
            depth -= 1
        if ch == "," and depth == 0:
            out.append(cur)
            cur = ""
        else:
            cur += ch
    if cur.strip():
        out.append(cur)
    return out


def type_class(ty):
    """Coarse, position-free class of a receiver type: outer head + head of its element type."""
    if not ty:
        return "-"
    ty = _re.sub(r"'\w+ ?", "", ty)

    def head(s, depth=0):
        s = s.strip()
        s = _re.sub(r"^&(mut )?", "", s)
        m = _re.match(r"^\[(.*?)(; \d+)?\]$", s)
        if m:
            return "[" + head(m.group(1), depth + 1) + "]"
        m = _re.match(r"^\((.*)\)$", s)
        if m:
            return "(" + ",".join(head(x, depth + 1) for x in _split_top(m.group(1))[:2]) + ")"
        m = _re.match(r"^([\w:]+)<(.*)>$", s)
        if m:
            h = m.group(1).split("::")[-1]
            if depth >= 1:
                return h
            parts = [x for x in _split_top(m.group(2)) if x.strip() and not x.strip().startswith("'")]
            return h + "<" + (head(parts[0], depth + 1) if parts else "") + ">"
        if s.startswith("{closure"):
            return "{closure}"
        return s.split("::")[-1]
    return head(_split_top(ty)[0] if not ty.startswith("(") else ty)


def coarse_key(s):
    """Class key for the library-wide audit: kind | callee or assert kind | receiver type class [| origin callee for unwrap-like]."""
    if s["kind"] == "assert":
        return "assert|%s|%s" % (s["what"], s.get("ty"))
    if s["kind"] == "diverge":
        return "diverge|%s" % s["what"]
    if s["kind"] == "intarith":
        return s["key"]
    callee = s["what"]
    k = "call|%s|%s" % (callee, norm_key(type_class(s.get("ty") or "")))
    if _re.search(r"::(unwrap|expect)$", callee):
        org = s.get("origin") or ""
        org = _re.sub(r"<.*$", "", org).lstrip("&")
        org = "::".join(org.split("::")[-2:]) if org else "?"
        k += "|<-" + org
    return k


# ---- library-wide audit: which documented-panicking callees are RELEVANT -----------------------------------
# Doc comments mention "panic" also for conditions that no input can produce (an iterator longer than
# usize::MAX, allocation failure / capacity overflow, a comparator that itself panics).  Those are not
# sites of this audit; everything else that documents a panic - and anything new - is.
LIB_IGNORE_NAMES = {
    # Iterator adaptors / consumers: "overflow" of the element count only
    "count", "enumerate", "last", "position", "rposition", "sum", "product", "nth", "step_by", "skip", "take", "rev", "zip", "chain",
    # growth: capacity overflow / allocation failure only
    "push", "push_str", "with_capacity", "reserve", "extend", "extend_from_slice", "append", "insert_str", "from_elem", "resize", "repeat",
    # sorting: panics only if the comparator panics / is not a total order on the compared keys
    "sort", "sort_by", "sort_by_key", "sort_by_cached_key", "sort_unstable", "sort_unstable_by", "sort_unstable_by_key",
    # never panics / documented as returning None
    "get", "get_mut", "drop",
}
LIB_IGNORE_ASSERTS = ("Overflow(Add)", "Overflow(Sub)", "Overflow(Mul)")


def lib_key(s):
    """Class key for the library-wide audit, or None if the site is outside the audit's definition."""
    if s["kind"] == "assert":
        if s["what"] in LIB_IGNORE_ASSERTS:
            return None       # index / priority arithmetic on in-memory sizes: cannot overflow for representable inputs
        if s["what"] == "BoundsCheck":
            return "index|slice-like"
        return "assert|%s|%s" % (s["what"], s.get("ty"))
    if s["kind"] == "diverge":
        return "diverge|%s" % s["what"]
    if s["kind"] == "intarith":
        return s["key"]
    callee = s["what"]
    name = callee.rsplit("::", 1)[-1]
    if name in LIB_IGNORE_NAMES:
        return None
    if name in ("windows", "chunks", "chunks_exact", "rchunks") and s.get("const_arg1") not in (None, 0):
        return None           # window / chunk size is a non-zero constant
    tc = norm_key(type_class(s.get("ty") or ""))
    if callee in ("std::option::Option::<T>::unwrap", "std::option::Option::<T>::expect") and _re.match(r"^(std::iter::Iterator::next|std::iter::DoubleEndedIterator::next_back|core::slice::<impl \[T\]>::(first|first_mut|last|last_mut)|smallvec::SmallVec::<A>::(first|last)|std::vec::Vec::<T>::(first|last))<", s.get("origin") or ""):
        # `it.next().unwrap()`: first element of a sequence that is non-empty by construction - one class whatever the element type
        return "call|std::option::Option::<T>::unwrap|<-next"
    if name in ("index", "index_mut") and callee.startswith("std::ops::Index"):
        return "index|str" if tc == "str" else "index|slice-like"
    if name in ("remove", "swap_remove"):
        return "remove|vector-like"
    return "call|%s|%s" % (callee, tc)
