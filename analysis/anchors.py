"""Role-based anchors: crate-internal functions are recognised by what they are, not by what they are called.

Rules speak about a few crate-internal helper functions (the tokenizer, the owner search of a comma, the operator lookup,
the two differentiation halves ...).  None of them is part of the public API, so a maintainer may rename or move them at any
time without changing behaviour.  Each role below is a predicate over the *signature* (and, where needed, the enclosing
module); if exactly one function of the crate fulfils it and its path is not the canonical one, the fact base is rewritten so
that it is (paths of the function, of its closures and of every call to it).  The rules then keep using the canonical names.
The mapping that was applied is reported in the evidence (`meta.renamed_roles`).

If a role has no candidate or several, nothing is rewritten for it: rules that need the anchor fail closed as before.
"""
import json
import re


def _inputs(s, *pats):
    ins = s["inputs"]
    return len(ins) == len(pats) and all(re.search(p, i) for p, i in zip(pats, ins))


ROLES = [
    # canonical path, predicate(sig)
    ("parser::tokenize_and_analyze",
     lambda s: re.search(r"^std::result::Result<smallvec::SmallVec<\[parser::ParsedToken<", s["output"]) and len(s["inputs"]) == 3 and re.search(r"^&('\w+ )?str$", s["inputs"][0])),
    ("parser::is_operator_binary",
     lambda s: s["output"].startswith("std::result::Result<bool,") and _inputs(s, r"^&operators::Operator<", r"^std::option::Option<&parser::ParsedToken<")),
    ("parser::find_op_of_comma",
     lambda s: s["output"].startswith("std::option::Option<usize>") and _inputs(s, r"^&\[parser::ParsedToken<")),
    ("parser::check_parsed_token_preconditions",
     lambda s: s["output"].startswith("std::result::Result<(), ") and _inputs(s, r"^&\[parser::ParsedToken<")),
    ("parser::next_char_boundary",
     lambda s: s["output"] == "usize" and s["inputs"] == ["&str", "usize"] and s["path"].startswith("parser::")),
    ("expression::deep::find_op",
     lambda s: re.search(r"^std::(option::Option|result::Result)<\(usize, operators::Operator<", s["output"]) and _inputs(s, r"^&('\w+ )?str$", r"^&\[operators::Operator<")),
    ("expression::deep::find_bin_op",
     lambda s: re.search(r"^std::result::Result<expression::deep::BinOpsWithReprs<", s["output"]) and _inputs(s, r"^&('\w+ )?str$", r"^&\[operators::Operator<")),
    ("expression::deep::find_unary_op",
     lambda s: re.search(r"^std::result::Result<expression::deep::UnaryOpWithReprs<", s["output"]) and _inputs(s, r"^&('\w+ )?str$", r"^&\[operators::Operator<")),
    ("expression::deep::detail::unparse_raw",
     lambda s: s["output"] == "std::string::String" and _inputs(s, r"^&\[expression::deep::DeepNode<", r"^&expression::deep::BinOpsWithReprs<", r"^&expression::deep::UnaryOpWithReprs<")),
    ("expression::deep::detail::make_expression",
     lambda s: re.search(r"^std::result::Result<\(expression::deep::DeepEx<.*, usize\), ", s["output"]) and _inputs(s, r"^&\[parser::ParsedToken<", r"^&\[&", r"^expression::deep::UnaryOpWithReprs<")),
    ("expression::flat::detail::make_expression",
     lambda s: re.search(r"^std::result::Result<expression::flat::FlatEx<", s["output"]) and _inputs(s, r"^&str$", r"^&\[parser::ParsedToken<", r"^&\[&")),
    ("expression::flat::detail::flatex_to_deepex",
     lambda s: re.search(r"^std::result::Result<expression::deep::DeepEx<", s["output"]) and len(s["inputs"]) == 3 and "FlatOp<" in s["inputs"][0] and "FlatNode<" in s["inputs"][1] and "String" in s["inputs"][2]),
    ("expression::flat::flatten_vecs",
     lambda s: _inputs(s, r"^&expression::deep::DeepEx<", r"^i64$") and "FlatNode<" in s["output"] and "FlatOp<" in s["output"]),
    ("expression::flat::detail::prioritized_indices_flat",
     lambda s: _inputs(s, r"^&\[expression::flat::detail::FlatOp<", r"^&\[expression::flat::detail::FlatNode<") and s["output"].startswith("smallvec::SmallVec<[usize;")),
    ("expression::flat::detail::eval_flatex_consuming_vars",
     lambda s: _inputs(s, r"^&mut \[T\]$", r"^&\[expression::flat::detail::FlatNode<", r"^&\[expression::flat::detail::FlatOp<", r"^&\[usize\]$")),
    ("expression::flat::detail::eval_flatex_cloning",
     lambda s: _inputs(s, r"^&\[T\]$", r"^&\[expression::flat::detail::FlatNode<", r"^&\[expression::flat::detail::FlatOp<", r"^&\[usize\]$")),
    ("expression::flat::detail::eval_numbers",
     lambda s: _inputs(s, r"^&mut smallvec::SmallVec<\[T;", r"^&\[expression::flat::detail::FlatOp<", r"^&\[usize\]$")),
    ("expression::eval_binary",
     lambda s: s["inputs"] == ["&mut [T]", "&[O]", "&[usize]", "&mut N"] and s["output"] == "T"),
    ("expression::partial::partial_deepex",
     lambda s: re.search(r"^std::result::Result<expression::deep::DeepEx<", s["output"]) and _inputs(s, r"^usize$", r"^expression::deep::DeepEx<", r"^expression::partial::MissingOpMode$")),
    ("expression::partial::partial_derivative_inner",
     lambda s: re.search(r"^std::result::Result<expression::deep::DeepEx<", s["output"]) and _inputs(s, r"^usize$", r"^expression::deep::DeepEx<", r"^&\[expression::partial::PartialDerivative<", r"^expression::partial::MissingOpMode$")),
    ("expression::partial::partial_derivative_outer",
     lambda s: re.search(r"^std::result::Result<expression::deep::DeepEx<", s["output"]) and _inputs(s, r"^expression::deep::DeepEx<", r"^&\[expression::partial::PartialDerivative<")),
    ("expression::partial::check_partial_index",
     lambda s: s["output"].startswith("std::result::Result<(), ") and len(s["inputs"]) >= 2 and s["inputs"][0] == "usize" and s["inputs"][1] == "usize"),
    ("expression::deep::detail::process_unary",
     lambda s: re.search(r"^std::result::Result<\(expression::deep::DeepNode<.*, usize\), ", s["output"]) and len(s["inputs"]) == 5 and s["inputs"][0] == "usize"),
    ("expression::deep::detail::lift_nodes",
     lambda s: s["output"] == "()" and _inputs(s, r"^&mut expression::deep::DeepEx<") and "::detail::" in s["path"]),
    ("expression::deep::DeepEx::<'a, T, OF, LM>::reset_vars",
     lambda s: s["output"] == "()" and _inputs(s, r"^&mut expression::deep::DeepEx<", r"^smallvec::SmallVec<\[std::string::String;")),
    ("expression::deep::DeepEx::<'a, T, OF, LM>::var_names_union",
     lambda s: re.search(r"^\(expression::deep::DeepEx<.*>, expression::deep::DeepEx<.*>\)$", s["output"]) and _inputs(s, r"^expression::deep::DeepEx<", r"^expression::deep::DeepEx<")),
    ("expression::deep::DeepEx::<'a, T, OF, LM>::var_names_like_other",
     lambda s: s["output"].startswith("expression::deep::DeepEx<") and _inputs(s, r"^expression::deep::DeepEx<", r"^&expression::deep::DeepEx<")),
    ("expression::deep::DeepEx::<'a, T, OF, LM>::without_latest_unary",
     lambda s: s["output"].startswith("expression::deep::DeepEx<") and _inputs(s, r"^expression::deep::DeepEx<") and s["path"].startswith("expression::deep::DeepEx")),
    ("expression::partial::make_partial_derivative_ops",
     lambda s: not s["inputs"] and s["output"].startswith("std::vec::Vec<expression::partial::PartialDerivative<")),
]


def role_mapping(facts):
    """{actual path: canonical path} for every role with exactly one candidate whose path differs from the canonical one."""
    sigs = facts.get("sigs", [])
    kinds = {b["path"]: b.get("kind") for b in facts.get("bodies", [])}
    mapping = {}
    taken = {s["path"] for s in sigs}
    for canon, pred in ROLES:
        cands = []
        for s in sigs:
            # a private free function may be turned into an associated function without a receiver (and back): same role
            want_kinds = ("AssocFn",) if "::<" in canon.rsplit("::", 1)[0] else ("Fn", "AssocFn")
            if kinds.get(s["path"]) not in want_kinds:
                continue
            try:
                if pred(s):
                    cands.append(s["path"])
            except Exception:
                pass
        if len(cands) == 1 and cands[0] != canon and canon not in taken:
            mapping[cands[0]] = canon
    return mapping


FIELD_ROLES = {
    # private fields are recognised by their type, which is unique within the struct
    "expression::flat::FlatEx": [("nodes", r"^smallvec::SmallVec<\[expression::flat::detail::FlatNode<"), ("flat_ops", r"^smallvec::SmallVec<\[expression::flat::detail::FlatOp<"),
                                 ("prio_indices", r"^smallvec::SmallVec<\[usize;"), ("var_names", r"^smallvec::SmallVec<\[std::string::String;"), ("text", r"^std::string::String$")],
    "expression::deep::DeepEx": [("nodes", r"^std::vec::Vec<expression::deep::DeepNode<"), ("bin_ops", r"^expression::deep::BinOpsWithReprs<"), ("unary_op", r"^expression::deep::UnaryOpWithReprs<"),
                                 ("var_names", r"^smallvec::SmallVec<\[std::string::String;"), ("text", r"^std::string::String$"), ("ops", r"^std::vec::Vec<operators::Operator<")],
    "expression::flat::detail::FlatOp": [("unary_op", r"^operators::UnaryOp<"), ("bin_op", r"^operators::BinOpWithIdx<")],
    "expression::flat::detail::FlatNode": [("kind", r"^expression::flat::detail::FlatNodeKind<"), ("unary_op", r"^operators::UnaryOp<")],
    "operators::BinOpWithIdx": [("op", r"^operators::BinOp<"), ("idx", r"^usize$")],
    "operators::UnaryFuncWithIdx": [("f", r"^fn\("), ("idx", r"^usize$")],
    "operators::UnaryOp": [("funcs_to_be_composed", r"^smallvec::SmallVec<\[operators::UnaryFuncWithIdx<")],
    "expression::deep::UnaryOpWithReprs": [("reprs", r"^smallvec::SmallVec<\[&"), ("op", r"^operators::UnaryOp<")],
    "expression::deep::BinOpsWithReprs": [("reprs", r"^smallvec::SmallVec<\[&"), ("ops", r"^smallvec::SmallVec<\[operators::BinOpWithIdx<")],
    "expression::partial::PartialDerivative": [("repr", r"^&"), ("bin_op", r"^std::option::Option<fn\(expression::partial::ValueDerivative<"), ("unary_outer_op", r"^std::option::Option<fn\(expression::deep::DeepEx<")],
}


def field_mapping(facts):
    """{adt path: {actual field name: canonical name}}"""
    out = {}
    for a in facts.get("adts", []):
        roles = FIELD_ROLES.get(a["path"])
        if not roles or a.get("kind") != "struct" or not a.get("variants"):
            continue
        fields = a["variants"][0]["fields"]
        names = {f["name"] for f in fields}
        m = {}
        for canon, rx in roles:
            c = [f["name"] for f in fields if re.search(rx, f["ty"])]
            if len(c) == 1 and c[0] != canon and canon not in names:
                m[c[0]] = canon
        if m:
            out[a["path"]] = m
    return out


def _rename_fields(o, fmap):
    if isinstance(o, dict):
        k = o.get("k")
        if k == "field" and o.get("owner") in fmap and o.get("name") in fmap[o["owner"]]:
            o["name"] = fmap[o["owner"]][o["name"]]
        elif k == "aggregate" and o.get("agg") == "adt" and o.get("adt") in fmap and isinstance(o.get("fields"), list):
            o["fields"] = [fmap[o["adt"]].get(x, x) for x in o["fields"]]
        for v in o.values():
            _rename_fields(v, fmap)
    elif isinstance(o, list):
        for v in o:
            _rename_fields(v, fmap)


def normalise(facts):
    """Rewrite the fact base so that role-identified functions carry their canonical paths (and role-identified private
    fields their canonical names)."""
    fmap = field_mapping(facts)
    if fmap:
        for a in facts.get("adts", []):
            if a["path"] in fmap:
                for f in a["variants"][0]["fields"]:
                    f["name"] = fmap[a["path"]].get(f["name"], f["name"])
        for key in ("bodies", "promoted"):
            _rename_fields(facts.get(key, []), fmap)
    mapping = role_mapping(facts)
    if fmap:
        mapping = dict(mapping)
    if not mapping:
        return facts, ({"fields": fmap} if fmap else {})
    text = json.dumps(facts)
    for old, new in sorted(mapping.items(), key=lambda kv: -len(kv[0])):
        # JSON-escaped form of the path, followed by a non-identifier character
        o = json.dumps(old)[1:-1]
        n = json.dumps(new)[1:-1]
        text = re.sub(re.escape(o) + r"(?![A-Za-z0-9_])", n.replace("\\", "\\\\"), text)
    out = json.loads(text)
    # the `name` field of the renamed bodies
    for b in out.get("bodies", []):
        if b["path"] in mapping.values() and b.get("kind") in ("Fn", "AssocFn"):
            b["name"] = b["path"].rsplit("::", 1)[-1]
            if "::<" not in b["path"].rsplit("::", 1)[0]:
                b["kind"] = "Fn"
    for lst in ("bodies",):
        for b in out.get(lst, []):
            for blk in b.get("blocks", []):
                t = blk.get("term") or {}
                f = t.get("func") or {}
                if f.get("k") == "fndef" and f.get("path") in mapping.values():
                    f["name"] = f["path"].rsplit("::", 1)[-1]
    res = dict(mapping)
    if fmap:
        res["fields"] = fmap
    return out, res
