"""Loop summaries from the interpreter's ordered trace (loop_mode="widen").

Every arrival at a loop header is an event ("loophead", bb, body path, frame id, state on arrival, state the next trip
starts from).  The trip that starts after the widening has every loop-carried local unknown (⊤(loop:fn:_N)), so the state
on the *next* arrival, written over these unknowns, is the transfer function of one trip under the decisions taken in
between - for every trip, not just the first.

  trips(path, body_path)        -> [Trip] in execution order
  Trip.pre / Trip.post          -> {local: value} at the start of the trip / on the next arrival (None: path ended inside)
  Trip.decisions / Trip.events  -> what happened in between
  Trip.general                  -> the trip started from the widened state

SEQ: `seq_parts(value, path, body)` normalises a collection-valued term to a list of parts, following iterator adaptors
(chain, rev, cloned, copied, enumerate-free maps of clone), in-place growth (push, extend, insert at 0, via the "mut:"
terms the interpreter writes through mutable references) and loops whose general trip grows a collection by one element
of the iterated source.
"""
from .interp import App, Const, Variant, Tup, Closure, Sym, Unknown, show


class Trip:
    def __init__(self, header, fid, pre, post, items, general, index, body_path=None):
        self.header, self.fid, self.pre, self.post, self.items, self.general, self.index = header, fid, pre, post, items, general, index
        self.body_path = body_path

    @property
    def decisions(self):
        return [x for k, x in self.items if k == "d"]

    @property
    def events(self):
        return [x for k, x in self.items if k == "e"]


def trips(path, body_path, fid=None):
    """All trips of all loops of `body_path` on this path (nested loops give nested trips, each listed)."""
    out = []
    heads = [(i, x) for i, (k, x) in enumerate(path.trace) if k == "e" and x[0] == "loophead" and x[2] == body_path and (fid is None or x[3] == fid)]
    by = {}
    for i, x in heads:
        by.setdefault((x[3], x[1]), []).append((i, x))
    for (f, h), arr in by.items():
        widened_at = None
        for n, (i, x) in enumerate(arr):
            outer = set(x[6]) if len(x) > 6 else set()
            # the trip ends at the next arrival at this header (completed) or at an enclosing loop's header (loop left)
            end, nxt = len(path.trace), None
            for j in range(i + 1, len(path.trace)):
                k, y = path.trace[j]
                if k == "e" and y[0] == "loophead" and y[2] == body_path and y[3] == f:
                    if y[1] == h:
                        end, nxt = j, y
                        break
                    if y[1] in outer:
                        end = j
                        break
            items = path.trace[i + 1:end]
            # a trip is general if the widening happened at this arrival (the widen event precedes the loophead event)
            general = i > 0 and path.trace[i - 1][0] == "e" and path.trace[i - 1][1][0] == "widen" and path.trace[i - 1][1][1] == h
            post = nxt[4] if nxt is not None else None
            out.append(Trip(h, f, x[5] if x[5] is not None else x[4], post, items, general, i, body_path))
    out.sort(key=lambda t: t.index)
    return out


def all_trips(path):
    """Trips of every loop of every frame on this path (a loop in an inlined helper is as good as one in the caller)."""
    out = []
    for bp in sorted({x[2] for k, x in path.trace if k == "e" and x[0] == "loophead"}):
        out.extend(trips(path, bp, None))
    out.sort(key=lambda t: t.index)
    return out


def exit_state(path, body_path, header, fid=0):
    """State of the loop-carried locals when the loop was last arrived at (= on exit through the header)."""
    last = None
    for k, x in path.trace:
        if k == "e" and x[0] == "loophead" and x[2] == body_path and x[1] == header and (fid is None or x[3] == fid):
            last = x
    if last is None:
        return None
    return last[5] if last[5] is not None else last[4]


def loop_unknown(v):
    """(function name, local, header) for ⊤(loop:fn:bbH:_N)"""
    if isinstance(v, Unknown) and v.why.startswith("loop:"):
        parts = v.why.split(":")
        if len(parts) >= 4 and parts[-2].startswith("bb") and parts[-1].startswith("_"):
            import re as _re
            # the function name without the frame context (`_c<call site>w<widened>` per inlining level)
            return _re.sub(r"(_c\d+w\d+)+$", "", ":".join(parts[1:-2])), int(parts[-1][1:]), int(parts[-2][2:])
    return None


# ---- sequences ---------------------------------------------------------------------------------

_TRANSPARENT = ("std::iter::IntoIterator::into_iter", "core::slice::<impl [T]>::iter", "std::iter::Iterator::enumerate", "std::iter::Iterator::cloned", "std::iter::Iterator::copied",
                "std::iter::Iterator::collect", "smallvec::SmallVec::<A>::iter", "std::vec::Vec::<T>::iter", "deref", "std::clone::Clone::clone",
                "smallvec::SmallVec::<A>::into_iter", "std::iter::Iterator::by_ref", "std::iter::FromIterator::from_iter", "std::iter::Iterator::fuse",
                "smallvec::SmallVec::<A>::from_vec", "smallvec::SmallVec::<A>::into_vec", "std::convert::Into::into", "std::convert::From::from",
                "core::slice::<impl [T]>::to_vec", "smallvec::ToSmallVec::to_smallvec", "std::borrow::ToOwned::to_owned")
_EMPTY = ("smallvec::SmallVec::<A>::new", "std::vec::Vec::<T>::new", "std::vec::Vec::<T>::with_capacity", "smallvec::SmallVec::<A>::with_capacity",
          "std::default::Default::default", "std::iter::empty")


def _rev(parts):
    out = []
    for p in reversed(parts):
        if p[0] == "src":
            out.append(("src", p[1], "rev" if p[2] == "fwd" else "fwd"))
        else:
            out.append(p)
    return out


def seq_parts(v, path=None, body_path=None, depth=0, paths=None):
    """[('src', term string, 'fwd'|'rev') | ('elem', term string) | ('?', text)]"""
    if depth > 25:
        return [("?", "depth")]
    if isinstance(v, App):
        fn = v.fn
        if fn in _EMPTY and len(v.args) <= 1:
            return []
        if fn in _TRANSPARENT and len(v.args) == 1:
            return seq_parts(v.args[0], path, body_path, depth + 1, paths)
        if fn.rsplit("::", 1)[-1] == "drain" and len(v.args) == 2 and show(v.args[1]) in ("RangeFull", "std::ops::RangeFull", "RangeFull{}"):
            return seq_parts(v.args[0], path, body_path, depth + 1, paths)        # drain(..) yields the whole sequence, in order
        if fn == "std::iter::Iterator::chain" and len(v.args) == 2:
            return seq_parts(v.args[0], path, body_path, depth + 1, paths) + seq_parts(v.args[1], path, body_path, depth + 1, paths)
        if fn == "std::iter::Iterator::rev" and len(v.args) == 1:
            return _rev(seq_parts(v.args[0], path, body_path, depth + 1, paths))
        if fn == "std::iter::once" and len(v.args) == 1:
            return [("elem", show(v.args[0]))]
        if fn.startswith("mut:"):
            m = fn[4:].rsplit("::", 1)[-1]
            old = seq_parts(v.args[0], path, body_path, depth + 1, paths)
            rest = list(v.args[1:])
            if m == "push" and len(rest) == 1:
                return old + [("elem", show(rest[0]))]
            if m in ("extend", "extend_from_slice", "append", "insert_many") and rest:
                if m == "insert_many":
                    if len(rest) == 2 and isinstance(rest[0], Const) and rest[0].bits == 0:
                        return seq_parts(rest[1], path, body_path, depth + 1, paths) + old
                    return [("?", show(v)[:80])]
                return old + seq_parts(rest[-1], path, body_path, depth + 1, paths)
            if m == "insert" and len(rest) == 2 and isinstance(rest[0], Const) and rest[0].bits == 0:
                return [("elem", show(rest[1]))] + old
            if m in ("clone_from",) and len(rest) == 1:
                return seq_parts(rest[0], path, body_path, depth + 1, paths)
            return [("?", show(v)[:80])]
    lu = loop_unknown(v)
    if lu is not None and path is not None:
        got = _loop_growth(v, path, depth, paths or [path])
        if got is not None:
            return got
        return [("?", show(v))]
    if isinstance(v, Unknown):
        return [("?", show(v))]
    return [("src", show(v), "fwd")]


def _item_of(v):
    """iterator term IT if v is (a clone / field-free use of) the element `next(IT)` yields"""
    while isinstance(v, App) and v.fn in ("std::clone::Clone::clone", "deref", "copy") and len(v.args) == 1:
        v = v.args[0]
    if isinstance(v, App) and v.fn == ".0" and isinstance(v.args[0], App) and v.args[0].fn == "as:Some":
        n = v.args[0].args[0]
        if isinstance(n, App) and n.fn in ("std::iter::Iterator::next", "std::iter::DoubleEndedIterator::next_back") and len(n.args) == 1:
            return n.args[0], n.fn.endswith("next_back")
    return None


def _loop_growth(unk, path, depth, paths):
    """⊤(loop:fn:bbH:_L): if every general trip of that loop (on any sibling path) is `L = L ++ [item]` resp.
    `[item] ++ L`, item being the element the loop's own iterator yields, then the value after the loop is
    before ++ source  resp.  reverse(source) ++ before  (before/source: the values on this path's first arrival)."""
    fn, L, H = loop_unknown(unk)
    body_paths = {x[2] for k, x in path.trace if k == "e" and x[0] == "loophead" and x[2].split("::")[-1] == fn}
    for body_path in body_paths:
        mine = [u for u in trips(path, body_path) if u.header == H]
        if not mine:
            continue
        first = mine[0]
        shapes = set()
        it_local = None
        n = 0
        for q in paths:
            for t in trips(q, body_path):
                if t.header != H or not t.general or t.post is None or L not in t.pre or t.pre[L].key() != unk.key():
                    continue
                n += 1
                post = t.post.get(L)
                if post is not None and post.key() == unk.key():
                    shapes.add(("same",))
                    continue
                if not (isinstance(post, App) and post.fn.startswith("mut:") and post.args and post.args[0].key() == unk.key()):
                    shapes.add(("?", show(post)[:60]))
                    continue
                m = post.fn[4:].rsplit("::", 1)[-1]
                rest = list(post.args[1:])
                elem, front = None, False
                if m == "push" and len(rest) == 1:
                    elem = rest[0]
                elif m == "insert" and len(rest) == 2 and isinstance(rest[0], Const) and rest[0].bits == 0:
                    elem, front = rest[1], True
                it = _item_of(elem) if elem is not None else None
                lu = loop_unknown(it[0]) if it else None
                if lu is None or lu[2] != H:
                    shapes.add(("?", show(post)[:60]))
                    continue
                shapes.add(("grow", front, it[1], lu[1]))
        if n == 0 or len(shapes) != 1 or next(iter(shapes))[0] != "grow":
            continue
        _, front, back, itl = next(iter(shapes))
        src, before = first.pre.get(itl), first.pre.get(L)
        if src is None or before is None:
            continue
        sp = seq_parts(src, path, body_path, depth + 1, paths)
        if back:
            sp = _rev(sp)
        bp = seq_parts(before, path, body_path, depth + 1, paths)
        return (_rev(sp) + bp) if front else (bp + sp)
    return None


def fold_source(v, path, paths):
    """Source parts of a left fold whose result is `v`: `fold(SRC, init, f)` / `rfold`, or the value a loop leaves in an
    accumulator whose general trip is acc = g(.., item, .., acc, ..) with item the element of the loop's iterator.
    Returns (parts, step term string) or None."""
    if isinstance(v, App) and v.fn in ("std::iter::Iterator::fold", "std::iter::Iterator::try_fold") and len(v.args) == 3:
        return seq_parts(v.args[0], path, None, 0, paths), show(v.args[2])
    if isinstance(v, App) and v.fn in ("std::iter::DoubleEndedIterator::rfold", "std::iter::DoubleEndedIterator::try_rfold") and len(v.args) == 3:
        return _rev(seq_parts(v.args[0], path, None, 0, paths)), show(v.args[2])
    lu = loop_unknown(v)
    if lu is None:
        return None
    fn, L, H = lu
    for body_path in {x[2] for k, x in path.trace if k == "e" and x[0] == "loophead" and x[2].split("::")[-1] == fn}:
        mine = [u for u in trips(path, body_path) if u.header == H]
        if not mine:
            continue
        shapes = set()
        for q in paths:
            for t in trips(q, body_path):
                if t.header != H or not t.general or t.post is None or L not in t.pre or t.pre[L].key() != v.key():
                    continue
                post = t.post.get(L)
                if post is None:
                    continue
                if post.key() == v.key():
                    shapes.add(("same",))
                    continue
                itl = None
                uses_acc = False
                from .dispatch import subterms
                for s in subterms(post):
                    if s.key() == v.key():
                        uses_acc = True
                    it = _item_of(s)
                    if it is not None:
                        l2 = loop_unknown(it[0])
                        if l2 is not None and l2[2] == H:
                            itl = (l2[1], it[1])
                if itl is None or not uses_acc:
                    shapes.add(("?", show(post)[:80]))
                else:
                    shapes.add(("fold", itl[0], itl[1], show(post)[:160]))
        folds = [s for s in shapes if s[0] == "fold"]
        if not folds or any(s[0] == "?" for s in shapes) or len({(s[1], s[2]) for s in folds}) != 1:
            continue
        src = mine[0].pre.get(folds[0][1])
        if src is None:
            continue
        sp = seq_parts(src, path, body_path, 0, paths)
        if folds[0][2]:
            sp = _rev(sp)
        return sp, folds[0][3]
    return None


# ---- search loops ------------------------------------------------------------------------------------

class LoopPred(Closure):
    """Predicate of a search written as a loop (`for x in it { if !p(x) { continue } return f(x) } default`): stands where the
    closure of `it.find(p)` would stand; `cond` is p over Sym("cand")."""
    __slots__ = ("cond",)

    def __init__(self, cond, tag=""):
        Closure.__init__(self, "loop-pred:" + tag, {})
        self.cond = cond

    def key(self):
        return ("looppred", self.cond.key())


class PseudoPath:
    def __init__(self, decisions, result):
        self.decisions, self.result, self.status, self.note = decisions, result, "return", None
        self.events, self.trace = [], [("d", d) for d in decisions]


def _subst(v, old_key, new, depth=0):
    if depth > 80:
        return v
    if v.key() == old_key:
        return new
    if isinstance(v, App):
        return App(v.fn, [_subst(a, old_key, new, depth + 1) for a in v.args])
    if isinstance(v, Variant):
        return Variant(v.adt, v.variant, {k: _subst(x, old_key, new, depth + 1) for k, x in v.fields.items()})
    if isinstance(v, Tup):
        return Tup([_subst(x, old_key, new, depth + 1) for x in v.elems], v.kind)
    return v


_CMP_FN = {"<": "binop:Lt", "<=": "binop:Le", ">": "binop:Gt", ">=": "binop:Ge", "==": "binop:Eq", "!=": "binop:Ne"}


def search_loop_paths(paths):
    """Rewrite the paths of a body that contains ONE search loop into the vocabulary of `Iterator::find`:
    a path that leaves the loop from inside a trip becomes `discr(find(SRC, P)) = Some` + its remaining decisions over
    `.0(as:Some(find(SRC, P)))`; a path that leaves it by exhaustion becomes `discr(find(SRC, P)) = None` + the rest.
    Conditions (else None): every completed trip changes nothing but the iterator and is taken under one and the same
    condition C(item); P = not C.  Returns (list of PseudoPath, problem text)."""
    from . import rel
    rets = [p for p in paths if p.status == "return"]
    if any(p.status not in ("return", "loop-pruned", "unreachable") for p in paths):
        return None, "shape"
    heads = set()
    for p in paths:
        for t in all_trips(p):
            heads.add((t.body_path, t.header))
    if len(heads) != 1:
        return None, "%d loops" % len(heads)

    def next_dec(t):
        """(position in items, iterator term X, label) of the decision on next(X)"""
        for j, (k, x) in enumerate(t.items):
            if k == "d" and isinstance(x[1], App) and x[1].fn == "discr" and isinstance(x[1].args[0], App) and \
                    x[1].args[0].fn in ("std::iter::Iterator::next", "std::iter::DoubleEndedIterator::next_back") and x[2] in ("Some", "None"):
                return j, x[1].args[0].args[0], x[2], x[1].args[0]
        return None
    # the continue condition, from completed trips
    conds = set()
    src = None
    for p in paths:
        for t in all_trips(p):
            nd = next_dec(t)
            if nd is None:
                if not [1 for k, x in t.items if k == "d"]:
                    continue        # the arrival that ends a covered path
                return None, "a trip without a decision on next()"
            j, X, lab, nxt = nd
            if not t.general and src is None and not isinstance(X, Unknown):
                src = X
            if t.post is None or lab != "Some":
                continue
            item = App(".0", [App("as:Some", [nxt])])
            ds = [x for k, x in t.items[j + 1:] if k == "d"]
            if any(k == "e" and x[0] == "write_opaque" for k, x in t.items):
                return None, "a completed trip writes state"
            if t.general:
                itl = loop_unknown(X)
                changed = [(L, v) for L, v in t.pre.items()
                           if isinstance(v, Unknown) and (itl is None or L != itl[1]) and L in t.post and t.post[L].key() != v.key()]
                if changed:
                    # a local that is re-assigned on every trip before it is read (a temporary) is not state: its old value is used nowhere
                    from .dispatch import subterms
                    used = set()
                    for q in paths:
                        for t2 in all_trips(q):
                            if not t2.general or t2.header != t.header:
                                continue
                            terms = [x[1] for k, x in t2.items if k == "d"] + [v2 for v2 in (t2.post or {}).values()]
                            if t2.post is None and q.result is not None:
                                terms.append(q.result)
                            for tm in terms:
                                for sb in subterms(tm):
                                    if isinstance(sb, Unknown):
                                        used.add(sb.key())
                    if any(v.key() in used for L, v in changed):
                        return None, "a completed trip changes loop-carried state"
            conds.add(tuple((rel.cstr(_subst(rel.canon(d[1]), rel.canon(item).key(), Sym("cand"))), str(d[2])) for d in ds))
    if src is None:
        return None, "iterator source not found"
    if len(conds) != 1 or len(next(iter(conds))) != 1:
        return None, "completed trips are not taken under one condition: %s" % sorted(conds)[:2]
    cstr_c, lab_c = next(iter(conds))[0]
    while isinstance(src, App) and src.fn == "std::iter::IntoIterator::into_iter" and len(src.args) == 1:
        src = src.args[0]
    out, seen = [], set()
    pred = None
    for p in rets:
        ts = all_trips(p)
        if not ts:
            out.append(p)
            continue
        first_i = min(t.index for t in ts)
        before = [x for k, x in p.trace[:first_i] if k == "d"]
        last = max(ts, key=lambda t: t.index)
        nd = next_dec(last)
        j, X, lab, nxt = nd
        item = rel.canon(App(".0", [App("as:Some", [nxt])]))
        after = [x for k, x in last.items[j + 1:] if k == "d"]
        if lab == "Some":
            # the decision that ends the search is the negation of the continue condition
            if not after:
                return None, "a trip ends the search without a condition"
            d0 = after[0]
            c0 = rel.cstr(_subst(rel.canon(d0[1]), item.key(), Sym("cand")))
            if c0 != cstr_c or str(d0[2]) == lab_c:
                return None, "a trip ends the search under %s = %s, completed trips continue under %s = %s" % (c0[:60], d0[2], cstr_c[:60], lab_c)
            if pred is None:
                t0 = _subst(rel.canon(d0[1]), item.key(), Sym("cand"))
                if d0[2] is True:
                    pc = t0
                elif isinstance(t0, App) and t0.fn in rel._CMP and len(t0.args) == 2:
                    pc = App(_CMP_FN[rel._NEG[rel._CMP[t0.fn]]], list(t0.args))
                else:
                    pc = App("unop:Not", [t0])
                pred = LoopPred(pc)
            after = after[1:]
    if pred is None:
        return None, "no trip ends the search"
    find = App("std::iter::Iterator::find", [src, pred])
    found = App(".0", [App("as:Some", [find])])
    for p in rets:
        ts = all_trips(p)
        if not ts:
            continue
        first_i = min(t.index for t in ts)
        before = [x for k, x in p.trace[:first_i] if k == "d"]
        last = max(ts, key=lambda t: t.index)
        j, X, lab, nxt = next_dec(last)
        item = rel.canon(App(".0", [App("as:Some", [nxt])]))
        after = [x for k, x in last.items[j + 1:] if k == "d"]
        if lab == "Some":
            after = after[1:]
            decs = before + [("switch", App("discr", [find]), "Some", after[0][3] if after else None)] + \
                [(d[0], _subst(rel.canon(d[1]), item.key(), found), d[2], d[3]) for d in after]
            res = _subst(rel.canon(p.result), item.key(), found)
        else:
            decs = before + [("switch", App("discr", [find]), "None", None)] + list(after)
            res = p.result
        key = (tuple((rel.cstr(d[1]), str(d[2])) for d in decs), rel.cstr(res))
        if key in seen:
            continue
        seen.add(key)
        out.append(PseudoPath(decs, res))
    return out, ""
