"""Loop summaries from the interpreter's ordered trace (loop_mode="widen").

Every arrival at a loop header is an event ("loophead", bb, body path, frame id, state on arrival, state the next trip
starts from).  The trip that starts after the widening has every loop-carried local unknown (⊤(loop:fn:_N)), so the state
on the *next* arrival, written over these unknowns, is the transfer function of one trip under the decisions taken in
between - for every trip, not just the first.

  trips(path, body_path)        -> [Trip] in execution order
  Trip.pre / Trip.post          -> {local: value} at the start of the trip / on the next arrival (None: path ended inside)
  Trip.decisions / Trip.events  -> what happened in between
  Trip.general                  -> the trip started from the widened state

SEQ: `seq_parts(value, path, body)` normalises a collection-valued term to a list of parts, following iterator adaptors
(chain, rev, cloned, copied, enumerate-free maps of clone), in-place growth (push, extend, insert at 0, via the "mut:"
terms the interpreter writes through mutable references) and loops whose general trip grows a collection by one element
of the iterated source.
"""
from .interp import App, Const, Variant, Tup, Closure, Sym, Unknown, show


class Trip:
    def __init__(self, header, fid, pre, post, items, general, index, body_path=None):
        self.header, self.fid, self.pre, self.post, self.items, self.general, self.index = header, fid, pre, post, items, general, index
        self.body_path = body_path

    @property
    def decisions(self):
        return [x for k, x in self.items if k == "d"]

    @property
    def events(self):
        return [x for k, x in self.items if k == "e"]


def trips(path, body_path, fid=None):
    """All trips of all loops of `body_path` on this path (nested loops give nested trips, each listed)."""
    out = []
    heads = [(i, x) for i, (k, x) in enumerate(path.trace) if k == "e" and x[0] == "loophead" and x[2] == body_path and (fid is None or x[3] == fid)]
    by = {}
    for i, x in heads:
        by.setdefault((x[3], x[1]), []).append((i, x))
    for (f, h), arr in by.items():
        widened_at = None
        for n, (i, x) in enumerate(arr):
            outer = set(x[6]) if len(x) > 6 else set()
            # the trip ends at the next arrival at this header (completed) or at an enclosing loop's header (loop left)
            end, nxt = len(path.trace), None
            for j in range(i + 1, len(path.trace)):
                k, y = path.trace[j]
                if k == "e" and y[0] == "loophead" and y[2] == body_path and y[3] == f:
                    if y[1] == h:
                        end, nxt = j, y
                        break
                    if y[1] in outer:
                        end = j
                        break
            items = path.trace[i + 1:end]
            # a trip is general if the widening happened at this arrival (the widen event precedes the loophead event)
            general = i > 0 and path.trace[i - 1][0] == "e" and path.trace[i - 1][1][0] == "widen" and path.trace[i - 1][1][1] == h
            post = nxt[4] if nxt is not None else None
            out.append(Trip(h, f, x[5] if x[5] is not None else x[4], post, items, general, i, body_path))
    out.sort(key=lambda t: t.index)
    return out


def all_trips(path):
    """Trips of every loop of every frame on this path (a loop in an inlined helper is as good as one in the caller)."""
    out = []
    for bp in sorted({x[2] for k, x in path.trace if k == "e" and x[0] == "loophead"}):
        out.extend(trips(path, bp, None))
    out.sort(key=lambda t: t.index)
    return out


def exit_state(path, body_path, header, fid=0):
    """State of the loop-carried locals when the loop was last arrived at (= on exit through the header)."""
    last = None
    for k, x in path.trace:
        if k == "e" and x[0] == "loophead" and x[2] == body_path and x[1] == header and (fid is None or x[3] == fid):
            last = x
    if last is None:
        return None
    return last[5] if last[5] is not None else last[4]


def loop_unknown(v):
    """(function name, local, header) for ⊤(loop:fn:bbH:_N)"""
    if isinstance(v, Unknown) and v.why.startswith("loop:"):
        parts = v.why.split(":")
        if len(parts) >= 4 and parts[-2].startswith("bb") and parts[-1].startswith("_"):
            return ":".join(parts[1:-2]), int(parts[-1][1:]), int(parts[-2][2:])
    return None


# ---- sequences ---------------------------------------------------------------------------------

_TRANSPARENT = ("std::iter::IntoIterator::into_iter", "core::slice::<impl [T]>::iter", "std::iter::Iterator::enumerate", "std::iter::Iterator::cloned", "std::iter::Iterator::copied",
                "std::iter::Iterator::collect", "smallvec::SmallVec::<A>::iter", "std::vec::Vec::<T>::iter", "deref", "std::clone::Clone::clone",
                "smallvec::SmallVec::<A>::into_iter", "std::iter::Iterator::by_ref", "std::iter::FromIterator::from_iter", "std::iter::Iterator::fuse",
                "smallvec::SmallVec::<A>::from_vec", "smallvec::SmallVec::<A>::into_vec", "std::convert::Into::into", "std::convert::From::from",
                "core::slice::<impl [T]>::to_vec", "smallvec::ToSmallVec::to_smallvec", "std::borrow::ToOwned::to_owned")
_EMPTY = ("smallvec::SmallVec::<A>::new", "std::vec::Vec::<T>::new", "std::vec::Vec::<T>::with_capacity", "smallvec::SmallVec::<A>::with_capacity",
          "std::default::Default::default", "std::iter::empty")


def _rev(parts):
    out = []
    for p in reversed(parts):
        if p[0] == "src":
            out.append(("src", p[1], "rev" if p[2] == "fwd" else "fwd"))
        else:
            out.append(p)
    return out


def seq_parts(v, path=None, body_path=None, depth=0, paths=None):
    """[('src', term string, 'fwd'|'rev') | ('elem', term string) | ('?', text)]"""
    if depth > 25:
        return [("?", "depth")]
    if isinstance(v, App):
        fn = v.fn
        if fn in _EMPTY and len(v.args) <= 1:
            return []
        if fn in _TRANSPARENT and len(v.args) == 1:
            return seq_parts(v.args[0], path, body_path, depth + 1, paths)
        if fn.rsplit("::", 1)[-1] == "drain" and len(v.args) == 2 and show(v.args[1]) in ("RangeFull", "std::ops::RangeFull", "RangeFull{}"):
            return seq_parts(v.args[0], path, body_path, depth + 1, paths)        # drain(..) yields the whole sequence, in order
        if fn == "std::iter::Iterator::chain" and len(v.args) == 2:
            return seq_parts(v.args[0], path, body_path, depth + 1, paths) + seq_parts(v.args[1], path, body_path, depth + 1, paths)
        if fn == "std::iter::Iterator::rev" and len(v.args) == 1:
            return _rev(seq_parts(v.args[0], path, body_path, depth + 1, paths))
        if fn == "std::iter::once" and len(v.args) == 1:
            return [("elem", show(v.args[0]))]
        if fn.startswith("mut:"):
            m = fn[4:].rsplit("::", 1)[-1]
            old = seq_parts(v.args[0], path, body_path, depth + 1, paths)
            rest = list(v.args[1:])
            if m == "push" and len(rest) == 1:
                return old + [("elem", show(rest[0]))]
            if m in ("extend", "extend_from_slice", "append", "insert_many") and rest:
                if m == "insert_many":
                    if len(rest) == 2 and isinstance(rest[0], Const) and rest[0].bits == 0:
                        return seq_parts(rest[1], path, body_path, depth + 1, paths) + old
                    return [("?", show(v)[:80])]
                return old + seq_parts(rest[-1], path, body_path, depth + 1, paths)
            if m == "insert" and len(rest) == 2 and isinstance(rest[0], Const) and rest[0].bits == 0:
                return [("elem", show(rest[1]))] + old
            if m in ("clone_from",) and len(rest) == 1:
                return seq_parts(rest[0], path, body_path, depth + 1, paths)
            return [("?", show(v)[:80])]
    lu = loop_unknown(v)
    if lu is not None and path is not None:
        got = _loop_growth(v, path, depth, paths or [path])
        if got is not None:
            return got
        return [("?", show(v))]
    if isinstance(v, Unknown):
        return [("?", show(v))]
    return [("src", show(v), "fwd")]


def _item_of(v):
    """iterator term IT if v is (a clone / field-free use of) the element `next(IT)` yields"""
    while isinstance(v, App) and v.fn in ("std::clone::Clone::clone", "deref", "copy") and len(v.args) == 1:
        v = v.args[0]
    if isinstance(v, App) and v.fn == ".0" and isinstance(v.args[0], App) and v.args[0].fn == "as:Some":
        n = v.args[0].args[0]
        if isinstance(n, App) and n.fn in ("std::iter::Iterator::next", "std::iter::DoubleEndedIterator::next_back") and len(n.args) == 1:
            return n.args[0], n.fn.endswith("next_back")
    return None


def _loop_growth(unk, path, depth, paths):
    """⊤(loop:fn:bbH:_L): if every general trip of that loop (on any sibling path) is `L = L ++ [item]` resp.
    `[item] ++ L`, item being the element the loop's own iterator yields, then the value after the loop is
    before ++ source  resp.  reverse(source) ++ before  (before/source: the values on this path's first arrival)."""
    fn, L, H = loop_unknown(unk)
    body_paths = {x[2] for k, x in path.trace if k == "e" and x[0] == "loophead" and x[2].split("::")[-1] == fn}
    for body_path in body_paths:
        mine = [u for u in trips(path, body_path) if u.header == H]
        if not mine:
            continue
        first = mine[0]
        shapes = set()
        it_local = None
        n = 0
        for q in paths:
            for t in trips(q, body_path):
                if t.header != H or not t.general or t.post is None or L not in t.pre or t.pre[L].key() != unk.key():
                    continue
                n += 1
                post = t.post.get(L)
                if post is not None and post.key() == unk.key():
                    shapes.add(("same",))
                    continue
                if not (isinstance(post, App) and post.fn.startswith("mut:") and post.args and post.args[0].key() == unk.key()):
                    shapes.add(("?", show(post)[:60]))
                    continue
                m = post.fn[4:].rsplit("::", 1)[-1]
                rest = list(post.args[1:])
                elem, front = None, False
                if m == "push" and len(rest) == 1:
                    elem = rest[0]
                elif m == "insert" and len(rest) == 2 and isinstance(rest[0], Const) and rest[0].bits == 0:
                    elem, front = rest[1], True
                it = _item_of(elem) if elem is not None else None
                lu = loop_unknown(it[0]) if it else None
                if lu is None or lu[2] != H:
                    shapes.add(("?", show(post)[:60]))
                    continue
                shapes.add(("grow", front, it[1], lu[1]))
        if n == 0 or len(shapes) != 1 or next(iter(shapes))[0] != "grow":
            continue
        _, front, back, itl = next(iter(shapes))
        src, before = first.pre.get(itl), first.pre.get(L)
        if src is None or before is None:
            continue
        sp = seq_parts(src, path, body_path, depth + 1, paths)
        if back:
            sp = _rev(sp)
        bp = seq_parts(before, path, body_path, depth + 1, paths)
        return (_rev(sp) + bp) if front else (bp + sp)
    return None


def fold_source(v, path, paths):
    """Source parts of a left fold whose result is `v`: `fold(SRC, init, f)` / `rfold`, or the value a loop leaves in an
    accumulator whose general trip is acc = g(.., item, .., acc, ..) with item the element of the loop's iterator.
    Returns (parts, step term string) or None."""
    if isinstance(v, App) and v.fn in ("std::iter::Iterator::fold", "std::iter::Iterator::try_fold") and len(v.args) == 3:
        return seq_parts(v.args[0], path, None, 0, paths), show(v.args[2])
    if isinstance(v, App) and v.fn in ("std::iter::DoubleEndedIterator::rfold", "std::iter::DoubleEndedIterator::try_rfold") and len(v.args) == 3:
        return _rev(seq_parts(v.args[0], path, None, 0, paths)), show(v.args[2])
    lu = loop_unknown(v)
    if lu is None:
        return None
    fn, L, H = lu
    for body_path in {x[2] for k, x in path.trace if k == "e" and x[0] == "loophead" and x[2].split("::")[-1] == fn}:
        mine = [u for u in trips(path, body_path) if u.header == H]
        if not mine:
            continue
        shapes = set()
        for q in paths:
            for t in trips(q, body_path):
                if t.header != H or not t.general or t.post is None or L not in t.pre or t.pre[L].key() != v.key():
                    continue
                post = t.post.get(L)
                if post is None:
                    continue
                if post.key() == v.key():
                    shapes.add(("same",))
                    continue
                itl = None
                uses_acc = False
                from .dispatch import subterms
                for s in subterms(post):
                    if s.key() == v.key():
                        uses_acc = True
                    it = _item_of(s)
                    if it is not None:
                        l2 = loop_unknown(it[0])
                        if l2 is not None and l2[2] == H:
                            itl = (l2[1], it[1])
                if itl is None or not uses_acc:
                    shapes.add(("?", show(post)[:80]))
                else:
                    shapes.add(("fold", itl[0], itl[1], show(post)[:160]))
        folds = [s for s in shapes if s[0] == "fold"]
        if not folds or any(s[0] == "?" for s in shapes) or len({(s[1], s[2]) for s in folds}) != 1:
            continue
        src = mine[0].pre.get(folds[0][1])
        if src is None:
            continue
        sp = seq_parts(src, path, body_path, 0, paths)
        if folds[0][2]:
            sp = _rev(sp)
        return sp, folds[0][3]
    return None
