"""Seeded-fault self-test: each seed is a one-line source edit applied to a scratch
copy of the *current* /repo tree (outside /repo and /verif, removed immediately);
facts are re-extracted and the property's rules must fire naming that instance.

This tests the checker, it decides nothing about /repo.  Exit code 2 +
CHECKER-SELFTEST-FAILED when a seed that applies and compiles is not caught.
"""
import importlib
import json
import os
import shutil
import sys
import tempfile
from concurrent.futures import ProcessPoolExecutor

from . import facts, report

SEEDS = os.path.join(facts.VERIF, "spec", "seeds.json")


def load_seeds(pid=None):
    with open(SEEDS) as f:
        seeds = json.load(f)
    return [s for s in seeds if pid is None or s["property"] == pid]


def make_scratch(repo="/repo"):
    d = tempfile.mkdtemp(prefix="exmex-scratch-")
    for name in ("src", "benches", "tests"):
        p = os.path.join(repo, name)
        if os.path.isdir(p):
            shutil.copytree(p, os.path.join(d, name))
    for name in ("Cargo.toml", "Cargo.lock"):
        shutil.copy(os.path.join(repo, name), os.path.join(d, name))
    return d


def apply_edit(root, seed):
    """Returns True if applied."""
    edits = seed.get("edits") or [{"file": seed["file"], "old": seed["old"], "new": seed["new"], "count": seed.get("count", 1)}]
    for e in edits:
        p = os.path.join(root, e["file"])
        with open(p) as f:
            t = f.read()
        if e["old"] not in t:
            return False
        t = t.replace(e["old"], e["new"], e.get("count", 1))
        with open(p, "w") as f:
            f.write(t)
    return True


def run_seed(seed, worker=0):
    """Return dict(status=caught|missed|skipped|nocompile, detail=...)."""
    pid = seed["property"]
    d = make_scratch()
    try:
        if not apply_edit(d, seed):
            return {"seed": seed["name"], "status": "skipped", "detail": "anchor text absent"}
        os.environ["VERIF_SCRATCH_TAG"] = "selftest%d" % worker
        facts.REPO = d
        try:
            facts_, meta = facts.extract(facts.ALL_FEATURES, repo=d, use_cache=False, target_tag="selftest%d" % worker)
        except facts.ExtractionError as e:
            return {"seed": seed["name"], "status": "nocompile", "detail": str(e)[-300:]}
        fb = facts.FactBase(facts_, meta)
        mod = importlib.import_module("rules." + pid.lower())
        chk = report.Check(pid, "quick", 0, mod.LEVEL, "", "")
        chk.known = []  # the self-test never suppresses

        class Ctx:
            pass
        ctx = Ctx()
        ctx.pid, ctx.tier, ctx.seed, ctx.fb, ctx.check = pid, "quick", 0, fb, chk
        ctx.facts_for = lambda f: fb
        ctx.repo = d
        try:
            mod.run(ctx)
        except facts.AnchorError as e:
            chk.violation("ANCHOR", "anchor", str(e))
        keys = [v["key"] for v in chk.violations]
        exp = seed.get("expect")
        hit = [k for k in keys if exp in k] if exp else keys
        if hit:
            return {"seed": seed["name"], "status": "caught", "detail": hit[0], "all": keys[:6]}
        return {"seed": seed["name"], "status": "missed", "detail": "violations reported: %s" % keys[:6]}
    finally:
        shutil.rmtree(d, ignore_errors=True)
        facts.REPO = os.environ.get("VERIF_REPO", "/repo")


def _job(args):
    seed, worker = args
    sys.path.insert(0, facts.VERIF)
    try:
        return run_seed(seed, worker)
    except Exception as e:  # noqa
        import traceback
        return {"seed": seed["name"], "status": "error", "detail": traceback.format_exc()[-600:]}


def run_all(pid, workers=4):
    seeds = load_seeds(pid)
    if not seeds:
        return {"seeds": 0, "results": []}
    jobs = [(s, i % workers) for i, s in enumerate(seeds)]
    # one process per worker id so that target dirs are not shared concurrently
    buckets = {}
    for s, w in jobs:
        buckets.setdefault(w, []).append((s, w))
    results = []
    with ProcessPoolExecutor(max_workers=workers) as ex:
        futs = [ex.submit(_bucket, b) for b in buckets.values()]
        for f in futs:
            results.extend(f.result())
    tally = {}
    for r in results:
        tally[r["status"]] = tally.get(r["status"], 0) + 1
    return {"seeds": len(seeds), "tally": tally, "results": results}


def _bucket(jobs):
    return [_job(j) for j in jobs]


if __name__ == "__main__":
    pid = sys.argv[1] if len(sys.argv) > 1 else None
    pids = [pid] if pid else sorted({s["property"] for s in load_seeds()})
    bad = 0
    for p in pids:
        res = run_all(p, workers=int(os.environ.get("VERIF_WORKERS", "6")))
        print(p, res.get("tally"))
        for r in res["results"]:
            print("   %-9s %-40s %s" % (r["status"], r["seed"], r["detail"][:150]))
            if r["status"] in ("missed", "error"):
                bad += 1
    if bad:
        print("CHECKER-SELFTEST-FAILED: %d seed(s) not caught" % bad)
        sys.exit(2)
