"""Order/equality facts that hold on one interpreter path, and queries over them.

Decisions of a path are turned into facts `(lhs, op, rhs)` over canonical term strings, op in {'<', '<=', '==', '!='}.
Canonicalisation makes spellings of one value equal: `x.unwrap()` / `x.expect(..)` and the payload of a `Some(..)`/`Ok(..)`
match of the same `x`; `Some(p).filter(c)` modelled as opt_if(c, p); boolean negation; `a > b` as `b < a`.
Queries (`lt`, `le`, `eq_const`) use only these facts plus integer constants: no arithmetic beyond comparing constants.
"""
import re

from .interp import App, Const, Variant, Tup, show

_UNWRAP_OPT = ("std::option::Option::<T>::unwrap", "std::option::Option::<T>::expect", "std::option::Option::<T>::unwrap_unchecked")
_UNWRAP_RES = ("std::result::Result::<T, E>::unwrap", "std::result::Result::<T, E>::expect")
_TRANSPARENT = ("deref", "std::clone::Clone::clone", "copy")

_CMP = {"binop:Lt": "<", "binop:Le": "<=", "binop:Gt": ">", "binop:Ge": ">=", "binop:Eq": "==", "binop:Ne": "!=",
        "std::cmp::PartialOrd::lt": "<", "std::cmp::PartialOrd::le": "<=", "std::cmp::PartialOrd::gt": ">", "std::cmp::PartialOrd::ge": ">=",
        "std::cmp::PartialEq::eq": "==", "std::cmp::PartialEq::ne": "!="}
_NEG = {"<": ">=", "<=": ">", ">": "<=", ">=": "<", "==": "!=", "!=": "=="}


def canon(v):
    if isinstance(v, Const) and v.named and v.bits is not None and v.s is None and v.ty != "discr":
        return Const(v.ty, v.bits)      # a named integer constant is its value
    if isinstance(v, App):
        args = [canon(a) for a in v.args]
        if v.fn in _UNWRAP_OPT and args:
            return canon_payload(App("as:Some", [args[0]]))
        if v.fn in _UNWRAP_RES and args:
            return canon_payload(App("as:Ok", [args[0]]))
        if v.fn == ".0" and len(args) == 1 and isinstance(args[0], App) and args[0].fn in ("as:Some", "as:Ok"):
            return canon_payload(args[0])
        if v.fn in _TRANSPARENT and len(args) == 1:
            return args[0]
        return App(v.fn, args, info=v.info)
    if isinstance(v, Variant):
        return Variant(v.adt, v.variant, {k: canon(x) for k, x in v.fields.items()})
    if isinstance(v, Tup):
        return Tup([canon(e) for e in v.elems], v.kind)
    return v


def canon_payload(asv):
    """payload of as:Some(X): X's own payload when X is opt_if(c, p) or a known Some."""
    x = asv.args[0]
    if isinstance(x, App) and x.fn == "opt_if" and len(x.args) == 2:
        return x.args[1]
    if isinstance(x, Variant) and x.variant in ("Some", "Ok") and "0" in x.fields:
        return x.fields["0"]
    if isinstance(x, App) and x.fn in ("std::convert::TryFrom::try_from", "std::convert::TryInto::try_into") and len(x.args) == 1:
        # the success value of a checked integer conversion is the converted number
        return App("cast:IntToInt:tryfrom", [x.args[0]])
    return App(".0", [asv])


def cstr(v):
    return show(canon(v))


def const_int(v):
    v = canon(v)
    if isinstance(v, Const) and v.bits is not None and v.ty != "bool":
        w = {"i8": 8, "i16": 16, "i32": 32, "i64": 64, "i128": 128, "isize": 64}.get(v.ty)
        if w and v.bits >= 1 << (w - 1):
            return v.bits - (1 << w)
        return v.bits
    if isinstance(v, Const) and v.text:
        m = re.match(r"^(-?\d+)_[iu](8|16|32|64|128|size)$", v.text)
        if m:
            return int(m.group(1))
    return None


class Facts:
    def __init__(self, path):
        self.rel = []       # (lhs V, op, rhs V)  canonical, op in < <= == !=
        self.true = []      # opaque boolean terms known True / False: (term V, bool)
        self.tags = []      # (value V, variant label)
        for d in path.decisions:
            self._add(d[1], d[2])

    def _add(self, term, label):
        term = canon(term)
        if isinstance(term, App) and term.fn == "discr" and len(term.args) == 1:
            x = term.args[0]
            self.tags.append((x, label))
            if isinstance(x, App) and x.fn == "opt_if" and label in ("Some", "None"):
                self._add(x.args[0], label == "Some")
            return
        if label not in (True, False):
            return
        if isinstance(term, App) and term.fn == "unop:Not" and len(term.args) == 1:
            return self._add(term.args[0], not label)
        if isinstance(term, App) and term.fn in _CMP and len(term.args) == 2:
            op = _CMP[term.fn]
            if not label:
                op = _NEG[op]
            a, b = term.args
            if op == ">":
                a, b, op = b, a, "<"
            elif op == ">=":
                a, b, op = b, a, "<="
            self.rel.append((a, op, b))
            return
        self.true.append((term, label))

    # -- queries -----------------------------------------------------------------------------
    def _same(self, a, b):
        return a.key() == b.key()

    def eq_consts(self, x):
        """integer constants x is known to equal"""
        out = set()
        for a, op, b in self.rel:
            if op == "==":
                if self._same(a, x) and const_int(b) is not None:
                    out.add(const_int(b))
                if self._same(b, x) and const_int(a) is not None:
                    out.add(const_int(a))
        return out

    def lt(self, x, y):
        """x < y follows from the facts"""
        x, y = canon(x), canon(y)
        for a, op, b in self.rel:
            if op == "<" and self._same(a, x) and self._same(b, y):
                return True
        cx, cy = const_int(x), const_int(y)
        if cx is not None and cy is not None:
            return cx < cy
        if cx is not None:
            if any(cx < c for c in self.eq_consts(y)):
                return True
            # c' <= y or c' < y with cx < c' (+1)
            for a, op, b in self.rel:
                ca = const_int(a)
                if ca is not None and self._same(b, y) and ((op == "<=" and cx < ca) or (op == "<" and cx <= ca)):
                    return True
        if cy is not None:
            if any(c < cy for c in self.eq_consts(x)):
                return True
            for a, op, b in self.rel:
                cb = const_int(b)
                if cb is not None and self._same(a, x) and ((op == "<=" and cb < cy) or (op == "<" and cb <= cy)):
                    return True
        return False

    def le(self, x, y):
        x, y = canon(x), canon(y)
        if self._same(x, y) or self.lt(x, y):
            return True
        for a, op, b in self.rel:
            if op in ("<=", "==") and self._same(a, x) and self._same(b, y):
                return True
            if op == "==" and self._same(a, y) and self._same(b, x):
                return True
        cx, cy = const_int(x), const_int(y)
        if cx is not None and cy is not None:
            return cx <= cy
        return False

    def tag(self, x, labels):
        x = canon(x)
        return any(self._same(a, x) and l in labels for a, l in self.tags)

    def known(self, pred, value=True):
        """an opaque boolean term matching `pred` (callable on V) is known to be `value`"""
        return any(pred(t) and l == value for t, l in self.true)
