"""Abstract interpreter over exported MIR.

Domain (product): constants, enum variant tags with payloads, tuples/structs,
closures / fn items, references into frames, and uninterpreted *terms*
(`App`) for opaque calls and projections of opaque values.  Control flow on a
known constant/tag is followed deterministically; control flow on an opaque
value forks the path and records the decision (consistently: the same opaque
condition is decided the same way along one path).  Crate-local callees are
inlined only where the caller's policy asks for it (depth-bounded); everything
else becomes a term keyed by the *resolved* callee path.

Exact mode only: a block revisited more than `max_visits` times on one path, or
more than `max_paths` paths, ends with status "unrecognised" – rules must treat
that as fail-closed.  Nothing here executes exmex code; values are symbols.
"""
from . import mir


# ---- values ------------------------------------------------------------------

class V:
    __slots__ = ()

    def key(self):
        raise NotImplementedError

    def __eq__(self, o):
        return isinstance(o, V) and self.key() == o.key()

    def __hash__(self):
        return hash(self.key())

    def __repr__(self):
        return show(self)


class Const(V):
    __slots__ = ("ty", "bits", "s", "text", "named")

    def __init__(self, ty, bits=None, s=None, text=None, named=None):
        self.ty, self.bits, self.s, self.text, self.named = ty, bits, s, text, named

    def key(self):
        if self.s is not None:
            return ("const", "str", self.s)
        if self.bits is not None:
            return ("const", self.ty, self.bits)
        return ("const", self.ty, self.text)


class Sym(V):
    __slots__ = ("name",)

    def __init__(self, name):
        self.name = name

    def key(self):
        return ("sym", self.name)


class App(V):
    """Uninterpreted application f(args)."""
    __slots__ = ("fn", "args", "info")

    def __init__(self, fn, args=(), info=None):
        self.fn, self.args, self.info = fn, tuple(args), info

    def key(self):
        return ("app", self.fn, tuple(a.key() for a in self.args))


class Variant(V):
    """ADT value with known variant (variant None for structs)."""
    __slots__ = ("adt", "variant", "fields")

    def __init__(self, adt, variant, fields):
        self.adt, self.variant, self.fields = adt, variant, dict(fields)

    def key(self):
        return ("adt", self.adt, self.variant, tuple(sorted((k, v.key()) for k, v in self.fields.items())))


class Tup(V):
    __slots__ = ("elems", "kind")

    def __init__(self, elems, kind="tuple"):
        self.elems, self.kind = list(elems), kind

    def key(self):
        return (self.kind, tuple(e.key() for e in self.elems))


class Closure(V):
    __slots__ = ("path", "caps")

    def __init__(self, path, caps):
        self.path, self.caps = path, dict(caps)

    def key(self):
        return ("closure", self.path, tuple(sorted((k, v.key()) for k, v in self.caps.items())))


class FnItem(V):
    __slots__ = ("fn",)

    def __init__(self, fn):
        self.fn = fn

    def key(self):
        return ("fnitem", self.fn["path"], tuple(self.fn.get("args", ())))


class Ref(V):
    __slots__ = ("fid", "local", "proj", "mut")

    def __init__(self, fid, local, proj=(), mut=False):
        self.fid, self.local, self.proj, self.mut = fid, local, tuple(proj), mut

    def key(self):
        return ("ref", self.fid, self.local, tuple(_pk(e) for e in self.proj))


class Unknown(V):
    __slots__ = ("why",)

    def __init__(self, why="?"):
        self.why = why

    def key(self):
        return ("unknown", self.why)


def _eq_simplify(a, b):
    """`a == b` for std's derived equality on Option/Result/bool when the shape of both sides is known."""
    STD = ("std::option::Option", "std::result::Result")
    if isinstance(a, Variant) and isinstance(b, Variant) and a.adt == b.adt and a.adt in STD:
        if a.variant != b.variant:
            return Const("bool", 0)
        if not a.fields:
            return Const("bool", 1)
        return _eq_simplify(a.fields["0"], b.fields["0"]) or App("std::cmp::PartialEq::eq", [a.fields["0"], b.fields["0"]])
    for x, y in ((a, b), (b, a)):
        if isinstance(y, Const) and y.ty == "bool" and y.bits is not None:
            if isinstance(x, Const) and x.ty == "bool" and x.bits is not None:
                return Const("bool", 1 if bool(x.bits) == bool(y.bits) else 0)
            return x if y.bits else App("unop:Not", [x])
    return None


def _pk(e):
    k = e["k"]
    if k == "field":
        return ("f", e["name"])
    if k == "downcast":
        return ("d", e["variant"])
    if k == "index":
        return ("i", e["local"])
    if k == "constindex":
        return ("ci", e["offset"], e["from_end"])
    return (k,)


def show(v, depth=0):
    if depth > 12:
        return "…"
    if isinstance(v, Const):
        if v.s is not None:
            return repr(v.s)
        if v.named:
            return v.named
        return v.text if v.text is not None else "%s:%s" % (v.ty, v.bits)
    if isinstance(v, Sym):
        return v.name
    if isinstance(v, App):
        return "%s(%s)" % (v.fn, ", ".join(show(a, depth + 1) for a in v.args))
    if isinstance(v, Variant):
        n = (v.adt.split("::")[-1] + ("::" + v.variant if v.variant else ""))
        if not v.fields:
            return n
        return "%s{%s}" % (n, ", ".join("%s: %s" % (k, show(x, depth + 1)) for k, x in v.fields.items()))
    if isinstance(v, Tup):
        return "(%s)" % ", ".join(show(e, depth + 1) for e in v.elems)
    if isinstance(v, Closure):
        return "closure<%s>" % v.path.split("::")[-1]
    if isinstance(v, FnItem):
        return "fn<%s>" % v.fn["path"]
    if isinstance(v, Ref):
        return "&f%d._%d%s" % (v.fid, v.local, "".join("." + str(_pk(e)[-1]) for e in v.proj))
    if isinstance(v, Unknown):
        return "⊤(%s)" % v.why
    return "?"


# ---- path state ----------------------------------------------------------------

class Frame:
    __slots__ = ("fid", "body", "locals", "bb", "ret_dest", "ret_target", "visits", "post", "ctx")

    def __init__(self, fid, body, locals_, ret_dest=None, ret_target=None, post=None, ctx=""):
        self.fid, self.body, self.locals = fid, body, locals_
        self.ctx = ctx            # where this (inlined) frame was entered: call site and widening state of the callers
        self.bb = 0
        self.ret_dest, self.ret_target = ret_dest, ret_target
        self.visits = {}
        self.post = post          # applied to the returned value before it is stored (std combinator models)

    def copy(self):
        f = Frame(self.fid, self.body, dict(self.locals), self.ret_dest, self.ret_target, self.post, self.ctx)
        f.bb = self.bb
        f.visits = dict(self.visits)
        return f


class _Log(list):
    """A list whose appends are also recorded, in order, in the owning path's trace."""

    def __init__(self, kind, trace, items=()):
        super().__init__(items)
        self.kind, self.trace = kind, trace

    def append(self, x):
        self.trace.append((self.kind, x))
        super().append(x)


class Path:
    def __init__(self):
        self.frames = []
        self.trace = []       # ('d', decision) / ('e', event) in execution order
        self.decisions = _Log("d", self.trace)   # (kind, cond V, branch label, loc)
        self.assumed = {}     # cond key -> branch label
        self.events = _Log("e", self.trace)      # ('call', path, args, loc) / ('assert', kind, loc) / ...
        self.heap = {}        # (base key, proj key) -> V   writes through opaque refs
        self.widened = set()  # (frame id, loop header) already widened on this path
        self.loop_heap = {}   # (frame id, loop header) -> heap at the first arrival
        self.next_fid = 0
        self.status = None
        self.result = None
        self.note = None

    def copy(self):
        p = Path()
        p.frames = [f.copy() for f in self.frames]
        p.trace = list(self.trace)
        p.decisions = _Log("d", p.trace, self.decisions)
        p.assumed = dict(self.assumed)
        p.events = _Log("e", p.trace, self.events)
        p.heap = dict(self.heap)
        p.widened = set(self.widened)
        p.loop_heap = dict(self.loop_heap)
        p.next_fid = self.next_fid
        return p


class Policy:
    """Override in rules."""
    max_paths = 4000
    max_depth = 4
    max_visits = 1
    max_steps = 200000
    try_mode = "fork"            # "fork" | "ok_only"
    clone_identity = True
    record_calls = True
    std_models = True
    deref_identity = True
    loop_mode = "exact"          # "exact": a revisited block ends the path as unrecognised;
                                 # "widen": at a loop header every local assigned inside the loop becomes unknown once,
                                 #          the body is explored once more from that over-approximate state, and a
                                 #          further arrival ends the path as covered ("loop-pruned")

    def inline(self, fn, args, interp, path):
        """Return True to inline a crate-local callee."""
        return False

    def model(self, fn, args, interp, path, term):
        """Return a V to replace the call, or None."""
        return None

    def inline_closure(self, closure_path, args, interp, path):
        """Return False to keep a call of a known closure opaque."""
        return True

    def on_opaque_switch(self, cond, labels, interp, path):
        """Return the subset of labels to follow (default: all)."""
        return labels


class Interp:
    def __init__(self, fb, policy=None):
        self.fb = fb
        self.policy = policy or Policy()
        self.steps = 0

    # -- entry -----------------------------------------------------------------
    def run(self, body, args):
        """Enumerate paths of `body` called with abstract `args` (list of V, one per MIR argument)."""
        p = Path()
        self._push(p, body, args, None, None)
        done, work = [], [p]
        self.steps = 0
        while work:
            if len(done) + len(work) > self.policy.max_paths:
                q = Path()
                q.status, q.note = "unrecognised", "path limit %d exceeded" % self.policy.max_paths
                done.append(q)
                break
            cur = work.pop()
            forks = self._run_path(cur)
            if cur.status is not None:
                done.append(cur)
            else:
                work.append(cur)
            work.extend(forks)
        return done

    def _push(self, path, body, args, ret_dest, ret_target, post=None):
        fid = path.next_fid
        path.next_fid += 1
        loc = {}
        for i, a in enumerate(args):
            loc[i + 1] = a
        ctx = ""
        if path.frames:
            # an inlined frame is identified by its call site and by how many loops of the caller were already widened there:
            # the same helper entered in the first and in the general trip of a loop (or at two call sites) gets distinct
            # unknowns, so that a decision about one instance is not silently reused for the other; the name is the same on
            # sibling paths
            caller = path.frames[-1]
            ctx = "%s_c%dw%d" % (caller.ctx, caller.bb, sum(1 for wk in path.widened if wk[0] == caller.fid))
        path.frames.append(Frame(fid, body, loc, ret_dest, ret_target, post, ctx))

    def frame_by_id(self, path, fid):
        for f in path.frames:
            if f.fid == fid:
                return f
        return None

    # -- places ----------------------------------------------------------------
    def read_place(self, path, frame, place):
        v = frame.locals.get(place["local"])
        if v is None:
            v = Unknown("uninit _%d" % place["local"])
        return self._project(path, frame, v, place["proj"])

    def _project(self, path, frame, v, proj):
        for i, e in enumerate(proj):
            k = e["k"]
            if k == "deref":
                v = self.deref(path, v)
            elif k == "field":
                v = self._field(path, v, e)
            elif k == "downcast":
                if isinstance(v, Variant):
                    if v.variant != e["variant"]:
                        v = Unknown("downcast %s on %s" % (e["variant"], v.variant))
                else:
                    v = App("as:" + e["variant"], [v])
            elif k == "index":
                idx = frame.locals.get(e["local"], Unknown("idx"))
                v = self._index(v, idx)
            elif k == "constindex":
                v = self._index(v, Const("usize", e["offset"]))
            else:
                v = App("proj:" + k, [v])
        return v

    def deref(self, path, v):
        if isinstance(v, Ref):
            fr = self.frame_by_id(path, v.fid)
            if fr is None:
                return Unknown("dangling ref")
            base = fr.locals.get(v.local, Unknown("uninit"))
            return self._project(path, fr, base, v.proj)
        hk = (v.key(), ())
        if hk in path.heap:
            return path.heap[hk]
        return v  # opaque: transparent

    def _field(self, path, v, e):
        name = e["name"]
        if isinstance(v, Variant):
            if name in v.fields:
                return v.fields[name]
            return Unknown("no field " + name)
        if isinstance(v, Tup):
            i = e["idx"]
            if i < len(v.elems):
                return v.elems[i]
            return Unknown("tuple idx")
        if isinstance(v, Closure):
            nm = name[4:] if name.startswith("cap:") else name
            if nm in v.caps:
                return v.caps[nm]
            return Unknown("no capture " + nm)
        if isinstance(v, Ref):
            return self._field(path, self.deref(path, v), e)
        hk = (v.key(), ("f", name))
        if hk in path.heap:
            return path.heap[hk]
        return App("." + name, [v])

    def _index(self, v, idx):
        if isinstance(v, Tup) and isinstance(idx, Const) and idx.bits is not None and idx.bits < len(v.elems):
            return v.elems[idx.bits]
        return App("index", [v, idx])

    def write_place(self, path, frame, place, val):
        proj = place["proj"]
        if not proj:
            frame.locals[place["local"]] = val
            return
        base = frame.locals.get(place["local"], Unknown("uninit"))
        frame.locals[place["local"]] = self._write_into(path, frame, base, list(proj), val)

    def _write_into(self, path, frame, base, proj, val):
        if not proj:
            return val
        e, rest = proj[0], proj[1:]
        k = e["k"]
        if k == "deref":
            if isinstance(base, Ref):
                fr = self.frame_by_id(path, base.fid)
                if fr is not None:
                    tgt = fr.locals.get(base.local, Unknown("uninit"))
                    fr.locals[base.local] = self._write_into(path, fr, tgt, list(base.proj) + rest, val)
                return base
            # write through an opaque reference: remember in the side heap
            self._heap_write(path, base, rest, val, frame)
            return base
        if k == "field":
            name = e["name"]
            if isinstance(base, Variant):
                nf = dict(base.fields)
                nf[name] = self._write_into(path, frame, base.fields.get(name, Unknown("uninit")), rest, val)
                return Variant(base.adt, base.variant, nf)
            if isinstance(base, Tup):
                el = list(base.elems)
                i = e["idx"]
                while len(el) <= i:
                    el.append(Unknown("uninit"))
                el[i] = self._write_into(path, frame, el[i], rest, val)
                return Tup(el, base.kind)
            self._heap_write(path, base, proj, val, frame)
            return base
        if k == "downcast":
            return self._write_into(path, frame, base, rest, val)
        self._heap_write(path, base, proj, val, frame)
        return base

    def _heap_write(self, path, base, proj, val, frame=None):
        # 5th element: the values of the locals used as indices in the projection (`xs[i] = v` through a reference)
        idx = {}
        cur = path.frames[-1] if path.frames else None       # index projections name locals of the executing function
        if cur is not None:
            for e in proj:
                if e.get("k") == "index" and e.get("local") in cur.locals:
                    idx[e["local"]] = self._snap(path, cur.locals[e["local"]])
        path.events.append(("write_opaque", base, tuple(_pk(e) for e in proj), val, idx))
        if len(proj) == 1 and proj[0]["k"] == "field":
            path.heap[(base.key(), ("f", proj[0]["name"]))] = val
        elif not proj:
            path.heap[(base.key(), ())] = val

    # -- operands / rvalues -----------------------------------------------------
    def operand(self, path, frame, o):
        k = o["k"]
        if k in ("copy", "move"):
            return self.read_place(path, frame, o["place"])
        if k == "const":
            return self.const(o)
        return Unknown(k)

    def const(self, o):
        if o.get("promoted_key"):
            v = self.eval_promoted(o["promoted_key"])
            if v is not None:
                return v
        if "fn" in o:
            return FnItem(o["fn"])
        if "closure" in o:
            return Closure(o["closure"], {})
        bits = int(o["bits"]) if o.get("bits") is not None else None
        s_ = o.get("str")
        if bits is None and s_ is None and o.get("named") and o["named"] in self.fb.consts:
            # a crate-local named constant used before evaluation: take the value the compiler computed for the item
            c = self.fb.consts[o["named"]]
            bits = int(c["bits"]) if c.get("bits") is not None else None
            s_ = c.get("str")
        if o.get("static") and bits is None and s_ is None:
            # `&STATIC_ITEM`: shown by the item's path
            return App("static", [Const("path", None, None, o["static"], o["static"])])
        return Const(o["ty"], bits, s_, o.get("text"), o.get("named"))

    def eval_promoted(self, key):
        """Value of a promoted constant (`&Paren::Close`, `&Some(true)`, ...): its tiny MIR body is interpreted."""
        cache = self.fb.__dict__.setdefault("_promoted_vals", {})
        if key in cache:
            return cache[key]
        cache[key] = None  # recursion guard
        body = self.fb.promoted.get(key)
        if body is None:
            return None
        sub = Interp(self.fb, Policy())
        ps = sub.run(body, [])
        if len(ps) == 1 and ps[0].status == "return" and ps[0].result is not None:
            # the frame is gone: resolve references into it
            p = ps[0]
            v = p.result
            cache[key] = v if not isinstance(v, Ref) else None
        return cache[key]

    def rvalue(self, path, frame, rv):
        k = rv["k"]
        if k == "use":
            return self.operand(path, frame, rv["op"])
        if k == "ref" or k == "rawptr":
            return self.make_ref(path, frame, rv["place"], "Mut" in rv.get("borrow", rv.get("kind", "")))
        if k == "cast":
            v = self.operand(path, frame, rv["op"])
            ck = rv["kind"]
            if ck.startswith("PointerCoercion") or ck in ("PtrToPtr", "Transmute", "Subtype", "FnPtrToPtr"):
                return v
            if isinstance(v, Const) and v.bits is not None and ck == "IntToInt":
                return Const(rv["ty"], _wrap(v.bits, v.ty, rv["ty"]))
            return App("cast:%s:%s" % (ck, rv["ty"]), [v])
        if k == "binop":
            a = self.operand(path, frame, rv["a"])
            b = self.operand(path, frame, rv["b"])
            return self.binop(rv["op"], a, b, rv.get("operand_ty"))
        if k == "unop":
            a = self.operand(path, frame, rv["a"])
            op = rv["op"]
            if op == "Not" and isinstance(a, Const) and a.ty == "bool" and a.bits is not None:
                return Const("bool", 0 if a.bits else 1)
            if op == "PtrMetadata":
                return App("len", [self.deref(path, a)])
            return App("unop:" + op, [a])
        if k == "discriminant":
            v = self.read_place(path, frame, rv["place"])
            v = self.deref(path, v) if isinstance(v, Ref) else v
            if isinstance(v, Variant) and v.variant is not None:
                d = self.discr_of(v.adt, v.variant)
                if d is not None:
                    return Const("discr", d, named="%s::%s" % (v.adt, v.variant))
            return App("discr", [v], info={"adt": rv.get("adt")})
        if k == "aggregate":
            ops = [self.operand(path, frame, o) for o in rv["ops"]]
            agg = rv["agg"]
            if agg == "adt":
                return Variant(rv["adt"], rv["variant"] if self.is_enum(rv["adt"]) else None, dict(zip(rv["fields"], ops)))
            if agg == "tuple":
                return Tup(ops)
            if agg == "array":
                return Tup(ops, "array")
            if agg == "closure":
                return Closure(rv["closure"], dict(zip(rv["fields"], ops)))
            return App("aggregate:" + agg, ops)
        if k == "repeat":
            return App("repeat", [self.operand(path, frame, rv["op"]), Const("usize", text=rv["count"])])
        if k == "threadlocalref":
            return App("threadlocal", [Const("path", s=rv["path"])])
        return Unknown("rvalue " + k)

    def make_ref(self, path, frame, place, mut):
        # normalise: chase leading derefs of known refs; opaque derefs are transparent
        proj = list(place["proj"])
        # find last deref
        last = -1
        for i, e in enumerate(proj):
            if e["k"] == "deref":
                last = i
        if last < 0:
            return Ref(frame.fid, place["local"], proj, mut)
        base = self.read_place(path, frame, {"local": place["local"], "proj": proj[:last]})
        rest = proj[last + 1:]
        if isinstance(base, Ref):
            return Ref(base.fid, base.local, list(base.proj) + rest, mut)
        # opaque pointee: reference is transparent
        frame_dummy = frame
        return self._project(path, frame_dummy, base, rest)

    def is_enum(self, adt):
        a = self.fb.adts.get(adt)
        return bool(a) and a["kind"] == "enum"

    def discr_of(self, adt, variant):
        a = self.fb.adts.get(adt)
        if not a:
            return None
        for v in a["variants"]:
            if v["name"] == variant and v["discr"] is not None:
                return int(v["discr"])
        return None

    def binop(self, op, a, b, ty):
        if isinstance(a, Const) and isinstance(b, Const) and a.bits is not None and b.bits is not None \
                and a.s is None and b.s is None and not (ty or "").startswith("f"):
            x, y = _signed(a.bits, a.ty), _signed(b.bits, b.ty)
            cmp = {"Eq": x == y, "Ne": x != y, "Lt": x < y, "Le": x <= y, "Gt": x > y, "Ge": x >= y}
            if op in cmp:
                return Const("bool", 1 if cmp[op] else 0)
            ar = {"Add": x + y, "Sub": x - y, "Mul": x * y, "BitAnd": x & y, "BitOr": x | y, "BitXor": x ^ y}
            base = op.replace("WithOverflow", "").replace("Unchecked", "")
            if base in ar:
                r = Const(a.ty, _wrap(ar[base], a.ty, a.ty))
                if op.endswith("WithOverflow"):
                    return Tup([r, Const("bool", 0)])
                return r
        r = App("binop:" + op, [a, b])
        if op.endswith("WithOverflow"):
            return Tup([App("binop:" + op.replace("WithOverflow", ""), [a, b]), App("overflow:" + op, [a, b])])
        return r

    # -- execution -----------------------------------------------------------------
    def _run_path(self, path):
        """Advance `path` until it ends or forks. Returns list of forked paths."""
        pol = self.policy
        while True:
            self.steps += 1
            if self.steps > pol.max_steps:
                path.status, path.note = "unrecognised", "step limit"
                return []
            frame = path.frames[-1]
            body = frame.body
            bi = frame.bb
            cnt = frame.visits.get(bi, 0) + 1
            frame.visits[bi] = cnt
            is_head = pol.loop_mode == "widen" and bi in self._loop_info(body)
            arrive_state = None
            if is_head:
                # loop-carried state on arrival (values of every local the loop may assign)
                arrive_state = {L: self.snap_deep(path, frame.locals[L]) for L in self._loop_info(body)[bi][1] if L in frame.locals}
                if cnt == 1:
                    path.loop_heap[(frame.fid, bi)] = dict(path.heap)
            if cnt > pol.max_visits:
                li = self._loop_info(body)
                if pol.loop_mode == "widen" and bi in li:
                    wk = (frame.fid, bi)
                    if wk in path.widened:
                        path.events.append(("loophead", bi, body["path"], frame.fid, arrive_state, None, self._enclosing(body, bi)))
                        path.status, path.note = "loop-pruned", "bb%d of %s" % (bi, body["path"])
                        return []
                    path.widened.add(wk)
                    blocks, assigned = li[bi]
                    for L in assigned:
                        frame.locals[L] = Unknown("loop:%s%s:bb%d:_%d" % (body["path"].split("::")[-1], frame.ctx, bi, L))
                    # memory behind opaque references that the first trip changed may change on every trip
                    h0 = path.loop_heap.get(wk, {})
                    for hk, hv in list(path.heap.items()):
                        if hk not in h0 or h0[hk].key() != hv.key():
                            path.heap[hk] = Unknown("loop-heap:%s" % body["path"].split("::")[-1])
                    for b2 in blocks:
                        frame.visits[b2] = 0
                    frame.visits[bi] = 1
                    path.events.append(("widen", bi, body["path"]))
                else:
                    path.status, path.note = "unrecognised", "loop: bb%d of %s revisited" % (bi, body["path"])
                    return []
            if is_head:
                start_state = {L: frame.locals[L] for L in (arrive_state or {}) if L in frame.locals}
                path.events.append(("loophead", bi, body["path"], frame.fid, arrive_state, start_state, self._enclosing(body, bi)))
            blk = body["blocks"][bi]
            for st in blk["stmts"]:
                if st["k"] == "assign":
                    v = self.rvalue(path, frame, st["rv"])
                    if st["rv"]["k"] == "aggregate" and st["rv"]["agg"] == "adt":
                        path.events.append(("aggregate", v, st["span"], body["path"]))
                    elif st["rv"]["k"] == "aggregate" and st["rv"]["agg"] == "closure":
                        path.events.append(("closure", self.snap_deep(path, v), st["span"], body["path"]))
                    self.write_place(path, frame, st["place"], v)
                elif st["k"] == "setdiscr":
                    pass
            t = blk["term"]
            k = t["k"]
            if k == "goto":
                frame.bb = t["target"]
            elif k == "return":
                rv = frame.locals.get(0, Tup([]))
                if len(path.frames) == 1:
                    rv = self.snap_deep(path, rv)
                path.frames.pop()
                if not path.frames:
                    path.status, path.result = "return", rv
                    return []
                caller = path.frames[-1]
                if frame.post is not None:
                    rv = frame.post(self.snap_deep(path, rv))
                self.write_place(path, caller, frame.ret_dest, rv)
                caller.bb = frame.ret_target
                if frame.ret_target is None:
                    path.status, path.note = "diverge", "callee returned into diverging call"
                    return []
            elif k == "unreachable":
                path.status = "unreachable"
                return []
            elif k == "drop":
                frame.bb = t["target"]
            elif k == "assert":
                cond = self.operand(path, frame, t["cond"])
                path.events.append(("assert", t["kind"], cond, t["span"], body["path"], t["expected"]))
                frame.bb = t["target"]
            elif k == "switch":
                forks = self._switch(path, frame, t)
                if forks is not None:
                    return forks
            elif k == "call":
                forks = self._call(path, frame, t)
                if forks is not None:
                    return forks
            else:
                path.status, path.note = "unrecognised", "terminator " + k
                return []

    def _switch(self, path, frame, t):
        d = self.operand(path, frame, t["discr"])
        targets = [(int(v), b) for v, b in t["targets"]]
        if isinstance(d, Const) and d.bits is not None:
            for v, b in targets:
                if v == d.bits:
                    frame.bb = b
                    return None
            frame.bb = t["otherwise"]
            return None
        # opaque: build labelled alternatives
        labels = []
        adt = d.info.get("adt") if isinstance(d, App) and d.fn == "discr" and d.info else None
        covered = set()
        for v, b in targets:
            lab = v
            if adt:
                nm = self.fb.adt_variant_by_discr(adt, v)
                if nm is not None:
                    lab = nm
                    covered.add(nm)
            labels.append((lab, b))
        need_other = True
        if adt and self.fb.adts.get(adt):
            allv = set(self.fb.variants(adt))
            if allv and allv <= covered:
                need_other = False
        if t.get("discr_ty") == "bool" and len(targets) == 1:
            # [0: bbF, otherwise: bbT]
            labels = [(False if targets[0][0] == 0 else True, targets[0][1]), (True if targets[0][0] == 0 else False, t["otherwise"])]
            need_other = False
        if need_other:
            labels.append(("otherwise", t["otherwise"]))
        ck = d.key()
        explicit = frozenset(l for l, _ in labels if l != "otherwise")

        def note(pth, l):
            # "otherwise" only says which values the discriminant does NOT have: a later switch with other explicit targets
            # (`match x { A => .., _ => .. }` followed by `if let B = x`) still has to be explored for each of them
            if l == "otherwise":
                prev = pth.assumed.get(ck)
                excl = (prev[1] if isinstance(prev, tuple) and prev and prev[0] == "not" else frozenset()) | explicit
                pth.assumed[ck] = ("not", excl)
            else:
                pth.assumed[ck] = l
        if ck in path.assumed:
            lab = path.assumed[ck]
            if isinstance(lab, tuple) and lab and lab[0] == "not":
                labels = [(l, b) for l, b in labels if l not in lab[1]]
                if not labels:
                    path.status, path.note = "unreachable", "no value of the discriminant left"
                    return []
                if len(labels) == 1:
                    note(path, labels[0][0])
                    if labels[0][0] != "otherwise":
                        path.decisions.append(("switch", d, labels[0][0], t["span"]))
                    frame.bb = labels[0][1]
                    return None
                # several values are still possible: fall through to the fork below
            else:
                for l, b in labels:
                    if l == lab:
                        frame.bb = b
                        return None
                # previously assumed a label not among these targets -> otherwise
                frame.bb = t["otherwise"]
                return None
        chosen = self.policy.on_opaque_switch(d, [l for l, _ in labels], self, path)
        alts = [(l, b) for l, b in labels if l in chosen]
        if not alts:
            path.status, path.note = "unrecognised", "no branch chosen"
            return []
        forks = []
        for l, b in alts[1:]:
            q = path.copy()
            note(q, l)
            q.decisions.append(("switch", d, l, t["span"]))
            q.frames[-1].bb = b
            self._refine(q, d, l)
            forks.append(q)
        l, b = alts[0]
        note(path, l)
        path.decisions.append(("switch", d, l, t["span"]))
        frame.bb = b
        self._refine(path, d, l)
        return forks if forks else None

    def _refine(self, path, d, label):
        pass

    def _enclosing(self, body, header):
        """headers of the loops that contain the loop of `header`"""
        li = self._loop_info(body)
        return tuple(sorted(h for h, (blocks, _) in li.items() if h != header and header in blocks))

    def _loop_info(self, body):
        """header -> (blocks of the natural loop, locals assigned anywhere inside it)."""
        cache = self.fb.__dict__.setdefault("_loop_info", {})
        key = body["path"]
        if key in cache:
            return cache[key]
        info = {}
        dom_ = mir.dominators(body)
        for (s, h) in mir.back_edges(body):
            blocks = info.get(h, (set(), set()))[0]
            # natural loop of back edge s->h: h plus everything that reaches s without passing h
            loop = {h, s}
            work = [s]
            pm = mir.preds_map(body)
            while work:
                x = work.pop()
                if x == h:
                    continue
                for pr in pm.get(x, []):
                    if pr not in loop and h in dom_.get(pr, ()):
                        loop.add(pr)
                        work.append(pr)
            blocks = blocks | loop
            info[h] = (blocks, set())
        for h, (blocks, _) in list(info.items()):
            assigned = set()
            for b in blocks:
                blk = body["blocks"][b]
                for st in blk["stmts"]:
                    if st["k"] == "assign":
                        assigned.add(st["place"]["local"])
                        rv = st["rv"]
                        if rv["k"] in ("ref", "rawptr") and "Mut" in rv.get("borrow", rv.get("kind", "")):
                            assigned.add(rv["place"]["local"])   # mutated through the reference inside the loop
                tt = blk["term"]
                if tt["k"] == "call":
                    assigned.add(tt["dest"]["local"])
            info[h] = (blocks, assigned)
        cache[key] = info
        return info

    def callee_body(self, fn):
        if fn.get("trait"):
            b = self.fb.impl_method(fn)
            if b is not None:
                return b
        if not fn.get("local"):
            return None
        return self.fb.bodies.get(fn["path"])

    def _call(self, path, frame, t):
        pol = self.policy
        f = t["func"]
        args = [self.operand(path, frame, a) for a in t["args"]]
        if f["k"] == "ptr":
            fv = self.operand(path, frame, f["op"])
            fv = self.deref(path, fv) if isinstance(fv, Ref) else fv
            if isinstance(fv, (Closure, FnItem)):
                return self._invoke(path, frame, t, fv, args, untuple=False)
            res = App("callptr", [fv] + [self._snap(path, a) for a in args])
            path.events.append(("callptr", fv, args, t["span"], frame.body["path"]))
            return self._finish_call(path, frame, t, res)
        fn = f
        name = fn["path"]
        if pol.record_calls:
            path.events.append(("call", name, [self._snap(path, a) for a in args], t["span"], frame.body["path"], fn))
        # user models first
        m = pol.model(fn, args, self, path, t)
        if m is not None:
            if isinstance(m, list):  # forks: list of (label, value)
                return self._fork_values(path, frame, t, ("model", name), m)
            return self._finish_call(path, frame, t, m)
        tr = fn.get("trait")
        # closure / fn item calls
        if tr in ("std::ops::Fn", "std::ops::FnMut", "std::ops::FnOnce") and args:
            recv = self.deref(path, args[0]) if isinstance(args[0], Ref) else args[0]
            if isinstance(recv, (Closure, FnItem)):
                tup = args[1] if len(args) > 1 else Tup([])
                targs = tup.elems if isinstance(tup, Tup) else [tup]
                return self._invoke(path, frame, t, recv, list(targs), untuple=True, self_arg=args[0])
        if tr == "std::ops::Try" and fn["name"] == "branch":
            return self._try_branch(path, frame, t, args[0])
        if tr == "std::ops::FromResidual" and fn["name"] == "from_residual":
            r = args[0]
            if isinstance(r, Variant) and r.variant in ("Err", "None"):
                return self._finish_call(path, frame, t, r)
            out_ty = t["dest"]["ty"]
            if out_ty.startswith("std::option::Option"):
                return self._finish_call(path, frame, t, Variant("std::option::Option", "None", {}))
            return self._finish_call(path, frame, t, Variant("std::result::Result", "Err", {"0": App("residual", [r])}))
        if pol.clone_identity and tr == "std::clone::Clone" and fn["name"] == "clone":
            return self._finish_call(path, frame, t, self._snap(path, args[0]))
        if name in ("std::hint::must_use", "std::boxed::Box::<T>::new"):
            return self._finish_call(path, frame, t, args[0])
        if pol.deref_identity and args and (
                (tr in ("std::ops::Deref", "std::ops::DerefMut") and fn["name"] in ("deref", "deref_mut"))
                or (tr in ("std::convert::AsRef", "std::convert::AsMut", "std::borrow::Borrow", "std::borrow::BorrowMut"))
                or fn["name"] in ("as_slice", "as_mut_slice", "as_str", "as_mut_str", "as_ref", "as_mut") and len(args) == 1):
            # smart-pointer / view conversions: the result denotes the same object
            return self._finish_call(path, frame, t, args[0])
        if pol.std_models and len(args) == 2 and name in ("std::cmp::PartialEq::eq", "std::cmp::PartialEq::ne"):
            e = _eq_simplify(self._snap(path, args[0]), self._snap(path, args[1]))
            if e is not None:
                if name.endswith("::ne"):
                    e = Const("bool", 0 if e.bits else 1) if isinstance(e, Const) and e.bits is not None else App("unop:Not", [e])
                return self._finish_call(path, frame, t, e)
        if pol.std_models and args:
            sm = self._std_model(name, [self._snap(path, a) for a in args])
            if sm is not None:
                return self._finish_call(path, frame, t, sm)
            cm = self._combinator(path, frame, t, name, args)
            if cm is not NotImplemented:
                return cm
        body = self.callee_body(fn)
        if body is not None and len(path.frames) < pol.max_depth and pol.inline(fn, args, self, path):
            if t["target"] is None:
                path.status, path.note = "diverge", name
                return []
            self._push(path, body, args, t["dest"], t["target"])
            return None
        # opaque
        sargs = []
        for a in args:
            sargs.append(self._snap(path, a))
        res = App(name, sargs, info=fn)
        # anything reachable through a mutable reference handed to opaque code may change
        for a in _mut_refs(args):
            fr = self.frame_by_id(path, a.fid)
            if fr is not None:
                old = self._project(path, fr, fr.locals.get(a.local, Unknown("uninit")), a.proj)
                newv = App("mut:" + name, [old] + [x for x in sargs if x.key() != old.key()])
                tgt = fr.locals.get(a.local, Unknown("uninit"))
                fr.locals[a.local] = self._write_into(path, fr, tgt, list(a.proj), newv)
        return self._finish_call(path, frame, t, res)

    def _std_model(self, name, a):
        """Facts about std's Option/Result combinators when the receiver's variant is known."""
        r = a[0]
        if not isinstance(r, Variant) or r.variant not in ("Some", "None", "Ok", "Err"):
            return None
        OPT, RES = "std::option::Option", "std::result::Result"
        x = r.fields.get("0", Tup([]))
        if name.startswith("std::option::Option::<T>::"):
            m = name.rsplit("::", 1)[-1]
            some = r.variant == "Some"
            if m in ("ok_or_else", "ok_or"):
                return Variant(RES, "Ok", {"0": x}) if some else Variant(RES, "Err", {"0": App("err_from:" + m, a[1:])})
            if m in ("unwrap", "expect") and some:
                return x
            if m == "is_some":
                return Const("bool", 1 if some else 0)
            if m == "is_none":
                return Const("bool", 0 if some else 1)
            if m in ("unwrap_or", "unwrap_or_default", "unwrap_or_else") and some:
                return x
        if name.startswith("std::result::Result::<T, E>::"):
            m = name.rsplit("::", 1)[-1]
            ok = r.variant == "Ok"
            if m in ("unwrap", "expect") and ok:
                return x
            if m == "is_ok":
                return Const("bool", 1 if ok else 0)
            if m == "is_err":
                return Const("bool", 0 if ok else 1)
            if m == "ok":
                return Variant(OPT, "Some", {"0": x}) if ok else Variant(OPT, "None", {})
        return None

    # -- std Option / Result combinators with closures ---------------------------------------------
    _COMB = {
        # name: (receiver kind, {variant: action}); actions: ("call", arg index of the closure, uses payload?, wrap) /
        #       ("payload", wrap) / ("arg", index, wrap) / ("same",)
        "std::option::Option::<T>::map": ("opt", {"Some": ("call", 1, True, "Some"), "None": ("const", "None")}),
        "std::option::Option::<T>::and_then": ("opt", {"Some": ("call", 1, True, None), "None": ("const", "None")}),
        "std::option::Option::<T>::map_or": ("opt", {"Some": ("call", 2, True, None), "None": ("arg", 1, None)}),
        "std::option::Option::<T>::map_or_else": ("opt", {"Some": ("call", 2, True, None), "None": ("call", 1, False, None)}),
        "std::option::Option::<T>::unwrap_or_else": ("opt", {"Some": ("payload", None), "None": ("call", 1, False, None)}),
        "std::option::Option::<T>::unwrap_or": ("opt", {"Some": ("payload", None), "None": ("arg", 1, None)}),
        "std::option::Option::<T>::ok_or_else": ("opt", {"Some": ("payload", "Ok"), "None": ("call", 1, False, "Err")}),
        "std::option::Option::<T>::ok_or": ("opt", {"Some": ("payload", "Ok"), "None": ("arg", 1, "Err")}),
        "std::result::Result::<T, E>::map": ("res", {"Ok": ("call", 1, True, "Ok"), "Err": ("same",)}),
        "std::result::Result::<T, E>::map_err": ("res", {"Ok": ("same",), "Err": ("call", 1, True, "Err")}),
        "std::result::Result::<T, E>::and_then": ("res", {"Ok": ("call", 1, True, None), "Err": ("same",)}),
        "std::result::Result::<T, E>::unwrap_or_else": ("res", {"Ok": ("payload", None), "Err": ("call", 1, True, None)}),
        "std::result::Result::<T, E>::unwrap_or": ("res", {"Ok": ("payload", None), "Err": ("arg", 1, None)}),
        "std::result::Result::<T, E>::ok": ("res", {"Ok": ("payload", "Some"), "Err": ("const", "None")}),
        "std::result::Result::<T, E>::map_or_else": ("res", {"Ok": ("call", 2, True, None), "Err": ("call", 1, True, None)}),
        "std::result::Result::<T, E>::map_or": ("res", {"Ok": ("call", 2, True, None), "Err": ("arg", 1, None)}),
        "std::result::Result::<T, E>::or_else": ("res", {"Ok": ("same",), "Err": ("call", 1, True, None)}),
        "std::result::Result::<T, E>::err": ("res", {"Ok": ("const", "None"), "Err": ("payload", "Some")}),
        "std::option::Option::<T>::or_else": ("opt", {"Some": ("same",), "None": ("call", 1, False, None)}),
        "std::option::Option::<T>::or": ("opt", {"Some": ("same",), "None": ("arg", 1, None)}),
        "std::option::Option::<T>::filter": ("opt", {"Some": ("filter", 1), "None": ("const", "None")}),
        "std::option::Option::<T>::is_none_or": ("opt", {"Some": ("call", 1, True, None), "None": ("bool", 1)}),
        "std::option::Option::<T>::is_some_and": ("opt", {"Some": ("call", 1, True, None), "None": ("bool", 0)}),
        "std::result::Result::<T, E>::is_ok_and": ("res", {"Ok": ("call", 1, True, None), "Err": ("bool", 0)}),
        "std::result::Result::<T, E>::is_err_and": ("res", {"Ok": ("bool", 0), "Err": ("call", 1, True, None)}),
        "std::option::Option::<T>::is_some": ("opt", {"Some": ("bool", 1), "None": ("bool", 0)}),
        "std::option::Option::<T>::is_none": ("opt", {"Some": ("bool", 0), "None": ("bool", 1)}),
        "std::result::Result::<T, E>::is_ok": ("res", {"Ok": ("bool", 1), "Err": ("bool", 0)}),
        "std::result::Result::<T, E>::is_err": ("res", {"Ok": ("bool", 0), "Err": ("bool", 1)}),
    }

    def _wrap(self, v, w):
        OPT, RES = "std::option::Option", "std::result::Result"
        if w is None:
            return v
        if isinstance(w, tuple) and w[0] == "filter":
            # Some(p).filter(c): Some(p) if c else None; undecided conditions stay symbolic as opt_if(c, p)
            if isinstance(v, Const) and v.ty == "bool" and v.bits is not None:
                return Variant(OPT, "Some", {"0": w[1]}) if v.bits else Variant(OPT, "None", {})
            return App("opt_if", [v, w[1]])
        if w in ("Some",):
            return Variant(OPT, "Some", {"0": v})
        if w in ("Ok", "Err"):
            return Variant(RES, w, {"0": v})
        return v

    def _combinator(self, path, frame, t, name, args):
        spec = self._COMB.get(name)
        if spec is None or t["target"] is None:
            return NotImplemented
        kind, acts = spec
        recv = self._snap(path, args[0])
        variants = ("Some", "None") if kind == "opt" else ("Ok", "Err")
        adt = "std::option::Option" if kind == "opt" else "std::result::Result"
        if isinstance(recv, Variant) and recv.variant in variants:
            alts = [(recv.variant, recv, path)]
        else:
            # opaque receiver: decide its variant (consistently with any other test of the same value)
            ck = App("discr", [recv], info={"adt": adt}).key()
            if ck in path.assumed and path.assumed[ck] in variants:
                lab = path.assumed[ck]
                alts = [(lab, None, path)]
            else:
                q = path.copy()
                path.assumed[ck] = variants[0]
                path.decisions.append(("switch", App("discr", [recv], info={"adt": adt}), variants[0], t["span"]))
                q.assumed[ck] = variants[1]
                q.decisions.append(("switch", App("discr", [recv], info={"adt": adt}), variants[1], t["span"]))
                alts = [(variants[0], None, path), (variants[1], None, q)]
        forks = []
        for i, (lab, known, pth) in enumerate(alts):
            fr = pth.frames[-1]
            if known is not None:
                payload = known.fields.get("0", Tup([]))
                whole = known
            else:
                payload = App("as:" + lab, [recv])
                payload = App(".0", [payload]) if lab in ("Some", "Ok", "Err") else Tup([])
                whole = Variant(adt, lab, {"0": payload} if lab != "None" else {})
            act = acts[lab]
            a_args = [self.operand(pth, fr, a) for a in t["args"]] if pth is not path else args
            if act[0] == "same":
                self._finish_call(pth, fr, t, whole)
            elif act[0] == "const":
                self._finish_call(pth, fr, t, Variant("std::option::Option", "None", {}))
            elif act[0] == "bool":
                self._finish_call(pth, fr, t, Const("bool", act[1]))
            elif act[0] == "payload":
                self._finish_call(pth, fr, t, self._wrap(payload, act[1]))
            elif act[0] == "arg":
                self._finish_call(pth, fr, t, self._wrap(self._snap(pth, a_args[act[1]]), act[2]))
            elif act[0] in ("call", "filter"):
                f = self._snap(pth, a_args[act[1]])
                if act[0] == "filter":
                    cargs, wrap = [payload], ("filter", payload)
                else:
                    cargs = [payload] if act[2] else []
                    wrap = act[3]
                if isinstance(f, Closure) and f.path in self.fb.bodies and len(pth.frames) < self.policy.max_depth + 3:
                    self._push(pth, self.fb.bodies[f.path], [f] + cargs, t["dest"], t["target"],
                               post=(lambda v, w=wrap: self._wrap(v, w)))
                elif isinstance(f, FnItem) and self.callee_body(f.fn) is not None and len(pth.frames) < self.policy.max_depth + 3 \
                        and self.policy.inline(f.fn, cargs, self, pth):
                    self._push(pth, self.callee_body(f.fn), cargs, t["dest"], t["target"],
                               post=(lambda v, w=wrap: self._wrap(v, w)))
                elif isinstance(f, Variant) and not f.fields and f.variant is None:
                    # tuple-struct / variant constructor used as a function, e.g. `.map(Val::Int)`
                    self._finish_call(pth, fr, t, self._wrap(App("ctor", cargs), wrap))
                else:
                    fname = f.fn["path"] if isinstance(f, FnItem) else "call:" + show(f)
                    res = self._ctor_or_app(f, fname, cargs)
                    self._finish_call(pth, fr, t, self._wrap(res, wrap))
            if pth is not path:
                forks.append(pth)
        return forks if forks else None

    def _ctor_or_app(self, f, fname, cargs):
        """`Val::Int` passed as a function: build the variant; otherwise an opaque application."""
        if isinstance(f, FnItem):
            p = f.fn["path"]
            adt, _, var = p.rpartition("::")
            a = self.fb.adts.get(adt)
            if a and any(v["name"] == var for v in a["variants"]):
                return Variant(adt, var if a["kind"] == "enum" else None, {str(i): x for i, x in enumerate(cargs)})
            return App(p, cargs, info=f.fn)
        return App(fname, cargs)

    def _snap(self, path, v):
        """Value snapshot: references are replaced by what they point to (also inside closures'
        captures, tuples and ADT payloads, so that the value stays meaningful outside its frame)."""
        n = 0
        while isinstance(v, Ref) and n < 10:
            v = self.deref(path, v)
            n += 1
        if isinstance(v, (Closure, Tup, Variant)) and _has_ref(v):
            return self.snap_deep(path, v)
        return v

    def snap_deep(self, path, v, depth=0):
        """Snapshot with captured references resolved (so the value outlives its frame)."""
        n = 0
        while isinstance(v, Ref) and n < 10:
            v = self.deref(path, v)
            n += 1
        if depth > 6:
            return v
        if isinstance(v, Closure):
            return Closure(v.path, {k: self.snap_deep(path, x, depth + 1) for k, x in v.caps.items()})
        if isinstance(v, Tup):
            return Tup([self.snap_deep(path, x, depth + 1) for x in v.elems], v.kind)
        if isinstance(v, Variant):
            return Variant(v.adt, v.variant, {k: self.snap_deep(path, x, depth + 1) for k, x in v.fields.items()})
        return v

    def _finish_call(self, path, frame, t, res):
        if t["target"] is None:
            if mir.is_debug_assert(t):
                path.status, path.note = "unreachable", "debug assertion assumed to hold"
                return []
            path.status, path.note = "diverge", mir.callee_path(t) or "fnptr"
            path.result = res
            return []
        self.write_place(path, frame, t["dest"], res)
        frame.bb = t["target"]
        return None

    def _fork_values(self, path, frame, t, ckey_base, alts):
        """alts: list of (label, value). Decision is consistent per call-site value key."""
        ck = ("fork",) + tuple(ckey_base) + (t["span"]["line"], t["span"]["col"])
        forks = []
        for l, v in alts[1:]:
            q = path.copy()
            q.decisions.append(("fork", App(str(ckey_base[-1])), l, t["span"]))
            fr = q.frames[-1]
            self.write_place(q, fr, t["dest"], v)
            fr.bb = t["target"]
            forks.append(q)
        l, v = alts[0]
        path.decisions.append(("fork", App(str(ckey_base[-1])), l, t["span"]))
        self.write_place(path, frame, t["dest"], v)
        frame.bb = t["target"]
        return forks if forks else None

    def _try_branch(self, path, frame, t, x):
        x = self._snap(path, x)
        CF = "std::ops::ControlFlow"
        if isinstance(x, Variant) and x.variant in ("Ok", "Some"):
            return self._finish_call(path, frame, t, Variant(CF, "Continue", {"0": x.fields.get("0", Tup([]))}))
        if isinstance(x, Variant) and x.variant in ("Err", "None"):
            return self._finish_call(path, frame, t, Variant(CF, "Break", {"0": x}))
        if self.policy.try_mode == "ok_only":
            path.events.append(("assume_ok", x, t["span"], frame.body["path"]))
            return self._finish_call(path, frame, t, Variant(CF, "Continue", {"0": x}))
        ck = ("try", x.key())
        ok_v = Variant(CF, "Continue", {"0": App("ok", [x])})
        er_v = Variant(CF, "Break", {"0": Variant("std::result::Result", "Err", {"0": App("err", [x])})})
        if ck in path.assumed:
            return self._finish_call(path, frame, t, ok_v if path.assumed[ck] == "ok" else er_v)
        q = path.copy()
        q.assumed[ck] = "err"
        q.decisions.append(("try", x, "err", t["span"]))
        fr = q.frames[-1]
        self.write_place(q, fr, t["dest"], er_v)
        fr.bb = t["target"]
        path.assumed[ck] = "ok"
        path.decisions.append(("try", x, "ok", t["span"]))
        self.write_place(path, frame, t["dest"], ok_v)
        frame.bb = t["target"]
        return [q]

    def _invoke(self, path, frame, t, fv, args, untuple, self_arg=None):
        """Call a known closure / fn item."""
        pol = self.policy
        if isinstance(fv, FnItem):
            fn = fv.fn
            body = self.callee_body(fn)
            if body is None or len(path.frames) >= pol.max_depth or not pol.inline(fn, args, self, path):
                res = App(fn["path"], [self._snap(path, a) for a in args], info=fn)
                path.events.append(("call", fn["path"], args, t["span"], frame.body["path"], fn))
                return self._finish_call(path, frame, t, res)
            if t["target"] is None:
                path.status, path.note = ("unreachable", "debug assertion assumed to hold") if mir.is_debug_assert(t) else ("diverge", fn["path"])
                return []
            self._push(path, body, args, t["dest"], t["target"])
            return None
        body = self.fb.bodies.get(fv.path)
        if body is None or len(path.frames) >= pol.max_depth + 2 or not pol.inline_closure(fv.path, args, self, path):
            res = App("call:" + fv.path, [self._snap(path, a) for a in args])
            return self._finish_call(path, frame, t, res)
        if t["target"] is None:
            path.status, path.note = "diverge", fv.path
            return []
        env = self_arg if self_arg is not None else fv
        self._push(path, body, [env] + list(args), t["dest"], t["target"])
        return None


def _mut_refs(vals, out=None, depth=0):
    """Mutable references among `vals`, also inside closure captures / tuples / ADT payloads."""
    out = [] if out is None else out
    if depth > 8:
        return out
    for v in vals:
        if isinstance(v, Ref):
            if v.mut:
                out.append(v)
        elif isinstance(v, Closure):
            _mut_refs(v.caps.values(), out, depth + 1)
        elif isinstance(v, Tup):
            _mut_refs(v.elems, out, depth + 1)
        elif isinstance(v, Variant):
            _mut_refs(v.fields.values(), out, depth + 1)
    return out


def _has_ref(v, depth=0):
    if depth > 8:
        return False
    if isinstance(v, Ref):
        return True
    if isinstance(v, Closure):
        return any(_has_ref(x, depth + 1) for x in v.caps.values())
    if isinstance(v, Tup):
        return any(_has_ref(x, depth + 1) for x in v.elems)
    if isinstance(v, Variant):
        return any(_has_ref(x, depth + 1) for x in v.fields.values())
    return False


_WIDTH = {"i8": 8, "u8": 8, "i16": 16, "u16": 16, "i32": 32, "u32": 32, "i64": 64, "u64": 64,
          "i128": 128, "u128": 128, "isize": 64, "usize": 64, "bool": 8, "char": 32, "discr": 128}


def _signed(bits, ty):
    w = _WIDTH.get(ty)
    if w and ty.startswith("i") and bits >= (1 << (w - 1)):
        return bits - (1 << w)
    return bits


def _wrap(val, from_ty, to_ty):
    w = _WIDTH.get(to_ty, 64)
    return val & ((1 << w) - 1)


def const_signed(c):
    return _signed(c.bits, c.ty) if isinstance(c, Const) and c.bits is not None else None
