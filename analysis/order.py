"""ORDER family: stability and direction of slice sorts."""
import re

from . import mir
from .interp import Interp, Policy, Sym, App, Closure, Variant, show

STABLE = {"sort", "sort_by", "sort_by_key", "sort_by_cached_key"}
UNSTABLE = {"sort_unstable", "sort_unstable_by", "sort_unstable_by_key"}


def sort_calls(body):
    """(bb, term, method name) for every slice sort call on normal paths."""
    out = []
    for bi, t in mir.calls(body):
        f = t["func"]
        if f.get("k") != "fndef":
            continue
        if re.match(r"^(std|core|alloc)::slice::<impl \[T\]>::(sort\w*)$", f["path"]):
            out.append((bi, t, f["name"]))
    return out


class _Opaque(Policy):
    """Keep calls of captured closures opaque (the key function is analysed separately)."""
    max_depth = 3

    def inline_closure(self, closure_path, args, interp, path):
        return False


def _strip(term, names):
    """Strip unary wrappers (unwrap, reverse...). Returns (inner, number of reversals)."""
    rev = 0
    while isinstance(term, App) and len(term.args) >= 1:
        n = term.fn
        if n.endswith("Option::<T>::unwrap") or n.endswith("Option::<T>::expect") or n.endswith("unwrap_or"):
            term = term.args[0]
        elif n.endswith("cmp::Ordering::reverse"):
            rev += 1
            term = term.args[0]
        else:
            break
    return term, rev


def comparator(fb, closure_val):
    """Analyse a two-argument comparator closure.

    Returns dict(direction='asc'|'desc', key=<term of the key applied to one side with the
    parameter replaced by '_'>, callee=<compare fn>) or dict(error=...).
    """
    body = fb.bodies.get(closure_val.path)
    if body is None or body["arg_count"] != 3:
        return {"error": "comparator closure body not found / wrong arity"}
    ps = Interp(fb, _Opaque()).run(body, [closure_val, Sym("L"), Sym("R")])
    if len(ps) != 1 or ps[0].status != "return":
        return {"error": "comparator is not straight-line: %s" % [(p.status, p.note) for p in ps][:3]}
    term, rev = _strip(ps[0].result, None)
    if not isinstance(term, App) or len(term.args) != 2:
        return {"error": "comparator result is not a comparison: %s" % show(term)[:160]}
    name = term.fn
    if not (name.endswith("::partial_cmp") or name.endswith("::cmp") or name.endswith("::total_cmp")):
        return {"error": "comparator does not end in cmp/partial_cmp: %s" % name}
    a, b = show(term.args[0]), show(term.args[1])
    ka, kb = a.replace("L", "_").replace("R", "_"), b.replace("L", "_").replace("R", "_")

    def uses(s, sym):
        return re.search(r"\b%s\b" % sym, s) is not None
    if ka != kb:
        return {"error": "the two sides are compared through different keys: %s vs %s" % (a[:80], b[:80])}
    if uses(a, "L") and not uses(a, "R") and uses(b, "R") and not uses(b, "L"):
        direction = "asc"
    elif uses(a, "R") and not uses(a, "L") and uses(b, "L") and not uses(b, "R"):
        direction = "desc"
    else:
        return {"error": "cannot attribute compared keys to the two parameters: %s / %s" % (a[:80], b[:80])}
    if rev % 2 == 1:
        direction = "desc" if direction == "asc" else "asc"
    return {"direction": direction, "key": ka, "callee": name, "key_terms": (term.args[0], term.args[1])}


def closures_created(fb, body, args=None):
    """Closure values (with captured values snapshotted) created on the single path of a straight-line body,
    or on all paths (union by closure path)."""
    n = body["arg_count"]
    args = args or [Sym("p%d" % i) for i in range(1, n + 1)]
    ps = Interp(fb, Policy()).run(body, args)
    out = {}
    for p in ps:
        for e in p.events:
            if e[0] == "closure":
                out.setdefault(e[1].path, e[1])
    return out, ps
