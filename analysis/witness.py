"""E3: type-level witness crates.  Only *type-checked* (cargo check), never run."""
import fcntl
import json
import os
import shutil
import subprocess

from . import facts

WDIR = os.path.join(facts.VERIF, "witness")


def _instantiate(name, repo):
    src = os.path.join(WDIR, name)
    tag = "main" if os.path.realpath(repo) == os.path.realpath("/repo") else "scratch-%08x" % (hash(os.path.realpath(repo)) & 0xFFFFFFFF)
    dst = os.path.join(facts.CACHE, "witness", name + "-" + tag)
    os.makedirs(dst, exist_ok=True)
    if os.path.isdir(os.path.join(dst, "src")):
        shutil.rmtree(os.path.join(dst, "src"))
    shutil.copytree(os.path.join(src, "src"), os.path.join(dst, "src"))
    with open(os.path.join(src, "Cargo.toml.in")) as f:
        toml = f.read().replace("@REPO@", os.path.realpath(repo))
    with open(os.path.join(dst, "Cargo.toml"), "w") as f:
        f.write(toml)
    lock = os.path.join(repo, "Cargo.lock")
    if os.path.exists(lock):
        shutil.copy(lock, os.path.join(dst, "Cargo.lock"))
    return dst


def check(name, features=(), repo=None, toolchain=None):
    """Type-check witness crate `name`. Returns (ok, [ {code, message, file, line} ], raw_tail)."""
    repo = repo or facts.REPO
    os.makedirs(facts.CACHE, exist_ok=True)
    with open(os.path.join(facts.CACHE, "witness.lock"), "w") as lk:
        fcntl.flock(lk, fcntl.LOCK_EX)
        dst = _instantiate(name, repo)
        env = dict(os.environ, CARGO_NET_OFFLINE="true", CARGO_TARGET_DIR=os.path.join(facts.CACHE, "target-witness"))
        env.pop("RUSTC_WORKSPACE_WRAPPER", None)
        env.pop("RUSTFLAGS", None)
        cmd = ["cargo"] + (["+" + toolchain] if toolchain else []) + ["check", "--offline", "--message-format=json"]
        if features:
            cmd += ["--features", ",".join(features)]
        r = subprocess.run(cmd, cwd=dst, env=env, stdout=subprocess.PIPE, stderr=subprocess.PIPE, text=True)
    diags = []
    for line in r.stdout.splitlines():
        try:
            m = json.loads(line)
        except Exception:
            continue
        if m.get("reason") != "compiler-message":
            continue
        msg = m["message"]
        if msg.get("level") != "error":
            continue
        tgt = m.get("target", {}).get("name", "")
        sp = (msg.get("spans") or [{}])[0]
        diags.append({"code": (msg.get("code") or {}).get("code"), "message": msg.get("message"),
                      "file": sp.get("file_name"), "line": sp.get("line_start"), "crate": tgt,
                      "text": (sp.get("text") or [{}])[0].get("text", "").strip() if sp.get("text") else ""})
    return r.returncode == 0, diags, r.stderr[-1500:]
