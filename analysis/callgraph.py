"""Crate-local call graph over resolved callees.

Edges: direct calls to local fns; trait-method calls resolved to the local impl by
(trait path, Self ADT) — to *every* local impl when Self is a type parameter;
closures created in a body; fn items whose address is taken in a body (operator
tables: the constructor `make` therefore reaches every operator function).
External callees are kept per body as the crate boundary.
"""
from . import mir


class CallGraph:
    def __init__(self, fb):
        self.fb = fb
        self.edges = {}      # path -> set(paths) local
        self.ext = {}        # path -> list of (callee fn dict, span)
        self.sites = {}      # path -> list of (bb, term) for all calls
        self._impl_index = {}
        for p, b in fb.bodies.items():
            tp = b.get("impl_trait_path")
            if tp:
                sk = (b.get("impl_self_kind") or {})
                self._impl_index.setdefault((tp, b.get("name")), []).append((sk.get("path"), sk.get("k"), p))
        for p, b in fb.bodies.items():
            self._scan(p, b)

    def _bounds_of(self, caller, pname):
        """Trait paths bounding type parameter `pname` in the caller (closures: in their root fn)."""
        b = caller
        if b is not None and b["kind"] == "Closure":
            b = self.fb.bodies.get(b["root"], b)
        out = []
        for pr in (b or {}).get("predicates", []):
            if pr.startswith(pname + ": "):
                tr = pr[len(pname) + 2:].split("<")[0].strip()
                if tr and not tr.startswith("'"):
                    out.append(tr)
        return out

    def _adt_implements(self, adt_path, trait_path):
        for (tp, _name), cands in self._impl_index.items():
            if tp == trait_path and any(ap == adt_path for (ap, k, p) in cands):
                return True
        return trait_path in self._marker_ok

    _marker_ok = {"std::marker::Sized", "std::marker::Send", "std::marker::Sync", "std::marker::Copy", "std::marker::Unpin"}

    def resolve_trait_call(self, fn, caller=None):
        """Local bodies a trait-method call may dispatch to."""
        tr = fn.get("trait")
        if not tr:
            return []
        cands = self._impl_index.get((tr, fn["name"]), [])
        sk = fn.get("self_kind") or {}
        while sk.get("k") == "ref":
            sk = sk.get("inner") or {}
        out = []
        if sk.get("k") in ("adt",):
            out = [p for (ap, k, p) in cands if ap == sk.get("path")]
        elif sk.get("k") == "param":
            # Self is a type parameter: any local type satisfying the parameter's bounds may be meant.
            # A local ADT can implement an external trait only through a local impl (orphan rule), so
            # "has a local impl of every bound that is not derivable" is exact for external bounds.
            bounds = [b for b in self._bounds_of(caller, sk.get("name", "")) if b != tr]
            for (ap, k, p) in cands:
                if k == "adt":
                    hard = [b for b in bounds if b.startswith("num::") or b.startswith("num_traits::")]
                    if all(self._adt_implements(ap, b) for b in hard):
                        out.append(p)
                else:
                    out.append(p)
        elif sk.get("k") in ("alias", None):
            out = [p for (_, _, p) in cands]
        else:
            # primitive / tuple / closure Self: only blanket impls could match
            out = [p for (ap, k, p) in cands if k == "param"]
        # blanket impls (impl<T: ..> Trait for T)
        out += [p for (ap, k, p) in cands if k == "param" and p not in out]
        # default method body of a local trait
        if fn.get("local") and fn["path"] in self.fb.bodies and fn["path"] not in out:
            out.append(fn["path"])
        return out

    def _scan(self, p, b):
        es = self.edges.setdefault(p, set())
        ext = self.ext.setdefault(p, [])
        sites = self.sites.setdefault(p, [])
        nb = mir.normal_blocks(b)

        def note_fn(fn, span, is_call):
            sk = fn.get("self_kind") or {}
            while sk.get("k") == "ref":
                sk = sk.get("inner") or {}
            if fn.get("trait") in ("std::ops::Fn", "std::ops::FnMut", "std::ops::FnOnce") and sk.get("k") == "closure":
                if sk.get("path") in self.fb.bodies:
                    es.add(sk["path"])
                return
            if fn.get("trait"):
                tgts = self.resolve_trait_call(fn, b)
                for t in tgts:
                    es.add(t)
                if not fn.get("local") or not tgts:
                    ext.append((fn, span, is_call))
            elif fn.get("local"):
                if fn["path"] in self.fb.bodies:
                    es.add(fn["path"])
            else:
                ext.append((fn, span, is_call))

        def scan_op(o, span):
            if o.get("k") == "const":
                if "fn" in o:
                    note_fn(o["fn"], span, False)
                if "closure" in o and o["closure"] in self.fb.bodies:
                    es.add(o["closure"])

        for bi in sorted(nb):
            blk = b["blocks"][bi]
            for st in blk["stmts"]:
                if st["k"] != "assign":
                    continue
                rv = st["rv"]
                if rv["k"] == "aggregate":
                    if rv["agg"] == "closure" and rv["closure"] in self.fb.bodies:
                        es.add(rv["closure"])
                    for o in rv["ops"]:
                        scan_op(o, st["span"])
                elif rv["k"] in ("use", "cast", "repeat"):
                    scan_op(rv["op"], st["span"])
            t = blk["term"]
            if t["k"] == "call":
                sites.append((bi, t))
                f = t["func"]
                if f["k"] == "fndef":
                    note_fn(f, t["span"], True)
                for a in t["args"]:
                    scan_op(a, t["span"])

    def reachable(self, roots):
        seen = set()
        work = [r for r in roots if r in self.edges]
        seen.update(work)
        while work:
            p = work.pop()
            for q in self.edges.get(p, ()):
                if q not in seen:
                    seen.add(q)
                    work.append(q)
        return seen

    def callers_of(self, target):
        return sorted(p for p, es in self.edges.items() if target in es)

    def sccs(self):
        """Tarjan; returns list of SCCs with more than one node or a self loop."""
        index = {}
        low = {}
        stack, on = [], set()
        out = []
        counter = [0]

        def strong(v):
            work = [(v, iter(sorted(self.edges.get(v, ()))))]
            index[v] = low[v] = counter[0]
            counter[0] += 1
            stack.append(v)
            on.add(v)
            while work:
                node, it = work[-1]
                adv = False
                for w in it:
                    if w not in index:
                        index[w] = low[w] = counter[0]
                        counter[0] += 1
                        stack.append(w)
                        on.add(w)
                        work.append((w, iter(sorted(self.edges.get(w, ())))))
                        adv = True
                        break
                    elif w in on:
                        low[node] = min(low[node], index[w])
                if adv:
                    continue
                work.pop()
                if work:
                    low[work[-1][0]] = min(low[work[-1][0]], low[node])
                if low[node] == index[node]:
                    comp = []
                    while True:
                        w = stack.pop()
                        on.discard(w)
                        comp.append(w)
                        if w == node:
                            break
                    if len(comp) > 1 or node in self.edges.get(node, ()):
                        out.append(sorted(comp))

        for v in sorted(self.edges):
            if v not in index:
                strong(v)
        return out
