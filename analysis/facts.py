"""Fact extraction (E1 front) and the in-memory fact base.

Runs the rustc_private driver over /repo's *current working tree* and loads the
JSON it writes.  Results are cached by the content hash of everything the
compiler reads (sources, manifests, driver binary, flags), so a hit is equivalent
to a rebuild; VERIF_NO_CACHE=1 disables the cache.
"""
import fcntl
import hashlib
import json
import os
import shutil
import subprocess
import sys
import time
import uuid

VERIF = os.path.dirname(os.path.dirname(os.path.abspath(__file__)))
REPO = os.environ.get("VERIF_REPO", "/repo")
CACHE = os.environ.get("VERIF_CACHE_DIR") or os.path.join(VERIF, ".cache")   # (override: parallel evaluation tools only)
DRIVER_DIR = os.path.join(VERIF, "driver")
DRIVER_BIN = os.path.join(DRIVER_DIR, "target", "debug", "exmex-facts")
ALL_FEATURES = "partial,value,serde"
RUSTFLAGS = "-Zmir-opt-level=0 -Awarnings -Coverflow-checks=on -Zalways-encode-mir"


class ExtractionError(Exception):
    pass


def _run(cmd, **kw):
    return subprocess.run(cmd, stdout=subprocess.PIPE, stderr=subprocess.STDOUT, text=True, **kw)


def nightly_sysroot():
    r = _run(["rustc", "+nightly", "--print", "sysroot"])
    if r.returncode != 0:
        raise ExtractionError("no nightly toolchain: " + r.stdout)
    return r.stdout.strip()


def rustc_version():
    return _run(["rustc", "+nightly", "-V"]).stdout.strip()


def ensure_driver():
    """Build the driver if its binary is missing or older than its sources."""
    srcs = [os.path.join(DRIVER_DIR, "src", f) for f in os.listdir(os.path.join(DRIVER_DIR, "src"))]
    srcs.append(os.path.join(DRIVER_DIR, "Cargo.toml"))
    newest = max(os.path.getmtime(s) for s in srcs)
    if os.path.exists(DRIVER_BIN) and os.path.getmtime(DRIVER_BIN) >= newest:
        return
    os.makedirs(CACHE, exist_ok=True)
    with open(os.path.join(CACHE, "driver.lock"), "w") as lk:
        fcntl.flock(lk, fcntl.LOCK_EX)
        if os.path.exists(DRIVER_BIN) and os.path.getmtime(DRIVER_BIN) >= newest:
            return
        env = dict(os.environ, CARGO_NET_OFFLINE="true")
        r = _run(["cargo", "+nightly", "build", "--offline"], cwd=DRIVER_DIR, env=env)
        if r.returncode != 0 or not os.path.exists(DRIVER_BIN):
            raise ExtractionError("driver build failed:\n" + r.stdout[-4000:])
        os.utime(DRIVER_BIN, None)


def _file_sha(path):
    h = hashlib.sha256()
    with open(path, "rb") as f:
        h.update(f.read())
    return h.hexdigest()


def source_files(repo):
    """Every file the library build can read: src/**, Cargo.toml, Cargo.lock."""
    out = []
    for base, dirs, files in os.walk(os.path.join(repo, "src")):
        for f in sorted(files):
            out.append(os.path.join(base, f))
    for f in ("Cargo.toml", "Cargo.lock"):
        p = os.path.join(repo, f)
        if os.path.exists(p):
            out.append(p)
    return sorted(out)


def tree_hash(repo, features, extra=""):
    h = hashlib.sha256()
    for p in source_files(repo):
        h.update(os.path.relpath(p, repo).encode())
        h.update(b"\0")
        h.update(_file_sha(p).encode())
    h.update(_file_sha(DRIVER_BIN).encode())
    h.update(features.encode())
    h.update(RUSTFLAGS.encode())
    h.update(extra.encode())
    return h.hexdigest()[:24]


def extract(features=ALL_FEATURES, repo=None, use_cache=True, target_tag=None):
    """Return (facts dict, meta dict)."""
    repo = repo or REPO
    ensure_driver()
    t0 = time.time()
    ver = rustc_version()
    key = tree_hash(repo, features, ver)
    cfgname = features.replace(",", "+") or "none"
    cdir = os.path.join(CACHE, "facts")
    os.makedirs(cdir, exist_ok=True)
    cpath = os.path.join(cdir, "%s-%s.json" % (cfgname, key))
    no_cache = os.environ.get("VERIF_NO_CACHE") == "1" or not use_cache
    if not no_cache and os.path.exists(cpath):
        try:
            with open(cpath) as f:
                facts = json.load(f)
            return facts, {"cache": "hit", "key": key, "features": features, "extract_s": round(time.time() - t0, 2), "rustc": ver}
        except Exception:
            pass
    # dependency artefacts are kept per feature config; the crate's own fingerprints
    # are deleted so cargo cannot replay a stale run without invoking the driver.
    tdir = os.path.join(CACHE, "target-" + (target_tag or cfgname))
    os.makedirs(tdir, exist_ok=True)
    nonce = uuid.uuid4().hex
    out = os.path.join(CACHE, "facts", "tmp-%s.json" % nonce)
    with open(os.path.join(CACHE, "target-%s.lock" % (target_tag or cfgname)), "w") as lk:
        fcntl.flock(lk, fcntl.LOCK_EX)
        fp = os.path.join(tdir, "debug", ".fingerprint")
        if os.path.isdir(fp):
            for d in os.listdir(fp):
                if d.startswith("exmex-"):
                    shutil.rmtree(os.path.join(fp, d), ignore_errors=True)
        env = dict(os.environ)
        env.update(
            CARGO_NET_OFFLINE="true",
            LD_LIBRARY_PATH=os.path.join(nightly_sysroot(), "lib"),
            RUSTFLAGS=RUSTFLAGS,
            RUSTC_WORKSPACE_WRAPPER=DRIVER_BIN,
            CARGO_TARGET_DIR=tdir,
            EXMEX_FACTS_OUT=out,
            EXMEX_FACTS_NONCE=nonce,
        )
        env.pop("RUSTC_WRAPPER", None)
        cmd = ["cargo", "+nightly", "check", "--offline", "--lib"]
        if features:
            cmd += ["--features", features]
        r = _run(cmd, cwd=repo, env=env)
    if r.returncode != 0:
        raise ExtractionError("cargo check failed for features=%r:\n%s" % (features, r.stdout[-6000:]))
    if not os.path.exists(out):
        raise ExtractionError("driver did not run (no fact file) for features=%r:\n%s" % (features, r.stdout[-3000:]))
    with open(out) as f:
        facts = json.load(f)
    if facts.get("nonce") != nonce:
        raise ExtractionError("stale fact file (nonce mismatch)")
    facts["rustc"] = ver
    if not no_cache:
        os.replace(out, cpath)
    else:
        os.unlink(out)
    return facts, {"cache": "miss", "key": key, "features": features, "extract_s": round(time.time() - t0, 2), "rustc": ver}


# ---------------------------------------------------------------------------------
# Fact base
# ---------------------------------------------------------------------------------

class AnchorError(Exception):
    """A rule's anchor is missing or ambiguous: the check must fail closed."""


def loc(span):
    """file:line of a span; for code produced by a crate-local macro, the line of the macro *call*."""
    if not span:
        return "?"
    if "call_line" in span and span.get("macro_crate") in ("exmex",):
        return "%s:%s" % (span.get("call_file", span["file"]), span["call_line"])
    return "%s:%s" % (span["file"], span["line"])


class FactBase:
    def __init__(self, facts, meta=None):
        self.raw = facts
        self.meta = meta or {}
        self.bodies = {b["path"]: b for b in facts["bodies"]}
        self.promoted = {b["path"]: b for b in facts.get("promoted", [])}
        self.adts = {a["path"]: a for a in facts["adts"]}
        self.externs = facts["externs"]
        self.consts = {c["path"]: c for c in facts["consts"]}
        self.sigs = {s["path"]: s for s in facts["sigs"]}
        self.impls = facts["impls"]
        self.statics = facts["statics"]
        self.features = set(facts.get("cargo_features", []))
        self._impl_methods = {}
        for p, b in self.bodies.items():
            tp = b.get("impl_trait_path")
            sk = b.get("impl_self_kind") or {}
            if tp and sk.get("k") == "adt":
                self._impl_methods[(tp, sk.get("path"), b.get("name"))] = p
        self._children = {}
        for p, b in self.bodies.items():
            if b["kind"] == "Closure":
                self._children.setdefault(b["root"], []).append(p)

    # --- lookup ---------------------------------------------------------------
    def body(self, path):
        b = self.bodies.get(path)
        if b is None:
            raise AnchorError("no body for %r" % path)
        return b

    def find_bodies(self, pred):
        return [b for b in self.bodies.values() if pred(b)]

    def one_body(self, pred, what):
        bs = self.find_bodies(pred)
        if len(bs) != 1:
            raise AnchorError("anchor %s: expected exactly 1 body, found %d (%s)" % (what, len(bs), [b["path"] for b in bs][:6]))
        return bs[0]

    def by_suffix(self, suffix, what=None):
        return self.one_body(lambda b: b["path"].endswith(suffix) and b["kind"] != "Closure", what or suffix)

    def impl_method(self, fn):
        """Local impl body a trait-method call with a local ADT as Self resolves to, or None."""
        tr = fn.get("trait")
        sk = fn.get("self_kind") or {}
        while sk.get("k") == "ref":
            sk = sk.get("inner") or {}
        if tr and sk.get("k") == "adt":
            p = self._impl_methods.get((tr, sk.get("path"), fn.get("name")))
            return self.bodies.get(p) if p else None
        return None

    def closures_of(self, root_path):
        return sorted(self._children.get(root_path, []), key=closure_key)

    def adt_variant_by_discr(self, adt_path, discr):
        a = self.adts.get(adt_path)
        if not a:
            return None
        for v in a["variants"]:
            if v["discr"] is not None and str(v["discr"]) == str(discr):
                return v["name"]
        return None

    def variants(self, adt_path):
        a = self.adts.get(adt_path)
        return [v["name"] for v in a["variants"]] if a else []


def closure_key(path):
    import re
    return [int(x) for x in re.findall(r"\{closure#(\d+)\}", path)]


def load(features=ALL_FEATURES, repo=None, use_cache=True):
    facts, meta = extract(features, repo=repo, use_cache=use_cache)
    # crate-internal helpers are recognised by role (signature), not by name: see anchors.py
    from . import anchors
    facts, renamed = anchors.normalise(facts)
    if renamed:
        meta = dict(meta, renamed_roles=renamed)
    return FactBase(facts, meta)


if __name__ == "__main__":
    fb = load(sys.argv[1] if len(sys.argv) > 1 else ALL_FEATURES)
    print(json.dumps(fb.meta), len(fb.bodies), "bodies")
