"""CAS back end (runs under python3-vt: sympy + mpmath).  stdin: JSON list of jobs, stdout: JSON list of verdicts.

job: {id, kind: 'unary'|'binary', expr: AST | {val: AST, der: AST}, key: operator name}
AST: ["num", "2.0"] | ["sym", "u"|"k"|"a"|"b"|"da"|"db"] | ["add"|"sub"|"mul"|"div"|"pow", x, y] | ["neg", x] | ["fn", name, x]
For unary rules  u = inner function value, k = key(u) (the un-stripped argument).
The object checked is the *extracted rule term*; nothing of exmex runs.
"""
import json
import sys

import mpmath
import sympy as sp

u, a, b, da, db = sp.symbols("u a b da db", real=True)

FN = {
    "sin": sp.sin, "cos": sp.cos, "tan": sp.tan, "asin": sp.asin, "acos": sp.acos, "atan": sp.atan,
    "sinh": sp.sinh, "cosh": sp.cosh, "tanh": sp.tanh, "asinh": sp.asinh, "acosh": sp.acosh, "atanh": sp.atanh,
    "exp": sp.exp, "sqrt": sp.sqrt, "cbrt": lambda x: x ** sp.Rational(1, 3), "ln": sp.log, "log": sp.log,
    "log2": lambda x: sp.log(x, 2), "log10": lambda x: sp.log(x, 10), "abs": sp.Abs, "signum": sp.sign,
    "floor": sp.floor, "ceil": sp.ceiling,
}
UNARY_REF = dict(FN)
UNARY_REF["+"] = lambda x: x
UNARY_REF["-"] = lambda x: -x
for nondiff in ("abs", "signum", "floor", "ceil"):
    UNARY_REF.pop(nondiff, None)

BIN_REF = {
    "+": lambda x, y: x + y, "-": lambda x, y: x - y, "*": lambda x, y: x * y, "/": lambda x, y: x / y,
    "^": lambda x, y: x ** y, "atan2": lambda y_, x_: sp.atan2(y_, x_),
}

DOMAIN = {  # interior sample points for u
    "sqrt": (0.3, 7.1), "ln": (0.3, 7.1), "log": (0.3, 7.1), "log2": (0.3, 7.1), "log10": (0.3, 7.1), "cbrt": (0.3, 7.1),
    "asin": (-0.9, 0.9), "acos": (-0.9, 0.9), "atanh": (-0.9, 0.9), "acosh": (1.2, 9.0),
}


def build(ast, env):
    k = ast[0]
    if k == "num":
        return sp.nsimplify(ast[1], rational=True)
    if k == "sym":
        return env[ast[1]]
    if k == "neg":
        return -build(ast[1], env)
    if k == "fn":
        if ast[1] not in FN:
            raise ValueError("unknown function " + ast[1])
        return FN[ast[1]](build(ast[2], env))
    x, y = build(ast[1], env), build(ast[2], env)
    if k == "add":
        return x + y
    if k == "sub":
        return x - y
    if k == "mul":
        return x * y
    if k == "div":
        return x / y
    if k == "pow":
        return x ** y
    raise ValueError("bad node " + k)


def points(lo, hi, n=7):
    return [mpmath.mpf(lo) + (mpmath.mpf(hi) - mpmath.mpf(lo)) * (i + mpmath.mpf("0.37")) / n for i in range(n)]


def equal(e1, e2, syms, ranges):
    """(ok, method, detail)"""
    d = sp.simplify(e1 - e2)
    if d == 0:
        return True, "simplify", "difference simplifies to 0"
    # second method: 50-digit numeric evaluation of both terms at interior points
    mpmath.mp.dps = 50
    grids = [points(*ranges[s]) for s in syms]
    import itertools
    worst = mpmath.mpf(0)
    n = 0
    for i, pt in enumerate(itertools.product(*grids)):
        if len(syms) > 2 and i % 3:
            continue
        subs = dict(zip(syms, pt))
        try:
            v1 = sp.N(e1.subs(subs), 50)
            v2 = sp.N(e2.subs(subs), 50)
        except Exception as ex:  # noqa
            return False, "numeric", "evaluation failed: %s" % ex
        if v1.has(sp.nan, sp.zoo, sp.oo) or v2.has(sp.nan, sp.zoo, sp.oo) or not v1.is_real or not v2.is_real:
            return False, "numeric", "non-finite / non-real value at %s" % subs
        err = abs(v1 - v2) / (1 + abs(v2))
        worst = max(worst, mpmath.mpf(str(err)))
        n += 1
    if worst < mpmath.mpf("1e-30"):
        return True, "numeric50", "max rel. deviation %s at %d interior points" % (mpmath.nstr(worst, 3), n)
    return False, "numeric50", "terms differ: max rel. deviation %s; difference: %s" % (mpmath.nstr(worst, 5), str(d)[:160])


def job_unary(j):
    key = j["key"]
    if key not in UNARY_REF:
        return {"id": j["id"], "ok": False, "method": "table", "detail": "no derivative is defined for operator %r" % key}
    kf = UNARY_REF[key]
    env = {"u": u, "k": kf(u)}
    try:
        e = build(j["expr"], env)
    except ValueError as ex:
        return {"id": j["id"], "ok": False, "method": "build", "detail": str(ex)}
    ref = sp.diff(kf(u), u)
    ok, m, d = equal(e, ref, [u], {u: DOMAIN.get(key, (-2.9, 3.1))})
    return {"id": j["id"], "ok": ok, "method": m, "detail": d, "term": str(e), "reference": str(ref)}


def job_binary(j):
    key = j["key"]
    if key not in BIN_REF:
        return {"id": j["id"], "ok": False, "method": "table", "detail": "no derivative is defined for binary operator %r" % key}
    f = BIN_REF[key]
    env = {"a": a, "b": b, "da": da, "db": db}
    try:
        val = build(j["expr"]["val"], env)
        der = build(j["expr"]["der"], env)
    except ValueError as ex:
        return {"id": j["id"], "ok": False, "method": "build", "detail": str(ex)}
    rng = {a: (0.4, 3.3), b: (0.6, 2.9), da: (-1.3, 1.7), db: (-0.8, 2.1)}
    ok1, m1, d1 = equal(val, f(a, b), [a, b], rng)
    refd = sp.diff(f(a, b), a) * da + sp.diff(f(a, b), b) * db
    ok2, m2, d2 = equal(der, refd, [a, b, da, db], rng)
    return {"id": j["id"], "ok": ok1 and ok2, "method": "%s/%s" % (m1, m2),
            "detail": ("value: " + d1 if not ok1 else "") + (" derivative: " + d2 if not ok2 else "") or "value and derivative agree (%s; %s)" % (d1, d2),
            "term": "val=%s der=%s" % (val, der), "reference": str(refd)}


def main():
    jobs = json.load(sys.stdin)
    out = []
    for j in jobs:
        try:
            out.append(job_unary(j) if j["kind"] == "unary" else job_binary(j))
        except Exception as ex:  # noqa
            out.append({"id": j["id"], "ok": False, "method": "error", "detail": "%s: %s" % (type(ex).__name__, ex)})
    json.dump(out, sys.stdout)


if __name__ == "__main__":
    main()
