"""CFG utilities over the exported MIR bodies (no rule logic)."""


def term_succs(term, include_unwind=False):
    k = term["k"]
    out = []
    if k == "goto":
        out = [term["target"]]
    elif k == "switch":
        out = [t[1] for t in term["targets"]] + [term["otherwise"]]
    elif k in ("drop", "assert"):
        out = [term["target"]]
    elif k == "call":
        if term["target"] is not None:
            out = [term["target"]]
    if include_unwind and term.get("unwind") is not None:
        out.append(term["unwind"])
    seen = []
    for x in out:
        if x not in seen:
            seen.append(x)
    return seen


def succs(body, bb, include_unwind=False):
    return term_succs(body["blocks"][bb]["term"], include_unwind)


def normal_blocks(body):
    """Blocks reachable from entry along non-unwind edges."""
    seen = {0}
    work = [0]
    while work:
        b = work.pop()
        for s in succs(body, b):
            if s not in seen:
                seen.add(s)
                work.append(s)
    return seen


def preds_map(body, blocks=None):
    blocks = blocks if blocks is not None else normal_blocks(body)
    pm = {b: [] for b in blocks}
    for b in blocks:
        for s in succs(body, b):
            if s in pm:
                pm[s].append(b)
    return pm


def rpo(body):
    seen = set()
    order = []

    def dfs(b):
        stack = [(b, iter(succs(body, b)))]
        seen.add(b)
        while stack:
            node, it = stack[-1]
            adv = False
            for s in it:
                if s not in seen:
                    seen.add(s)
                    stack.append((s, iter(succs(body, s))))
                    adv = True
                    break
            if not adv:
                order.append(node)
                stack.pop()

    dfs(0)
    order.reverse()
    return order


def dominators(body):
    """Return dict bb -> set of dominators (iterative; bodies are small)."""
    order = rpo(body)
    blocks = set(order)
    pm = preds_map(body, blocks)
    dom = {b: set(blocks) for b in blocks}
    dom[0] = {0}
    changed = True
    while changed:
        changed = False
        for b in order:
            if b == 0:
                continue
            ps = [p for p in pm[b]]
            if not ps:
                continue
            new = set.intersection(*[dom[p] for p in ps]) | {b}
            if new != dom[b]:
                dom[b] = new
                changed = True
    return dom


def back_edges(body):
    dom = dominators(body)
    out = []
    for b in dom:
        for s in succs(body, b):
            if s in dom.get(b, ()):  # s dominates b
                out.append((b, s))
    return out


def has_loop(body):
    return bool(back_edges(body))


def reach_from(body, start, avoid=()):
    """Blocks reachable from `start` (inclusive) on normal edges, not passing through `avoid`."""
    avoid = set(avoid)
    if start in avoid:
        return set()
    seen = {start}
    work = [start]
    while work:
        b = work.pop()
        for s in succs(body, b):
            if s not in seen and s not in avoid:
                seen.add(s)
                work.append(s)
    return seen


def return_blocks(body):
    nb = normal_blocks(body)
    return [b for b in sorted(nb) if body["blocks"][b]["term"]["k"] == "return"]


def iter_stmts(body, blocks=None):
    bl = body["blocks"]
    for bi in (sorted(blocks) if blocks is not None else range(len(bl))):
        for si, st in enumerate(bl[bi]["stmts"]):
            yield bi, si, st


def iter_terms(body, blocks=None, kind=None):
    bl = body["blocks"]
    for bi in (sorted(blocks) if blocks is not None else range(len(bl))):
        t = bl[bi]["term"]
        if kind is None or t["k"] == kind:
            yield bi, t


def calls(body, blocks=None):
    """Yield (bb, term) for Call terminators on normal blocks."""
    nb = normal_blocks(body) if blocks is None else blocks
    for bi, t in iter_terms(body, nb, "call"):
        yield bi, t


def callee_path(term):
    f = term["func"]
    return f.get("path") if f.get("k") == "fndef" else None


def local_defs(body):
    """local -> list of ('stmt', bb, idx, rvalue) / ('call', bb, term) that assign the whole local."""
    d = {}
    nb = normal_blocks(body)
    for bi, si, st in iter_stmts(body, nb):
        if st["k"] == "assign" and not st["place"]["proj"]:
            d.setdefault(st["place"]["local"], []).append(("stmt", bi, si, st["rv"]))
    for bi, t in iter_terms(body, nb, "call"):
        if not t["dest"]["proj"]:
            d.setdefault(t["dest"]["local"], []).append(("call", bi, t))
    return d


# ---- pretty printing (for replay files / diagnostics) ---------------------------

def fmt_place(p):
    s = "_%d" % p["local"]
    for e in p["proj"]:
        k = e["k"]
        if k == "deref":
            s = "(*%s)" % s
        elif k == "field":
            s = "%s.%s" % (s, e["name"])
        elif k == "downcast":
            s = "(%s as %s)" % (s, e["variant"])
        elif k == "index":
            s = "%s[_%d]" % (s, e["local"])
        elif k == "constindex":
            s = "%s[%s%d]" % (s, "-" if e["from_end"] else "", e["offset"])
        elif k == "subslice":
            s = "%s[%d..%d]" % (s, e["from"], e["to"])
        else:
            s = "%s.<%s>" % (s, k)
    return s


def fmt_op(o):
    k = o["k"]
    if k in ("copy", "move"):
        return ("move " if k == "move" else "") + fmt_place(o["place"])
    if k == "const":
        return o.get("text", "const ?")
    return "<%s>" % k


def fmt_rv(rv):
    k = rv["k"]
    if k == "use":
        return fmt_op(rv["op"])
    if k == "ref":
        return "&%s %s" % (rv["borrow"], fmt_place(rv["place"]))
    if k == "cast":
        return "%s as %s [%s]" % (fmt_op(rv["op"]), rv["ty"], rv["kind"])
    if k == "binop":
        return "%s(%s, %s)" % (rv["op"], fmt_op(rv["a"]), fmt_op(rv["b"]))
    if k == "unop":
        return "%s(%s)" % (rv["op"], fmt_op(rv["a"]))
    if k == "discriminant":
        return "discriminant(%s)" % fmt_place(rv["place"])
    if k == "aggregate":
        name = rv.get("adt") or rv.get("closure") or rv["agg"]
        if rv.get("variant"):
            name += "::" + rv["variant"]
        return "%s{%s}" % (name, ", ".join(fmt_op(o) for o in rv["ops"]))
    return "<%s>" % k


def fmt_term(t):
    k = t["k"]
    if k == "call":
        f = t["func"]
        name = f.get("path") if f.get("k") == "fndef" else "(%s)" % fmt_op(f["op"])
        return "%s = %s(%s) -> bb%s" % (fmt_place(t["dest"]), name, ", ".join(fmt_op(a) for a in t["args"]), t["target"])
    if k == "switch":
        return "switchInt(%s) -> [%s, otherwise: bb%d]" % (fmt_op(t["discr"]), ", ".join("%s: bb%d" % (v, b) for v, b in t["targets"]), t["otherwise"])
    if k == "goto":
        return "goto bb%d" % t["target"]
    if k == "assert":
        return "assert(%s == %s, %s) -> bb%d" % (fmt_op(t["cond"]), t["expected"], t["kind"], t["target"])
    if k == "drop":
        return "drop(%s) -> bb%d" % (fmt_place(t["place"]), t["target"])
    return k


def fmt_block(body, bi):
    b = body["blocks"][bi]
    lines = ["bb%d%s:" % (bi, " (cleanup)" if b["cleanup"] else "")]
    for st in b["stmts"]:
        if st["k"] == "assign":
            lines.append("    %s = %s" % (fmt_place(st["place"]), fmt_rv(st["rv"])))
        else:
            lines.append("    <%s>" % st["k"])
    lines.append("    " + fmt_term(b["term"]))
    return "\n".join(lines)


def fmt_body(body, only_normal=True):
    nb = normal_blocks(body) if only_normal else range(len(body["blocks"]))
    hdr = "fn %s  [%s:%s]" % (body["path"], body["span"]["file"], body["span"]["line"])
    return hdr + "\n" + "\n".join(fmt_block(body, b) for b in sorted(nb))


def trace_const(body, op, defs=None, depth=0):
    """Follow copies / reborrows back to a constant operand; returns the const dict or None."""
    if op.get("k") == "const":
        return op
    if op.get("k") not in ("copy", "move") or depth > 8:
        return None
    defs = defs if defs is not None else local_defs(body)
    ds = defs.get(op["place"]["local"], [])
    if len(ds) != 1 or ds[0][0] != "stmt":
        return None
    rv = ds[0][3]
    if rv["k"] == "use":
        return trace_const(body, rv["op"], defs, depth + 1)
    if rv["k"] in ("ref", "rawptr"):
        return trace_const(body, {"k": "copy", "place": {"local": rv["place"]["local"], "proj": []}}, defs, depth + 1)
    if rv["k"] == "cast":
        return trace_const(body, rv["op"], defs, depth + 1)
    return None


def natural_loops(body):
    """header -> set of blocks of the natural loop(s) with that header."""
    info = {}
    dom_ = dominators(body)
    pm = preds_map(body)
    for (s, h) in back_edges(body):
        loop = {h, s}
        work = [s]
        while work:
            x = work.pop()
            if x == h:
                continue
            for pr in pm.get(x, []):
                if pr not in loop and h in dom_.get(pr, ()):
                    loop.add(pr)
                    work.append(pr)
        info[h] = info.get(h, set()) | loop
    return info


def loop_exits(body, blocks):
    """[(from block, to block)] edges that leave the loop (unwind/cleanup edges excluded)."""
    out = []
    for b in sorted(blocks):
        for s in succs(body, b):
            if s not in blocks:
                out.append((b, s))
    return out


DEBUG_ASSERT_MACROS = ("debug_assert!", "debug_assert_eq!", "debug_assert_ne!")


def is_debug_assert(term):
    """A diverging call that is the failure arm of a debug_assert*!: the maintainers' executable statement of an invariant.
    All analyses treat it as an assumption (the arm is not followed, the site is not a may-panic site) and count it."""
    if term.get("k") != "call" or term.get("target") is not None:
        return False
    sp = term.get("span") or {}
    return any(m in DEBUG_ASSERT_MACROS for m in sp.get("macros", []))
