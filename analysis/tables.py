"""TABLE family: read operator / derivative tables out of their constructor bodies."""
from .interp import Interp, Policy, Const, Variant, Closure, FnItem, show
from .facts import AnchorError, loc


class _NoInline(Policy):
    """Table constructors: crate-local helpers (e.g. a function wrapping a constant conversion or building one entry)
    are inlined; the entry constructors themselves are the vocabulary and stay calls."""
    record_calls = True
    max_depth = 4

    def inline(self, fn, args, interp, path):
        p = fn.get("path", "")
        if "operators::Operator" in p or p.endswith("::make") or p.endswith("make_partial_derivative_ops"):
            return False
        b = interp.callee_body(fn)
        if b is None:
            return False
        # a helper that builds a part of the table (returns operators) is part of the constructor, whatever its size
        if "operators::Operator<" in b["locals"][0]["ty"] or "PartialDerivative<" in b["locals"][0]["ty"]:
            return True
        return len(b["blocks"]) <= 60


def _single_path(fb, body):
    ps = Interp(fb, _NoInline()).run(body, [])
    if len(ps) != 1 or ps[0].status != "return":
        raise AnchorError("table constructor %s is not straight-line (%d paths, %s)" % (
            body["path"], len(ps), [(p.status, p.note) for p in ps][:3]))
    return ps[0]


def operator_table(fb, make_body):
    """Entries of a MakeOperators::make body, in source order."""
    p = _single_path(fb, make_body)
    out = []
    for e in p.events:
        if e[0] != "call":
            continue
        name = e[1]
        if "operators::Operator" not in name:
            continue
        ctor = name.rsplit("::", 1)[-1]
        if ctor not in ("make_bin", "make_unary", "make_bin_unary", "make_constant"):
            continue
        args, span = e[2], e[3]
        ent = {"ctor": ctor, "loc": loc(span), "span": span, "repr": None, "bin": None, "unary": None, "constant": None,
               "prio": None, "is_commutative": None, "apply": None}
        r = args[0]
        if isinstance(r, Const) and r.s is not None:
            ent["repr"] = r.s
        rest = args[1:]
        for a in rest:
            if isinstance(a, Variant) and a.adt.endswith("BinOp"):
                ent["bin"] = a
                ent["apply"] = a.fields.get("apply")
                pr = a.fields.get("prio")
                ic = a.fields.get("is_commutative")
                if isinstance(pr, Const) and pr.bits is not None:
                    v = pr.bits
                    if v >= 1 << 63:
                        v -= 1 << 64
                    ent["prio"] = v
                if isinstance(ic, Const) and ic.bits is not None:
                    ent["is_commutative"] = bool(ic.bits)
            elif ctor == "make_constant":
                ent["constant"] = a
            elif isinstance(a, (Closure, FnItem)):
                ent["unary"] = a
            else:
                ent.setdefault("other", []).append(a)
        out.append(ent)
    return out


def target_body(fb, v):
    """Body of a closure / fn item value, or None."""
    if isinstance(v, Closure):
        return fb.bodies.get(v.path)
    if isinstance(v, FnItem):
        return fb.bodies.get(v.fn["path"])
    return None


def target_name(v):
    if isinstance(v, Closure):
        return v.path
    if isinstance(v, FnItem):
        return v.fn["path"]
    return show(v)


def derivative_table(fb, body):
    """PartialDerivative{repr, bin_op, unary_outer_op} aggregates in order."""
    p = _single_path(fb, body)
    out = []
    for e in p.events:
        if e[0] == "aggregate" and isinstance(e[1], Variant) and e[1].adt.endswith("PartialDerivative"):
            v = e[1]
            r = v.fields.get("repr")
            ent = {"repr": r.s if isinstance(r, Const) else None, "loc": loc(e[2]), "span": e[2], "bin": None, "unary": None}
            for fld, key in (("bin_op", "bin"), ("unary_outer_op", "unary")):
                x = v.fields.get(fld)
                if isinstance(x, Variant) and x.variant == "Some":
                    ent[key] = x.fields.get("0")
                elif isinstance(x, Variant) and x.variant == "None":
                    ent[key] = None
                else:
                    ent[key] = x
            out.append(ent)
    return out
