"""DOM family via the abstract interpreter: "every path that reaches site S has taken decision D".

`paths_of` enumerates the paths of one function with symbolic arguments (no inlining);
a site (call terminator / assert) is located on a path by its span.  A guard is a predicate
over the decisions taken on *every* path through the site.
"""
import re

from .interp import Interp, Policy, Sym, Closure, show, App, Const, Variant



class _P(Policy):
    """Small crate-local helpers are inlined (a guard may live in a helper); loops are widened."""
    max_paths = 3000
    max_visits = 1
    max_depth = 4
    loop_mode = "widen"

    def inline(self, fn, args, interp, path):
        b = interp.callee_body(fn)
        return b is not None and len(b["blocks"]) <= 40 and not any(f.body["path"] == b["path"] for f in path.frames)


def paths_of(fb, body):
    cache = fb.__dict__.setdefault("_guard_paths", {})
    key = body["path"]
    if key in cache:
        return cache[key]
    n = body["arg_count"]
    if body["kind"] == "Closure":
        args = [Sym("env")] + [Sym("p%d" % i) for i in range(1, n)]
    else:
        args = [Sym("p%d" % i) for i in range(1, n + 1)]
    ps = Interp(fb, _P()).run(body, args)
    cache[key] = ps
    return ps


def span_eq(a, b):
    return a["file"] == b["file"] and a["line"] == b["line"] and a["col"] == b["col"]


def paths_through(fb, body, site):
    """(paths containing the site, event per path, all_recognised)"""
    ps = paths_of(fb, body)
    recognised = all(p.status in ("return", "diverge", "unreachable", "loop-pruned") for p in ps)
    out = []
    for p in ps:
        for e in p.events:
            if e[0] == "call" and site["kind"] != "assert" and span_eq(e[3], site["span"]) and e[1] == site["what_path"]:
                out.append((p, e))
                break
            if e[0] == "assert" and site["kind"] == "assert" and span_eq(e[3], site["span"]):
                out.append((p, e))
                break
    return out, recognised


def has_decision(path, pattern, label):
    """A decision whose condition term matches regex `pattern` with branch `label`."""
    rx = re.compile(pattern)
    for d in path.decisions:
        if d[2] == label and rx.search(show(d[1])):
            return True
    return False


def esc(v):
    return re.escape(show(v))


# ---- guard predicates: return (ok: bool, detail: str) ---------------------------------

def g_none(fb, body, site):
    return True, "type-class argument"


def g_const_operands(fb, body, site):
    """The assert condition folds to its expected constant on every path (arithmetic on compile-time constants)."""
    def pred(p, e):
        c = e[2]
        if isinstance(c, Const) and c.bits is not None and bool(c.bits) == bool(e[5]):
            return True, ""
        return False, "condition is not a compile-time constant: " + show(c)[:100]
    return _every_path(fb, body, site, pred)


def _every_path(fb, body, site, pred):
    pts, rec = paths_through(fb, body, site)
    if not rec:
        return False, "function shape not recognised (loop or path limit)"
    if not pts:
        return False, "site not found on any path (dead or unrecognised)"
    for p, e in pts:
        ok, why = pred(p, e)
        if not ok:
            return False, why
    return True, "%d path(s) through the site, each guarded" % len(pts)


def g_bits_sum(fb, body, site):
    def pred(p, e):
        c = show(e[2])
        # overflow flag of count_ones(x) + count_zeros(x)
        m = re.search(r"overflow:AddWithOverflow\(num::PrimInt::count_ones\((.*?)\), num::PrimInt::count_zeros\((.*?)\)\)", c)
        if m and m.group(1) == m.group(2):
            return True, ""
        return False, "operands are not count_ones(x)+count_zeros(x): " + c[:120]
    return _every_path(fb, body, site, pred)


def _unconv(v):
    """strip numeric conversions and Option payload projections: the value a converted number came from"""
    from . import rel
    v = rel.canon(v)
    while isinstance(v, App) and v.args:
        if v.fn == ".0" and isinstance(v.args[0], App) and v.args[0].fn in ("as:Some", "as:Ok"):
            v = v.args[0].args[0]
        elif v.fn in ("num::NumCast::from", "std::convert::From::from", "std::convert::Into::into", "std::convert::TryFrom::try_from",
                      "std::convert::TryInto::try_into", "num::FromPrimitive::from_usize") or v.fn.startswith("cast:IntToInt"):
            v = v.args[0]
        else:
            break
    return v


def _is_len_of(v, r):
    from . import rel
    v = _unconv(v)
    return isinstance(v, App) and re.search(r"::len$", v.fn) is not None and len(v.args) == 1 and rel.canon(v.args[0]).key() == rel.canon(r).key()


def _is_zero(v):
    from . import rel
    v = _unconv(v)
    if rel.const_int(v) == 0:
        return True
    return isinstance(v, App) and v.fn in ("num::Zero::zero",) and not v.args


def _is_bit_width(v):
    from . import rel
    v = rel.canon(v)
    while isinstance(v, App) and v.fn.startswith("cast:") and v.args:
        v = v.args[0]
    if not isinstance(v, App):
        return False
    if v.fn == "binop:Add" and len(v.args) == 2:
        x, y = v.args
        names = {x.fn if isinstance(x, App) else "", y.fn if isinstance(y, App) else ""}
        if names == {"num::PrimInt::count_ones", "num::PrimInt::count_zeros"} and x.args[0].key() == y.args[0].key():
            return True
    if v.fn in ("num::PrimInt::count_zeros", "num::PrimInt::leading_zeros", "num::PrimInt::trailing_zeros") and v.args and _is_zero(v.args[0]):
        return True
    if v.fn == "binop:Mul" and len(v.args) == 2:
        for x, y in (v.args, v.args[::-1]):
            if rel.const_int(y) == 8 and isinstance(x, App) and x.fn.startswith("std::mem::size_of"):
                return True
    return False


def _facts(p):
    from . import rel
    f = getattr(p, "_facts", None)
    if f is None:
        f = rel.Facts(p)
        p._facts = f
    return f


def _to_usize_arg(v):
    """i for a value that is to_usize(i) unwrapped / matched as Some"""
    from . import rel
    v = rel.canon(v)
    if isinstance(v, App) and v.fn == ".0" and isinstance(v.args[0], App) and v.args[0].fn == "as:Some":
        x = v.args[0].args[0]
        if isinstance(x, App) and x.fn in ("num::ToPrimitive::to_usize", "num::NumCast::from") and len(x.args) == 1:
            return x.args[0]
    return None


def g_shift_range(fb, body, site):
    """a << n / a >> n: a comparison n < bit-width holds on every path to the shift."""
    def pred(p, e):
        from . import rel
        a, sh = e[2][0], e[2][1]
        F = _facts(p)
        n = rel.canon(sh)
        for x, op, y in F.rel:
            if op == "<" and x.key() == n.key() and _is_bit_width(y):
                return True, ""
        return False, "no `amount < bit-width` comparison of the shift amount %s holds on a path to the shift" % show(n)[:80]
    return _every_path(fb, body, site, pred)


def g_unwrap_after_some(fb, body, site):
    def pred(p, e):
        x = e[2][0]
        if _facts(p).tag(x, ("Some", "Ok")):
            return True, ""
        return False, "no preceding Some/Ok test of the same value %s" % show(x)[:80]
    return _every_path(fb, body, site, pred)


def _index_in_range(F, r, idx):
    """0 <= idx < len(r) follows from the facts of the path"""
    from . import rel
    idx = rel.canon(idx)
    lens = [s for a, op, b in F.rel for s in (a, b) if _is_len_of(s, r)]
    # the index as usize against len as usize
    for L in lens:
        if isinstance(_unconv(L), App) and L.key() == _unconv(L).key() and F.lt(idx, L):
            return True, ""
    # the index as the integer it was converted from: 0 <= i < I::from(len)
    i = _to_usize_arg(idx)
    if i is not None:
        up = any(F.lt(i, L) for L in lens)
        lo = any((op in ("<=", "<") and _is_zero(a) and b.key() == rel.canon(i).key()) for a, op, b in F.rel)
        if up and lo:
            return True, ""
        return False, "missing range test(s) for %s: i<len=%s, i>=0=%s" % (show(i)[:40], up, lo)
    return False, "no comparison bounds the index %s by the length of %s" % (show(idx)[:60], show(r)[:40])


def g_index_len3(fb, body, site):
    """a[k]: k < len(a) holds on every path (constant index after a length test)."""
    def pred(p, e):
        r, idx = e[2][0], e[2][1]
        return _index_in_range(_facts(p), r, idx)
    return _every_path(fb, body, site, pred)


def g_component_range(fb, body, site):
    """a[i.to_usize().unwrap()] and the unwrap itself: 0 <= i < len(a) in I (so len(a) is representable in I)."""
    def pred(p, e):
        from . import rel
        F = _facts(p)
        if site["what_path"].endswith("Index::index"):
            return _index_in_range(F, e[2][0], e[2][1])
        x = rel.canon(e[2][0])
        if not (isinstance(x, App) and x.fn == "num::ToPrimitive::to_usize" and len(x.args) == 1):
            return False, "not to_usize(i)"
        i = x.args[0]
        lo = any((op in ("<=", "<") and _is_zero(a) and b.key() == i.key()) for a, op, b in F.rel)
        up = any(op == "<" and a.key() == i.key() and isinstance(_unconv(b), App) and _unconv(b).fn.endswith("::len") for a, op, b in F.rel)
        if lo and up:
            return True, ""
        return False, "missing range test(s): i<len=%s, i>=0=%s" % (up, lo)
    return _every_path(fb, body, site, pred)


def g_char_boundary_range(fb, body, site):
    """next_char_boundary: the searched offsets must cover 1..len (a boundary exists at most 4 bytes ahead, and at len)."""
    from . import dom as _dom, mir as _mir
    org = _dom.Origins(body)
    for bi, t in _mir.calls(body):
        if span_eq(t["span"], site["span"]) and t["args"] and _mir.callee_path(t) == site.get("what_path"):
            term = org.op_term(t["args"][0])
            m = re.match(r"^std::iter::Iterator::find\(std::ops::Range::Range\{(\d+)_usize, core::str::<impl str>::len\(param:\w+\)\}, .*\)$", term) or \
                re.match(r"^std::iter::Iterator::find\(std::ops::RangeInclusive::<Idx>::new\((\d+)_usize, (?:4|[5-9]|\d\d+)_usize\), .*\)$", term)
            if m and int(m.group(1)) <= 1:
                return True, "searches offsets 1..len(text)"
            return False, "the searched offsets do not cover every possible distance to the next char boundary: %s" % term[:120]
    return False, "site not found"


def g_str_index(fb, body, site):
    """&text[a..b]: if an end point is a COUNT OF CHARACTERS (chars().take_while(p).count()), every counted character must be
    one byte long, i.e. the predicate only accepts ASCII characters (is_ascii_* or equality with an ASCII literal).  Other end
    points (byte offsets from char_indices, lengths of matched text, next_char_boundary) are covered by C07 R07.6."""
    from .interp import Closure
    from . import rel as _rel
    pts, rec = paths_through(fb, body, site)
    if not rec:
        return False, "function shape not recognised"
    for p, e in pts:
        idx = _rel.canon(e[2][1]) if len(e[2]) > 1 else None
        for s in ([] if idx is None else list(__import__("analysis.dispatch", fromlist=["subterms"]).subterms(idx))):
            if isinstance(s, App) and s.fn == "std::iter::Iterator::count" and s.args:
                src = _rel.canon(s.args[0])
                if not (isinstance(src, App) and src.fn in ("std::iter::Iterator::take_while", "std::iter::Iterator::filter") and "::chars(" in _rel.cstr(src.args[0]) and isinstance(src.args[1], Closure)):
                    return False, "a character count of unknown origin is used as a byte offset: %s" % _rel.cstr(s)[:100]
                cb = fb.bodies.get(src.args[1].path)
                qs = [q for q in Interp(fb, _P()).run(cb, [src.args[1], Sym("c")]) if q.status != "unreachable"] if cb else []
                if not qs or any(q.status != "return" for q in qs):
                    return False, "predicate of the counted characters not recognised"
                for q in qs:
                    # every way to return true must have established that c is ASCII
                    r = _rel.canon(q.result)
                    may_true = not (isinstance(r, Const) and r.bits == 0)
                    if not may_true:
                        continue
                    ascii_ok = False
                    terms = [d[1] for d in q.decisions if d[2] is True] + ([r] if not isinstance(r, Const) else [])
                    for tt in terms:
                        c_ = _rel.canon(tt)
                        sc = _rel.cstr(c_)
                        if re.search(r"<impl char>::is_ascii\w*\((deref\()?c\)?\)", sc):
                            ascii_ok = True
                        if isinstance(c_, App) and c_.fn == "binop:Eq" and any(isinstance(x, Const) and x.ty == "char" and x.bits is not None and x.bits < 128 for x in c_.args):
                            ascii_ok = True
                    if not ascii_ok:
                        return False, "characters are counted by a predicate that also accepts non-ASCII characters (%s), and the count is used as a byte offset into the text" % _rel.cstr(r)[:80]
    return True, "character counts used as byte offsets only count ASCII characters"


def g_new_total(fb, body, site):
    """unwrap of DeepEx::new(..): the constructor returns Err only when #nodes != #operators + 1 (which the call sites rule
    out by construction); any other Err path turns these unwraps into panics."""
    from . import rel as _rel
    nb = [b for p_, b in fb.bodies.items() if p_.endswith("DeepEx::<'a, T, OF, LM>::new") and b["kind"] == "AssocFn"]
    if len(nb) != 1:
        return False, "DeepEx::new not found"

    class PN(Policy):
        loop_mode = "widen"
        max_depth = 2
    ps = [p for p in Interp(fb, PN()).run(nb[0], [Sym("nodes"), Sym("bin_ops"), Sym("unary_op")]) if p.status != "unreachable"]
    n_err = 0
    for p in ps:
        if p.status == "return" and isinstance(p.result, Variant) and p.result.variant == "Err" or p.status == "diverge":
            n_err += 1
            F = _rel.Facts(p)
            def is_mismatch(a, b):
                sa, sb = _rel.cstr(a), _rel.cstr(b)
                return re.match(r"^[\w:<>, ]+::len\(nodes\)$", sa) is not None and re.match(r"^binop:Add\([\w:<>, ]+::len\(\.ops\(bin_ops\)\), 1_usize\)$", sb) is not None
            mismatch = any(op == "!=" and (is_mismatch(a, b) or is_mismatch(b, a)) for a, op, b in F.rel)
            if not mismatch:
                conds = [(_rel.cstr(d[1])[:70], d[2]) for d in p.decisions][-3:]
                return False, "DeepEx::new can fail for another reason than #nodes != #operators + 1 (%s): its results are unwrapped" % conds
    if n_err == 0:
        return False, "no Err path of DeepEx::new seen"
    return True, "DeepEx::new fails only on a node/operator count mismatch (%d error paths)" % n_err


GUARDS = {
    "str_index": g_str_index,
    "new_total": g_new_total,
    "char_boundary_range": g_char_boundary_range,
    "none": g_none,
    "const_operands": g_const_operands,
    "bits_sum": g_bits_sum,
    "shift_range": g_shift_range,
    "unwrap_after_some": g_unwrap_after_some,
    "index_len3": g_index_len3,
    "component_range": g_component_range,
}
