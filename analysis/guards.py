"""DOM family via the abstract interpreter: "every path that reaches site S has taken decision D".

`paths_of` enumerates the paths of one function with symbolic arguments (no inlining);
a site (call terminator / assert) is located on a path by its span.  A guard is a predicate
over the decisions taken on *every* path through the site.
"""
import re

from .interp import Interp, Policy, Sym, Closure, show, App, Const



class _P(Policy):
    max_paths = 3000
    max_visits = 1


def paths_of(fb, body):
    cache = fb.__dict__.setdefault("_guard_paths", {})
    key = body["path"]
    if key in cache:
        return cache[key]
    n = body["arg_count"]
    if body["kind"] == "Closure":
        args = [Sym("env")] + [Sym("p%d" % i) for i in range(1, n)]
    else:
        args = [Sym("p%d" % i) for i in range(1, n + 1)]
    ps = Interp(fb, _P()).run(body, args)
    cache[key] = ps
    return ps


def span_eq(a, b):
    return a["file"] == b["file"] and a["line"] == b["line"] and a["col"] == b["col"]


def paths_through(fb, body, site):
    """(paths containing the site, event per path, all_recognised)"""
    ps = paths_of(fb, body)
    recognised = all(p.status in ("return", "diverge", "unreachable") for p in ps)
    out = []
    for p in ps:
        for e in p.events:
            if e[0] == "call" and site["kind"] != "assert" and span_eq(e[3], site["span"]) and e[1] == site["what_path"]:
                out.append((p, e))
                break
            if e[0] == "assert" and site["kind"] == "assert" and span_eq(e[3], site["span"]):
                out.append((p, e))
                break
    return out, recognised


def has_decision(path, pattern, label):
    """A decision whose condition term matches regex `pattern` with branch `label`."""
    rx = re.compile(pattern)
    for d in path.decisions:
        if d[2] == label and rx.search(show(d[1])):
            return True
    return False


def esc(v):
    return re.escape(show(v))


# ---- guard predicates: return (ok: bool, detail: str) ---------------------------------

def g_none(fb, body, site):
    return True, "type-class argument"


def g_const_operands(fb, body, site):
    """The assert condition folds to its expected constant on every path (arithmetic on compile-time constants)."""
    def pred(p, e):
        c = e[2]
        if isinstance(c, Const) and c.bits is not None and bool(c.bits) == bool(e[5]):
            return True, ""
        return False, "condition is not a compile-time constant: " + show(c)[:100]
    return _every_path(fb, body, site, pred)


def _every_path(fb, body, site, pred):
    pts, rec = paths_through(fb, body, site)
    if not rec:
        return False, "function shape not recognised (loop or path limit)"
    if not pts:
        return False, "site not found on any path (dead or unrecognised)"
    for p, e in pts:
        ok, why = pred(p, e)
        if not ok:
            return False, why
    return True, "%d path(s) through the site, each guarded" % len(pts)


def g_bits_sum(fb, body, site):
    def pred(p, e):
        c = show(e[2])
        # overflow flag of count_ones(x) + count_zeros(x)
        m = re.search(r"overflow:AddWithOverflow\(num::PrimInt::count_ones\((.*?)\), num::PrimInt::count_zeros\((.*?)\)\)", c)
        if m and m.group(1) == m.group(2):
            return True, ""
        return False, "operands are not count_ones(x)+count_zeros(x): " + c[:120]
    return _every_path(fb, body, site, pred)


def g_shift_range(fb, body, site):
    def pred(p, e):
        a, sh = e[2][0], e[2][1]
        s_sh = show(sh)
        m = re.match(r"\.0\(as:Some\((num::ToPrimitive::to_usize\(.*\))\)\)$", s_sh)
        if not m:
            return False, "shift amount is not the payload of to_usize(..): " + s_sh
        tu = m.group(1)
        pat = r"^binop:Lt\(std::option::Option::<T>::unwrap\(%s\), cast:IntToInt:usize\(binop:Add\(num::PrimInt::count_ones\(%s\), num::PrimInt::count_zeros\(%s\)\)\)\)$" % (
            re.escape(tu), esc(a), esc(a))
        if has_decision(p, pat, True):
            return True, ""
        return False, "no dominating `amount < bit-width(value)` test"
    return _every_path(fb, body, site, pred)


def g_unwrap_after_some(fb, body, site):
    def pred(p, e):
        x = e[2][0]
        if has_decision(p, "^discr\\(%s\\)$" % esc(x), "Some") or has_decision(p, "^discr\\(%s\\)$" % esc(x), "Ok"):
            return True, ""
        return False, "no preceding Some/Ok test of the same value %s" % show(x)[:80]
    return _every_path(fb, body, site, pred)


def g_index_len3(fb, body, site):
    def pred(p, e):
        r, idx = e[2][0], e[2][1]
        if not (isinstance(idx, Const) and idx.bits is not None and idx.bits < 3):
            return False, "index is not a constant < 3: " + show(idx)
        pat = r"^binop:Ne\(smallvec::SmallVec::<A>::len\(%s\), 3_usize\)$" % esc(r)
        if has_decision(p, pat, False):
            return True, ""
        return False, "no dominating len(%s) == 3 test" % show(r)[:60]
    return _every_path(fb, body, site, pred)


def g_component_range(fb, body, site):
    """a[i.to_usize().unwrap()] and the unwrap itself: 0 <= i < len(a), len(a) representable in I."""
    def pred(p, e):
        if site["what_path"].endswith("Index::index"):
            r, idx = e[2][0], e[2][1]
            m = re.match(r"std::option::Option::<T>::unwrap\(num::ToPrimitive::to_usize\((.*)\)\)$", show(idx))
            if not m:
                return False, "index is not to_usize(i).unwrap(): " + show(idx)[:80]
            i = m.group(1)
            rs = esc(r)
        else:
            m = re.match(r"num::ToPrimitive::to_usize\((.*)\)$", show(e[2][0]))
            if not m:
                return False, "not to_usize(i)"
            i = m.group(1)
            rs = r".*"
        lenterm = r"num::NumCast::from\(smallvec::SmallVec::<A>::len\(%s\)\)" % rs
        c1 = has_decision(p, r"^std::option::Option::<T>::is_none\(%s\)$" % lenterm, False)
        c2 = has_decision(p, r"^std::cmp::PartialEq::eq\(std::option::Option::<T>::map\(%s, closure<\{closure#\d+\}>\), " % lenterm, False)
        c3 = has_decision(p, r"^std::cmp::PartialOrd::lt\(%s, std::option::Option::<T>::unwrap\(num::NumCast::from\(0_i32\)\)\)$" % re.escape(i), False)
        if c1 and c2 and c3:
            return True, ""
        return False, "missing range test(s): len representable=%s, i<len=%s, i>=0=%s" % (c1, c2, c3)
    ok, why = _every_path(fb, body, site, pred)
    if not ok:
        return ok, why
    # the closure passed to map must be `len <= i`
    cl = [b for p_, b in fb.bodies.items() if p_.startswith(body["path"] + "::{closure#")]
    good = False
    for c in cl:
        ps = paths_of(fb, c)
        if len(ps) == 1 and ps[0].status == "return" and re.match(r"^std::cmp::PartialOrd::le\(p1, .*\)$", show(ps[0].result)):
            good = True
    return (True, why) if good else (False, "the mapped comparison is not `len <= i`")


def g_char_boundary_range(fb, body, site):
    """next_char_boundary: the searched offsets must cover 1..len (a boundary exists at most 4 bytes ahead, and at len)."""
    from . import dom as _dom, mir as _mir
    org = _dom.Origins(body)
    for bi, t in _mir.calls(body):
        if span_eq(t["span"], site["span"]) and t["args"] and _mir.callee_path(t) == site.get("what_path"):
            term = org.op_term(t["args"][0])
            m = re.match(r"^std::iter::Iterator::find\(std::ops::Range::Range\{(\d+)_usize, core::str::<impl str>::len\(param:\w+\)\}, .*\)$", term) or \
                re.match(r"^std::iter::Iterator::find\(std::ops::RangeInclusive::<Idx>::new\((\d+)_usize, (?:4|[5-9]|\d\d+)_usize\), .*\)$", term)
            if m and int(m.group(1)) <= 1:
                return True, "searches offsets 1..len(text)"
            return False, "the searched offsets do not cover every possible distance to the next char boundary: %s" % term[:120]
    return False, "site not found"


GUARDS = {
    "char_boundary_range": g_char_boundary_range,
    "none": g_none,
    "const_operands": g_const_operands,
    "bits_sum": g_bits_sum,
    "shift_range": g_shift_range,
    "unwrap_after_some": g_unwrap_after_some,
    "index_len3": g_index_len3,
    "component_range": g_component_range,
}
