"""TYPESTATE: "this list of names is sorted (natural order) and duplicate-free".

Interprocedural origin classification of every value stored into a `var_names` field:
  EMPTY    empty literal
  COPY     another expression's var_names through order-preserving, element-wise adaptors
  SORTED   a local on which natural-order sort is the last mutating event, and whose every
           push is guarded by a negative membership test
  PARAM    a parameter: every call site's argument must classify (fixed point)
  CALL     result of a crate-local function whose returned value classifies
Anything else is unrecognised (fail closed).
"""
import re

from . import mir, dom
from .callgraph import CallGraph

ELEMENTWISE = ("std::string::ToString::to_string", "std::clone::Clone::clone", "std::borrow::ToOwned::to_owned",
               "std::convert::From::from", "std::convert::Into::into", "std::string::String::from")
WRAPPERS = [
    r"^std::iter::Iterator::collect\((?P<x>.*)\)$",
    r"^std::iter::Iterator::cloned\((?P<x>.*)\)$",
    r"^std::iter::Iterator::copied\((?P<x>.*)\)$",
    r"^core::slice::<impl \[T\]>::iter\((?P<x>.*)\)$",
    r"^std::slice::<impl \[T\]>::to_vec\((?P<x>.*)\)$",
    r"^smallvec::SmallVec::<A>::iter\((?P<x>.*)\)$",
    r"^std::ops::Deref::deref\((?P<x>.*)\)$",
    r"^std::clone::Clone::clone\((?P<x>.*)\)$",
    r"^std::iter::IntoIterator::into_iter\((?P<x>.*)\)$",
    r"^smallvec::SmallVec::<A>::into_iter\((?P<x>.*)\)$",
    r"^smallvec::SmallVec::<A>::as_slice\((?P<x>.*)\)$",
    r"^std::convert::From::from\((?P<x>.*)\)$",
]
WRAPPER_HEADS = {
    "std::iter::Iterator::collect", "std::iter::Iterator::cloned", "std::iter::Iterator::copied", "core::slice::<impl [T]>::iter",
    "std::slice::<impl [T]>::to_vec", "smallvec::SmallVec::<A>::iter", "std::ops::Deref::deref", "std::clone::Clone::clone",
    "std::iter::IntoIterator::into_iter", "smallvec::SmallVec::<A>::into_iter", "smallvec::SmallVec::<A>::as_slice",
    "smallvec::SmallVec::<A>::into_vec", "smallvec::SmallVec::<A>::from_vec",
}
MUTATORS = ("push", "insert", "extend", "extend_from_slice", "append", "truncate", "remove", "swap_remove", "retain", "dedup",
            "reverse", "swap", "rotate_left", "rotate_right", "clear", "drain", "pop", "insert_many", "sort_by", "sort_by_key",
            "sort_unstable_by", "sort_unstable_by_key", "sort_by_cached_key", "resize", "fill", "as_mut_slice", "iter_mut")
SORTS = ("sort", "sort_unstable")


class Result:
    def __init__(self, ok, kind, why, chain=()):
        self.ok, self.kind, self.why, self.chain = ok, kind, why, tuple(chain)


class SortedNames:
    def __init__(self, fb):
        self.fb = fb
        self.cg = CallGraph(fb)
        self.orgs = {}
        self.memo = {}
        self.in_progress = set()

    def org(self, body):
        o = self.orgs.get(body["path"])
        if o is None:
            o = dom.Origins(body)
            self.orgs[body["path"]] = o
        return o

    # -- element-wise closures ------------------------------------------------------
    def closure_elementwise(self, term):
        t_ = term.strip()
        if t_.startswith("fn:") and t_[3:] in ELEMENTWISE:
            return True         # `.map(ToString::to_string)`: the conversion itself is the mapped function
        m = re.match(r"^(.*::\{closure#\d+\})\{.*\}$", term.strip())
        path = m.group(1) if m else None
        b = self.fb.bodies.get(path) if path else None
        if b is None:
            return False
        calls = [mir.callee_path(t) for _, t in mir.calls(b)]
        return len(calls) == 1 and calls[0] in ELEMENTWISE

    def closure_equality(self, term):
        """Is `<path>::{closure#N}{..}` a one-argument closure returning `element == captured value`?"""
        from .interp import Interp, Policy, Sym, show
        m = re.match(r"^(.*::\{closure#\d+\})\{.*\}$", term.strip())
        b = self.fb.bodies.get(m.group(1)) if m else None
        if b is None or b["arg_count"] != 2:
            return False
        ps = [p for p in Interp(self.fb, Policy()).run(b, [Sym("env"), Sym("elem")]) if p.status != "unreachable"]
        if len(ps) != 1 or ps[0].status != "return":
            return False
        s = show(ps[0].result)
        return bool(re.match(r"^std::cmp::PartialEq::eq\(elem, \.cap:\w+\(env\)\)$", s) or re.match(r"^std::cmp::PartialEq::eq\(\.cap:\w+\(env\), elem\)$", s)
                    or re.match(r"^binop:Eq\(elem, \.cap:\w+\(env\)\)$", s))

    # -- classification ---------------------------------------------------------------
    def classify(self, body, term, depth=0):
        key = (body["path"], term)
        if key in self.memo:
            return self.memo[key]
        if key in self.in_progress or depth > 12:
            return Result(True, "CYCLE", "recursive occurrence (assumed, checked at the other sites)")
        self.in_progress.add(key)
        r = self._classify(body, term, depth)
        self.in_progress.discard(key)
        self.memo[key] = r
        return r

    def _classify(self, body, term, depth):
        pt = dom.parse_term(term)
        # strip order-preserving, element-wise wrappers
        while isinstance(pt, tuple):
            head, args = pt
            if head == "std::iter::Iterator::map" and len(args) == 2:
                c = dom.unparse_term(args[1])
                if not self.closure_elementwise(c):
                    return Result(False, "MAP", "mapped through a closure that is not an element-wise to_string/clone: %s" % c[-60:])
                pt = args[0]
                continue
            if head in WRAPPER_HEADS and len(args) == 1:
                pt = args[0]
                continue
            break
        t = dom.unparse_term(pt)
        if isinstance(pt, tuple) and pt[0] in ("smallvec::SmallVec::<A>::new", "std::default::Default::default", "std::vec::Vec::<T>::new") and not pt[1]:
            return Result(True, "EMPTY", "empty list")
        if isinstance(pt, str) and pt.endswith(".var_names"):
            return Result(True, "COPY", "variable list of another expression: %s" % t[:80])
        if isinstance(pt, tuple) and pt[0] == "expression::Express::var_names" and len(pt[1]) == 1:
            return Result(True, "COPY", "variable list of another expression: %s" % t[:80])
        if isinstance(pt, str):
            m = re.match(r"^var:(\S+)$", pt)
            if m:
                return self.sorted_local(body, m.group(1))
            m = re.match(r"^param:(\S+)$", pt)
            if m:
                return self.param(body, m.group(1), depth)
        if isinstance(pt, tuple) and pt[0] in self.fb.bodies:
            return self.returned(self.fb.bodies[pt[0]], depth)
        return Result(False, "UNKNOWN", "origin not recognised: %s" % t[:140])

    def returned(self, callee, depth):
        org = self.org(callee)
        outs = []
        for bi, si, st in mir.iter_stmts(callee, mir.normal_blocks(callee)):
            if st["k"] == "assign" and st["place"]["local"] == 0 and not st["place"]["proj"]:
                outs.append(org.rv_term(st["rv"]))
        for bi, t in mir.calls(callee):
            if t["dest"]["local"] == 0 and not t["dest"]["proj"]:
                f = t["func"]
                outs.append("%s(%s)" % (f.get("path", "fnptr"), ", ".join(org.op_term(a) for a in t["args"])))
        if not outs:
            return Result(False, "CALL", "%s: returned value not found" % callee["path"])
        for o in outs:
            r = self.classify(callee, o, depth + 1)
            if not r.ok:
                return Result(False, "CALL", "%s returns %s" % (callee["path"], r.why), (callee["path"],) + r.chain)
        return Result(True, "CALL", "result of %s" % callee["path"])

    def param(self, body, pname, depth):
        # index of the parameter
        org = self.org(body)
        idx = None
        for i in range(1, body["arg_count"] + 1):
            if org.name(i) == pname or str(i) == pname:
                idx = i
        if idx is None:
            return Result(False, "PARAM", "parameter %s not found" % pname)
        target = body["path"]
        callers = self.cg.callers_of(target)
        sites = 0
        for c in callers:
            cb = self.fb.bodies[c]
            corg = self.org(cb)
            for bi, t in mir.calls(cb):
                f = t["func"]
                if f.get("k") != "fndef":
                    continue
                tgts = self.cg.resolve_trait_call(f, cb) if f.get("trait") else ([f["path"]] if f.get("local") else [])
                if target not in tgts:
                    continue
                if idx - 1 >= len(t["args"]):
                    continue
                sites += 1
                at = corg.op_term(t["args"][idx - 1])
                r = self.classify(cb, at, depth + 1)
                if not r.ok:
                    return Result(False, "PARAM", "call site in %s passes %s" % (c, r.why), (c,) + r.chain)
        note = "all %d crate-local call sites pass a sorted, duplicate-free list" % sites
        if body.get("public") and sites == 0:
            note += " (public, no crate-local caller)"
        return Result(True, "PARAM", note)

    # -- SORTED local --------------------------------------------------------------------
    def sorted_local(self, body, vname):
        org = self.org(body)
        li = org.local_by_name(vname)
        if li is None:
            return Result(False, "SORTED", "local %s not found" % vname)
        me = "var:%s" % vname
        # bodies in which the variable may be mutated: this one and closures capturing it mutably
        events = []   # (kind, block, body, term)

        def scan(b, self_term):
            o = self.org(b)
            for bi, t in mir.calls(b):
                cp = mir.callee_path(t) or ""
                nm = t["func"].get("name") if t["func"].get("k") == "fndef" else None
                if not t["args"]:
                    continue
                a0 = o.op_term(t["args"][0])
                a0 = re.sub(r"^std::ops::DerefMut::deref_mut\((.*)\)$", r"\1", a0)
                a0 = re.sub(r"^std::ops::Deref::deref\((.*)\)$", r"\1", a0)
                if a0 != self_term:
                    continue
                if nm in SORTS and re.search(r"slice::<impl \[T\]>::sort(_unstable)?$", cp):
                    events.append(("sort", bi, b, t))
                elif nm in MUTATORS:
                    events.append((nm, bi, b, t))
        scan(body, me)
        for cp in self.fb.closures_of(body["path"]):
            cb = self.fb.bodies[cp]
            # captured by (mutable) reference: appears as param:<env>.cap:<name>
            env = self.org(cb).name(1) or "1"
            base = vname.split("#")[0]
            scan(cb, "param:%s.cap:%s" % (env, base))
        sorts = [e for e in events if e[0] == "sort" and e[2] is body]
        if not sorts:
            return Result(False, "SORTED", "list %s is never sorted in natural order in %s" % (vname, body["path"]))
        others = [e for e in events if e[0] != "sort"]
        # no mutation after the (last) sort: nothing mutating is reachable from the sort block
        sb = sorts[-1][1]
        after = mir.reach_from(body, sb)
        for e in others:
            if e[2] is body and e[1] in after and e[1] != sb:
                return Result(False, "SORTED", "list %s is modified by %s after it was sorted" % (vname, e[0]))
            if e[2] is not body:
                # closure: must not be *called* after the sort; approximate by: the closure value is not used after the sort
                pass
        for e in others:
            if e[0] != "push":
                return Result(False, "SORTED", "list %s is modified by %s (only guarded push + sort are accepted)" % (vname, e[0]))
            b, bi, t = e[2], e[1], e[3]
            o = self.org(b)
            selfterm = re.sub(r"^std::ops::DerefMut::deref_mut\((.*)\)$", r"\1", o.op_term(t["args"][0]))
            guarded = False
            for (s, lab, term, span) in dom.dominating_guards(b, bi, o):
                if lab is not False or selfterm.split("param:")[-1].split(".cap:")[-1] not in term:
                    continue
                if re.search(r"slice::<impl \[T\]>::contains\(", term) or re.search(r"SmallVec::<A>::contains\(|Vec::<T, A>::contains\(", term):
                    guarded = True      # std membership by equality
                elif re.search(r"Iterator::any\(", term):
                    # the predicate must be an EQUALITY test of the element (substring / prefix tests lose names)
                    pt = dom.parse_term(term)
                    cl = dom.unparse_term(pt[1][1]) if isinstance(pt, tuple) and len(pt[1]) == 2 else ""
                    if self.closure_equality(cl):
                        guarded = True
            if not guarded:
                return Result(False, "SORTED", "a push into %s is not guarded by a negative membership test (duplicates possible)" % vname)
        return Result(True, "SORTED", "sorted in natural order after %d guarded push site(s) in %s" % (len(others), body["path"]))


def var_names_sites(fb):
    """Every store into a var_names field of FlatEx / DeepEx: (body, block, kind, value term, span)."""
    out = []
    for p, b in fb.bodies.items():
        org = None
        for bi, si, st in mir.iter_stmts(b, mir.normal_blocks(b)):
            if st["k"] != "assign":
                continue
            rv, pl = st["rv"], st["place"]
            if rv["k"] == "aggregate" and rv.get("agg") == "adt" and (rv["adt"].endswith("flat::FlatEx") or rv["adt"].endswith("deep::DeepEx")) \
                    and "var_names" in rv["fields"]:
                org = org or dom.Origins(b)
                out.append((b, bi, "init", org.op_term(rv["ops"][rv["fields"].index("var_names")]), st["span"]))
            elif pl["proj"] and pl["proj"][-1]["k"] == "field" and pl["proj"][-1]["name"] == "var_names" and \
                    re.search(r"(FlatEx|DeepEx)$", pl["proj"][-1].get("owner") or ""):
                org = org or dom.Origins(b)
                out.append((b, bi, "assign", org.rv_term(rv), st["span"]))
        for bi, t in mir.calls(b):
            cp = mir.callee_path(t) or ""
            if t["args"]:
                org = org or dom.Origins(b)
                a0 = org.op_term(t["args"][0])
                if a0.endswith(".var_names") and "Mut" in _borrow_kind(b, t["args"][0]):
                    if cp.endswith("clone_from") and len(t["args"]) == 2:
                        out.append((b, bi, "clone_from", org.op_term(t["args"][1]), t["span"]))
                    else:
                        out.append((b, bi, "mutated-by:" + cp, "?", t["span"]))
    return out


def _borrow_kind(body, op):
    if op.get("k") not in ("move", "copy"):
        return ""
    defs = mir.local_defs(body).get(op["place"]["local"], [])
    if len(defs) == 1 and defs[0][0] == "stmt" and defs[0][3]["k"] == "ref":
        return defs[0][3]["borrow"]
    return ""
