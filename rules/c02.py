"""C02 — Constant folding never changes what an expression computes (structural clauses of the two folding loops)."""
import re

from analysis import mir, rel, loops
from analysis.facts import loc
from analysis.interp import Interp, Policy, Sym, App, Const, Variant, Tup, Closure, Unknown, show
from analysis.dispatch import subterms

LEVEL = "other"
TECHNIQUE = ("loop summaries by abstract interpretation over MIR: the general trip of each folding loop (every loop-carried local unknown) "
             "is read as a guarded transfer function - DECIDE on its decisions (when is an operator folded), TERM on the value written "
             "(which operator, which operands, in which order), and effect rules on the bookkeeping writes and calls of the same trip")
EXPLANATION = (
    "Both folding loops (FlatEx::compile, DeepEx::compile) visit the binary operators in application order and replace "
    "`literal op literal` by its value. Decided for every expression and operator table, from the general trip of each loop: "
    "(R02.1) the value written is the visited operator itself applied to the literal at the operator's position and the literal "
    "right of it, in that order (flat: followed by the same operator's unary composition), and it is written at the operator's "
    "position; (R02.2) an operator is folded only if both operands are literals, the right one has not been claimed by an operator "
    "that was visited earlier and not folded, and the left one is either unclaimed or claimed by a left neighbour that is the same "
    "commutative operator of the same priority (the only regrouping that preserves the value, cf. C01 R01.3); (R02.3) an operator "
    "that is visited and not folded claims both of its operands - otherwise an operator visited later folds a literal that is "
    "consumed earlier at evaluation time; (R02.4) after a fold the right operand and its claim flag are removed, every remembered "
    "position right of it moves left by one, the per-operator table that (R02.2) consults stays aligned, and the operator is "
    "recorded as used; (R02.5) afterwards exactly the recorded operators are dropped from the operator list (deep: names in "
    "lockstep), and the flat form recomputes the application order from the new lists; (R02.6) the flat form applies a literal's "
    "own unary composition exactly once before folding and resets it. "
    "Not decided: that the claim discipline is also sufficient for every interleaving of priorities and parenthesis depths (that "
    "is the algorithmic remainder of C02; C01 R01.1-R01.4 decide the visiting order it relies on), floating-point identity of "
    "regrouped commutative chains, and the folding shortcuts of operator application on expressions (C10 R10.1)."
)
TRUSTED = ["rustc MIR construction", "exporter faithfulness", "C01 R01.1-R01.4 (visiting order)", "std: SmallVec::remove/push, Iterator::filter/enumerate/contains semantics"]

IDX = ("std::ops::Index::index", "index")
IDXM = ("std::ops::IndexMut::index_mut",)


class _P(Policy):
    """Private methods of the expression type itself are inlined (compile may be split into steps); everything else,
    in particular the ordering functions and the printer, stays a call."""
    loop_mode = "widen"
    max_depth = 4
    max_paths = 8000

    def inline(self, fn, args, interp, path):
        b = interp.callee_body(fn)
        root = path.frames[0].body
        if b is None:
            return False
        # "apply the flat operator" = its unary composition applied to its binary operator: a small method of the operator type
        if b.get("kind") == "AssocFn" and "FlatOp<" in (b.get("impl_self_ty") or "") and b.get("name") == "apply" and len(b["blocks"]) <= 12:
            return True
        # a shared helper for the position bookkeeping (`shift_down_after(&mut positions, removed)`)
        if b.get("kind") == "Fn" and len(b["blocks"]) <= 40 and b["path"].startswith("expression::") and any(
                re.match(r"^&mut (\[usize\]|smallvec::SmallVec<\[usize;|std::vec::Vec<usize)", b["locals"][i]["ty"]) for i in range(1, b["arg_count"] + 1)):
            return True
        return b.get("kind") == "AssocFn" and b.get("impl_self_ty") and b.get("impl_self_ty") == root.get("impl_self_ty") \
            and not str(b.get("vis", "")).startswith("Public") and b.get("name") != root.get("name")


def _strip_kind(v):
    v = rel.canon(v)
    if isinstance(v, App) and v.fn == ".kind" and len(v.args) == 1:
        return v.args[0]
    return v


def _node_at(v):
    """(container term, index term) for nodes[idx] (through `.kind`)"""
    v = _strip_kind(v)
    if isinstance(v, App) and v.fn in IDX + IDXM and len(v.args) == 2:
        c = rel.canon(v.args[0])
        if isinstance(c, App) and c.fn == ".nodes":
            return c, rel.canon(v.args[1])
    return None


def _root(v):
    """the vector a chain of in-place updates started from"""
    v = rel.canon(v)
    while isinstance(v, App) and v.fn.startswith("mut:") and v.args:
        v = rel.canon(v.args[0])
    return v


def _plus1(a, b):
    """b == a + 1"""
    if isinstance(b, App) and b.fn == "binop:Add" and len(b.args) == 2:
        for x, y in (b.args, b.args[::-1]):
            if rel.canon(x).key() == a.key() and rel.const_int(y) == 1:
                return True
    return False


def _minus1(a, b):
    """b == a - 1"""
    return isinstance(b, App) and b.fn == "binop:Sub" and len(b.args) == 2 and rel.canon(b.args[0]).key() == a.key() and rel.const_int(b.args[1]) == 1


class Trip:
    pass


def analyse(fb, body):
    """Summaries of the folding loop of `body`: list of Trip (one per distinct general trip) or an error string."""
    allp = Interp(fb, _P()).run(body, [Sym("self_")])
    bad = [p for p in allp if p.status not in ("return", "loop-pruned", "unreachable")]
    if bad:
        return None, "shape: %s" % [(p.status, p.note) for p in bad][:2], allp
    gen = {}
    for p in allp:
        for t in loops.all_trips(p):
            if t.general and t.post is not None:
                key = ((t.body_path, t.header), tuple((rel.cstr(d[1]), str(d[2])) for d in t.decisions),
                       tuple((e[0], show(e[1])[:200] if not isinstance(e[1], str) else e[1]) for e in t.events if e[0] in ("write_opaque", "call")))
                gen.setdefault(key, t)
    # the folding loop: its trips test the kind of two adjacent nodes
    heads = {}
    for t in gen.values():
        idxs = []
        for d in t.decisions:
            if isinstance(d[1], App) and d[1].fn == "discr":
                na = _node_at(d[1].args[0])
                if na:
                    idxs.append(na[1])
        if idxs:
            heads.setdefault((t.body_path, t.header), []).append((t, idxs))
    cand = [h for h, ts in heads.items() if any(any(_plus1(a, b) for a in ix for b in ix) for _, ix in ts)]
    if len(cand) != 1:
        return None, "no unique loop testing two adjacent nodes (%s)" % sorted(heads), allp
    H = cand[0]
    out = []
    for t, idxs in heads[H]:
        s = Trip()
        s.t = t
        s.pos = idxs[0]
        s.n1 = s.n2 = None
        s.d = {}            # "pos"/"pos1" -> bool decided
        s.extra = []
        s.marks = set()
        s.fold = None
        s.calls = []
        for d in t.decisions:
            c = rel.canon(d[1])
            if isinstance(c, App) and c.fn == "discr":
                na = _node_at(c.args[0])
                if na:
                    if na[1].key() == s.pos.key():
                        s.n1 = d[2] == "Num"
                    elif _plus1(s.pos, na[1]):
                        s.n2 = d[2] == "Num"
                    else:
                        s.extra.append(d)
                    continue
                if "Iterator::next(" in show(c):
                    continue
            if isinstance(c, App) and c.fn in IDX and len(c.args) == 2 and d[2] in (True, False) and isinstance(_root(c.args[0]), Unknown):
                ix = rel.canon(c.args[1])
                which = "pos" if ix.key() == s.pos.key() else ("pos1" if _plus1(s.pos, ix) else None)
                if which:
                    s.d[which] = (d[2], _root(c.args[0]))
                    continue
            s.extra.append(d)
        for e in t.events:
            if e[0] == "write_opaque":
                base, val = rel.canon(e[1]), e[3]
                if isinstance(base, App) and base.fn in IDXM and len(base.args) == 2:
                    ix = rel.canon(base.args[1])
                    which = "pos" if ix.key() == s.pos.key() else ("pos1" if _plus1(s.pos, ix) else None)
                    tgt = rel.canon(base.args[0])
                    if isinstance(tgt, App) and tgt.fn == ".nodes":
                        s.fold = (which, val, e[2])
                    elif isinstance(val, Const) and val.ty == "bool" and val.bits == 1 and which:
                        s.marks.add((which, _root(base.args[0]).key()))
                    else:
                        s.calls.append(("write", show(base)[:120], show(val)[:80]))
            elif e[0] == "call":
                s.calls.append((e[1], e[2], e[3]))
        out.append(s)
    return (H, out), None, allp


def _find_apply(v):
    """the binary application inside the folded value: (whole chain outermost first, op term, a, b)"""
    found = []
    for s in subterms(v):
        if isinstance(s, App) and s.fn.endswith("::apply") and len(s.args) == 3:
            found.append(s)
    return found


def _op_index(op):
    """ops[K] (through .bin_op): (container string, K)"""
    o = rel.canon(op)
    if isinstance(o, App) and o.fn == ".bin_op" and len(o.args) == 1:
        o = o.args[0]
    if isinstance(o, App) and o.fn in IDX and len(o.args) == 2:
        return rel.cstr(o.args[0]), rel.canon(o.args[1])
    return None


def check_loop(chk, fb, body, flavour):
    name = "FlatEx::compile" if flavour == "flat" else "DeepEx::compile"
    where = loc(body["span"])
    res, err, allp = analyse(fb, body)
    if err:
        chk.unrecognised("R02.1", "loop:%s" % flavour, "%s: %s" % (name, err), where)
        return None
    H, trips = res
    folds = [s for s in trips if s.fold is not None]
    nofold = [s for s in trips if s.fold is None]
    if not folds or not nofold:
        chk.unrecognised("R02.1", "loop:%s" % flavour, "%s: %d folding and %d non-folding trips found" % (name, len(folds), len(nofold)), where)
        return None
    chk.counts["%s_trips" % flavour] = len(trips)
    # the claim vector: the one the non-folding trips mark
    dkeys = {k for s in nofold for (_, k) in s.marks}
    # ---- R02.1 value and place of a fold
    ok1 = True
    K = None
    for s in folds:
        which, val, _ = s.fold
        apps = _find_apply(val)
        if which != "pos" or len(apps) != 1:
            chk.violation("R02.1", "fold-value:%s" % flavour, "%s writes the folded value at %s / contains %d binary applications: %s" % (name, which, len(apps), show(val)[:140]), where)
            ok1 = False
            continue
        ap = apps[0]
        oi = _op_index(ap.args[0])
        a, b = rel.canon(ap.args[1]), rel.canon(ap.args[2])

        def lit_at(x, plus):
            # payload of the Num at nodes[pos (+1)]
            if isinstance(x, App) and x.fn == ".0" and isinstance(x.args[0], App) and x.args[0].fn == "as:Num":
                na = _node_at(x.args[0].args[0])
                if na:
                    return _plus1(s.pos, na[1]) if plus else na[1].key() == s.pos.key()
            return False
        if not (lit_at(a, False) and lit_at(b, True)):
            chk.violation("R02.1", "operands:%s" % flavour, "%s folds op(%s, %s): expected the literal at the operator's position and the literal right of it, in this order" % (
                name, show(a)[:70], show(b)[:70]), where)
            ok1 = False
            continue
        if oi is None:
            chk.unrecognised("R02.1", "operator:%s" % flavour, "%s: folded operator is not an element of the operator list: %s" % (name, show(ap.args[0])[:100]), where)
            ok1 = False
            continue
        # the operator index is the one the loop visits (an element of the iterated order, not a position)
        if "Iterator::next(" not in show(oi[1]) or oi[1].key() == s.pos.key():
            chk.violation("R02.1", "operator:%s" % flavour, "%s folds with operator %s, which is not the operator being visited" % (name, show(oi[1])[:100]), where)
            ok1 = False
            continue
        K = oi[1]
        if flavour == "flat":
            un = [x for x in subterms(val) if isinstance(x, App) and x.fn.endswith("UnaryOp::<T>::apply") and len(x.args) == 2]
            good = len(un) == 1 and rel.canon(un[0].args[1]).key() == rel.canon(ap).key()
            if good:
                u = rel.canon(un[0].args[0])
                good = isinstance(u, App) and u.fn == ".unary_op" and isinstance(u.args[0], App) and u.args[0].fn in IDX and \
                    rel.cstr(u.args[0].args[0]) == oi[0] and rel.canon(u.args[0].args[1]).key() == K.key()
            if not good:
                chk.violation("R02.1", "unary:%s" % flavour, "%s does not apply the folded operator's own unary composition to the result: %s" % (name, show(val)[:160]), where)
                ok1 = False
    if ok1:
        chk.ok("R02.1", "%s: fold = visited operator applied to (literal at its position, literal right of it)%s" % (name, ", then its unary" if flavour == "flat" else ""), "%d folding trips" % len(folds), where)
    # ---- R02.2 fold condition
    ok2 = True
    table = None
    for s in folds:
        if not (s.n1 is True and s.n2 is True):
            chk.violation("R02.2", "literals:%s" % flavour, "%s folds without having tested that both operands are literals" % name, where)
            ok2 = False
            continue
        d1, d2 = s.d.get("pos"), s.d.get("pos1")
        if not (d2 and d2[0] is False):
            chk.violation("R02.2", "right-claim:%s" % flavour, "%s folds although the right operand may already be claimed by an operator that was not folded" % name, where)
            ok2 = False
            continue
        if d1 and d1[0] is False:
            continue
        # left operand claimed: only legal for a chain of one commutative operator
        rg = regroup_guard(s, fb)
        if rg is None:
            chk.violation("R02.2", "left-claim:%s" % flavour, "%s folds although the left operand is claimed by the operator to its left, without establishing that both are the same commutative operator of one priority (decisions: %s)" % (
                name, [(rel.cstr(d[1])[:70], d[2]) for d in s.extra][:4]), where)
            ok2 = False
        else:
            table = rg
            tok, twhy = table_definition_ok(fb, body, allp, rg, s.table_field)
            if not tok:
                chk.violation("R02.2", "operator-table:%s" % flavour, "%s: the table consulted for `same commutative operator of the same priority` does not hold (priority, operator id, commutativity) of every operator with the flag in the tested field: %s" % (name, twhy), where)
                ok2 = False
    if ok2:
        chk.ok("R02.2", "%s: folds only unclaimed literals%s" % (name, " (left claim by the same commutative operator excepted)" if table is not None else ""), "", where)
    # ---- R02.3 an operator that is not folded claims both operands
    ok3 = True
    if len(dkeys) != 1:
        chk.unrecognised("R02.3", "claims:%s" % flavour, "%s: claim vector not identified (%d candidates)" % (name, len(dkeys)), where)
        ok3 = False
    else:
        dk = next(iter(dkeys))
        for s in nofold:
            have = {w for (w, k) in s.marks if k == dk}
            # a claim that is known to be set already need not be written again
            for w in ("pos", "pos1"):
                dv = s.d.get(w)
                if dv and dv[0] is True and dv[1].key() == dk:
                    have.add(w)
            if have != {"pos", "pos1"}:
                cond = [(short(d[1], s.pos), d[2]) for d in s.t.decisions if not rel.cstr(d[1]).startswith("discr(std::iter::Iterator::next(")]
                chk.violation("R02.3", "unclaimed:%s" % flavour, "%s: an operator that is visited and not folded leaves %s unclaimed; an operator visited later can fold that literal although it is consumed earlier at evaluation time. Trip: %s" % (
                    name, sorted({"pos": "its left operand", "pos1": "its right operand"}[w] for w in {"pos", "pos1"} - have), cond[-6:]), where)
                ok3 = False
                break
    if ok3:
        chk.ok("R02.3", "%s: every operator that is not folded claims both operands" % name, "%d non-folding trips" % len(nofold), where)
    # ---- R02.4 bookkeeping of a fold
    ok4 = True
    for s in folds:
        rem = [(rel.canon(c[1][0]), rel.canon(c[1][1])) for c in s.calls if isinstance(c[0], str) and c[0].endswith("::remove") and len(c[1]) == 2]
        push = [(rel.canon(c[1][0]), rel.canon(c[1][1])) for c in s.calls if isinstance(c[0], str) and c[0].endswith("::push") and len(c[1]) == 2]
        node_rm = [r for r in rem if isinstance(r[0], App) and r[0].fn == ".nodes" and _plus1(s.pos, r[1])]
        claim_rm = [r for r in rem if len(dkeys) == 1 and _root(r[0]).key() == next(iter(dkeys)) and _plus1(s.pos, r[1])]
        used = [p for p in push if K is not None and p[1].key() == K.key()]
        miss = []
        if len(node_rm) != 1:
            miss.append("remove the right operand node")
        if len(claim_rm) != 1:
            miss.append("remove the right operand's claim flag")
        if len(used) != 1:
            miss.append("record the operator as used")
        other = [r for r in rem if r not in node_rm and r not in claim_rm]
        if table is not None:
            tr = [r for r in other if _root(r[0]).key() == table.key() and r[1].key() == s.pos.key()]
            if len(tr) != 1:
                miss.append("remove the folded operator's entry from the per-operator table consulted by the fold condition")
        # positions right of the fold move left by one: the nested loop's trips
        if not shifts_positions(s, allp, body, fb):
            miss.append("decrement every remembered position that is greater than the fold position")
        if miss:
            chk.violation("R02.4", "bookkeeping:%s" % flavour, "%s: a fold does not %s" % (name, "; ".join(miss)), where)
            ok4 = False
    if ok4:
        chk.ok("R02.4", "%s: fold bookkeeping (node, claim flag, positions, used operator%s)" % (name, ", operator table" if table is not None else ""), "", where)
    return {"K": K, "allp": allp}


def short(term, pos):
    """readable rendering of a trip condition: the operator's position is written `n`"""
    s = rel.cstr(term)
    s = s.replace(rel.cstr(pos), "n")
    s = re.sub(r"⊤\(loop:\w+:bb\d+:_(\d+)\)", r"v\1", s)
    s = s.replace("std::ops::Index::index", "idx").replace("std::ops::IndexMut::index_mut", "idx_mut")
    return s[:110]


def regroup_guard(s, fb):
    """`left operand claimed` is tolerated when the trip establishes: pos > 0, TABLE[pos-1] == TABLE[pos] and TABLE[pos]
    is commutative, TABLE being a per-operator table of (priority, operator id, commutativity). Returns TABLE's root or None."""
    F = rel.Facts(type("P", (), {"decisions": s.extra})())
    pos_gt0 = any((op == "<" and rel.const_int(a) == 0 and b.key() == s.pos.key()) or (op == "<=" and rel.const_int(a) == 1 and b.key() == s.pos.key()) or
                  (op == "!=" and {rel.const_int(a), rel.const_int(b)} & {0} and (a.key() == s.pos.key() or b.key() == s.pos.key())) for a, op, b in F.rel)
    if not pos_gt0:
        return None
    table = None
    for a, op, b in F.rel:
        if op != "==":
            continue
        for x, y in ((a, b), (b, a)):
            if isinstance(x, App) and x.fn in IDX and isinstance(y, App) and y.fn in IDX and rel.canon(x.args[0]).key() == rel.canon(y.args[0]).key() \
                    and rel.canon(y.args[1]).key() == s.pos.key() and _minus1(s.pos, rel.canon(x.args[1])):
                table = _root(x.args[0])
    if table is None:
        return None
    comm = False
    for tterm, lab in F.true:
        # TABLE[pos].<commutativity field> is true
        if lab is True and isinstance(tterm, App) and tterm.fn.startswith(".") and isinstance(tterm.args[0], App) and tterm.args[0].fn in IDX \
                and _root(tterm.args[0].args[0]).key() == table.key():
            ix = rel.canon(tterm.args[0].args[1])
            if ix.key() == s.pos.key() or _minus1(s.pos, ix):
                comm = tterm.fn
    if not comm:
        return None
    # the table: one entry per operator with priority, operator id and commutativity, commutativity in the field tested
    s.table_field = comm
    return table


def table_definition_ok(fb, body, allp, table, field):
    """The per-operator table holds (priority, operator id, is_commutative) of every operator, `field` being the flag."""
    for p in allp:
        for t in loops.all_trips(p):
            lu = loops.loop_unknown(table)
            if lu is None or t.header != lu[2] or t.body_path.split("::")[-1] != lu[0] or lu[1] not in t.pre or t.general:
                continue
            v = t.pre[lu[1]]
            for s_ in subterms(v):
                if isinstance(s_, Closure) and s_.path in fb.bodies:
                    cb = fb.bodies[s_.path]
                    ps = [q for q in Interp(fb, _P()).run(cb, [s_] + [Sym("o")] * (cb["arg_count"] - 1)) if q.status == "return"]
                    res_ = ps[0].result if len(ps) == 1 else None
                    if isinstance(res_, Tup) or (isinstance(res_, Variant) and res_.variant is None and res_.fields):
                        # a tuple, or a small private struct with named fields
                        if isinstance(res_, Tup):
                            el = [rel.cstr(e) for e in res_.elems]
                            want_i = int(field[1:]) if field[1:].isdigit() else None
                            flag = el[want_i] if want_i is not None and want_i < len(el) else None
                        else:
                            el = [rel.cstr(e) for e in res_.fields.values()]
                            flag = rel.cstr(res_.fields[field[1:]]) if field[1:] in res_.fields else None
                        has = {"prio": any(re.search(r"\.prio\(\.op\(o\)\)$", e) for e in el), "idx": any(re.search(r"^\.idx\(o\)$", e) for e in el),
                               "comm": flag is not None and re.search(r"\.is_commutative\(\.op\(o\)\)$", flag) is not None}
                        src = show(v)
                        if all(has.values()) and ".ops(.bin_ops(" in src:
                            return True, str(el)
                        return False, "entries are %s" % el
            return False, "table is %s" % show(v)[:120]
    return False, "table definition not found"


def shifts_positions(s, allp, body, fb=None):
    """Inside the folding trip the remembered positions are visited and exactly those > pos are decremented: a nested
    loop (its own general trip), or `iter_mut().filter(|x| **x > pos).for_each(|x| *x -= 1)`."""
    seen_dec = seen_keep = False
    for p in allp:
        for t in loops.all_trips(p):
            if (t.body_path, t.header) == (s.t.body_path, s.t.header) or not t.general or t.post is None:
                continue
            F = rel.Facts(type("P", (), {"decisions": t.decisions})())
            writes = [e for e in t.events if e[0] == "write_opaque"]
            gt = [(a, b) for a, op, b in F.rel if op == "<"]      # a < b
            le = [(a, b) for a, op, b in F.rel if op == "<="]     # a <= b
            for a, b in gt:
                # pos < item  => item := item - 1
                if a.key() == s.pos.key() and "Iterator::next(" in show(b) and len(writes) == 1 and rel.canon(writes[0][1]).key() == b.key() and _minus1(b, rel.canon(writes[0][3])):
                    seen_dec = True
            for a, b in le:
                # item <= pos => untouched
                if b.key() == s.pos.key() and "Iterator::next(" in show(a) and not writes:
                    seen_keep = True
    if seen_dec and seen_keep:
        return True
    # iterator idiom inside the folding trip
    if fb is None:
        return False
    for e in s.t.events:
        if e[0] != "call" or e[1] != "std::iter::Iterator::for_each" or len(e[2]) != 2:
            continue
        src, dec = rel.canon(e[2][0]), e[2][1]
        if not (isinstance(src, App) and src.fn == "std::iter::Iterator::filter" and len(src.args) == 2 and isinstance(src.args[1], Closure) and isinstance(dec, Closure)):
            continue
        if "iter_mut(" not in rel.cstr(src.args[0]):
            continue
        fcb, dcb = fb.bodies.get(src.args[1].path), fb.bodies.get(dec.path)
        if fcb is None or dcb is None:
            continue
        fps = [q for q in Interp(fb, _P()).run(fcb, [src.args[1], Sym("item")]) if q.status == "return"]
        dps = [q for q in Interp(fb, _P()).run(dcb, [dec, Sym("item")]) if q.status == "return"]
        if len(fps) != 1 or len(dps) != 1:
            continue
        r = rel.canon(fps[0].result)
        good_f = isinstance(r, App) and r.fn in rel._CMP and len(r.args) == 2
        if good_f:
            op = rel._CMP[r.fn]
            x, y = r.args
            if op in (">", ">="):
                x, y, op = y, x, {">": "<", ">=": "<="}[op]
            good_f = op == "<" and rel.cstr(x) == rel.cstr(s.pos) and rel.cstr(y) == "item"
        wr = [w for w in dps[0].events if w[0] == "write_opaque"]
        good_d = len(wr) == 1 and rel.cstr(wr[0][1]) == "item" and rel.cstr(wr[0][3]) == "binop:Sub(item, 1_usize)"
        if good_f and good_d:
            return True
    return False


def _retains(p, flavour):
    pat = r"\.flat_ops\(" if flavour == "flat" else r"\.ops\(\.bin_ops\("
    return [e for e in p.events if e[0] == "call" and e[1].rsplit("::", 1)[-1] == "retain" and len(e[2]) == 2 and re.search(pat, show(e[2][0])) and isinstance(e[2][1], Closure)]


def _retain_idiom(fb, p, rets, flavour):
    rs = _retains(p, flavour)
    used_terms = set()
    for q in rets:
        for e in _retains(q, flavour):
            used_terms |= {show(v) for v in e[2][1].caps.values()}
    if not rs:
        # skipped: only under `used.is_empty()`
        for d in p.decisions:
            c = rel.canon(d[1])
            if isinstance(c, App) and c.fn.endswith("::is_empty") and d[2] is True and show(c.args[0]) in used_terms:
                return True, ""
        return False, "no retain and no `used.is_empty()` on this path"
    if len(rs) != 1:
        return False, "%d retain calls" % len(rs)
    cl = rs[0][2][1]
    cnt = [k for k, v in cl.caps.items() if rel.const_int(v) == 0]
    oth = [k for k in cl.caps if k not in cnt]
    cb = fb.bodies.get(cl.path)
    if len(cnt) != 1 or len(oth) != 1 or cb is None:
        return False, "retain predicate does not capture (counter starting at 0, record of used operators)"
    env = Closure(cl.path, {cnt[0]: Sym("CNT"), oth[0]: Sym("USED")})
    ps = [q for q in Interp(fb, _P()).run(cb, [env, Sym("item")]) if q.status != "unreachable"]
    if len(ps) != 1 or ps[0].status != "return":
        return False, "retain predicate is not straight-line"
    r = rel.canon(ps[0].result)
    wr = [w for w in ps[0].events if w[0] == "write_opaque"]
    okp = isinstance(r, App) and r.fn == "unop:Not" and isinstance(r.args[0], App) and r.args[0].fn.endswith("::contains") and \
        [rel.cstr(x) for x in r.args[0].args] == ["USED", "CNT"]
    okw = len(wr) == 1 and rel.cstr(wr[0][1]) == "CNT" and rel.cstr(wr[0][3]) in ("binop:Add(CNT, 1_usize)", "binop:AddWithOverflow(CNT, 1_usize)")
    if okp and okw:
        return True, ""
    return False, "retain predicate is not `!used.contains(&i)` with i counting the calls: %s / %s" % (show(r)[:80], [(show(w[1]), show(w[3])) for w in wr][:2])


def _kept_by_loop(allp, body, unk, flavour):
    fn, L, H = loops.loop_unknown(unk)
    src_rx = r"\.flat_ops\(" if flavour == "flat" else r"\.ops\(\.bin_ops\("
    kept = dropped = False
    for p in allp:
        for t in loops.trips(p, body["path"]):
            if t.header != H:
                continue
            if not t.general:
                init = t.pre.get(L)
                if init is not None and "⊤(loop:" not in show(init) and loops.seq_parts(init) != []:
                    return False, "the new list does not start empty"
                for k, v in t.pre.items():
                    sv = show(v)
                    if "Iterator::enumerate(" in sv and "⊤(loop:%s" % fn not in sv:
                        parts = loops.seq_parts(v)
                        if not (len(parts) == 1 and parts[0][0] == "src" and parts[0][2] == "fwd" and re.search(src_rx, parts[0][1]) and re.match(r"^(\.\w+\()+[\w⊤:()]+\)+$", parts[0][1]) and "Iterator::" not in parts[0][1]):
                            return False, "the loop does not enumerate the operator list in order: %s" % parts
                continue
            if t.post is None or L not in t.pre or L not in t.post:
                continue
            its = [k for k, v in t.pre.items() if isinstance(v, Unknown) and any(show(d[1]) == "discr(std::iter::Iterator::next(%s))" % show(v) for d in t.decisions)]
            if len(its) != 1:
                return False, "iterator of the loop not identified"
            item = ".0(as:Some(std::iter::Iterator::next(%s)))" % show(t.pre[its[0]])
            used = None
            for d in t.decisions:
                c = rel.canon(d[1])
                if isinstance(c, App) and c.fn.endswith("::contains") and len(c.args) == 2 and rel.cstr(c.args[1]) == rel.cstr_of(".0(%s)" % item) if hasattr(rel, "cstr_of") else (isinstance(c, App) and c.fn.endswith("::contains") and len(c.args) == 2 and show(c.args[1]).replace(" ", "") == (".0(%s)" % item).replace(" ", "")):
                    used = bool(d[2])
            post = show(t.post[L])
            pre = show(t.pre[L])
            if used is None:
                return False, "a step does not test `used.contains(index)`"
            if used:
                if post != pre:
                    return False, "an operator recorded as used is kept"
                dropped = True
            else:
                if not re.match(r"^mut:.*::push\(%s, (std::clone::Clone::clone\()?\.1\(%s\)\)?\)$" % (re.escape(pre), re.escape(item)), post):
                    return False, "an operator not recorded as used is not kept as it is: %s" % post[:100]
                kept = True
    if kept and dropped:
        return True, ""
    return False, "keep / drop steps not both found"


def check_after(chk, fb, body, flavour, info):
    """R02.5: exactly the used operators are dropped afterwards."""
    name = "FlatEx::compile" if flavour == "flat" else "DeepEx::compile"
    where = loc(body["span"])
    rets = [p for p in info["allp"] if p.status == "return"]
    field = ("f", "flat_ops") if flavour == "flat" else None
    good = bool(rets)
    why = ""
    n = 0
    for p in rets:
        vals = []
        for e in p.events:
            if e[0] == "write_opaque" and e[2]:
                last = tuple(e[2][-1]) if isinstance(e[2][-1], (tuple, list)) else e[2][-1]
                projs = [tuple(x) for x in e[2]]
                if flavour == "flat" and projs == [("f", "flat_ops")]:
                    vals.append(e[3])
                if flavour == "deep" and projs == [("f", "bin_ops"), ("f", "ops")]:
                    vals.append(e[3])
        if not vals:
            # in-place idiom: ops.retain(|_| { let keep = !used.contains(&i); i += 1; keep }), possibly skipped when nothing was used
            okr, whyr = _retain_idiom(fb, p, rets, flavour)
            if okr:
                n += 1
                continue
            good, why = False, "operator list is written 0 times on a path" + (" (%s)" % whyr if whyr else "")
            break
        if len(vals) != 1:
            good, why = False, "operator list is written %d times on a path" % len(vals)
            break
        v = vals[0]
        s = show(v)
        if loops.loop_unknown(v) is not None:
            # the kept operators collected by an explicit loop: `for (i, op) in ops.iter().enumerate() { if !used.contains(&i) { kept.push(op.clone()) } }`
            okl, whyl = _kept_by_loop(info["allp"], body, v, flavour)
            if okl:
                n += 1
                continue
            good, why = False, "new operator list is built by a loop that is not `keep exactly the operators not recorded as used`: %s" % whyl
            break
        if loops.seq_parts(v) == [] and isinstance(v, App):
            # an explicit loop over an operator list that turned out to be empty leaves the new list empty
            src_rx_ = r"\.flat_ops\(" if flavour == "flat" else r"\.ops\(\.bin_ops\("
            if any(d[2] == "None" and re.match(r"^discr\(std::iter::Iterator::next\(.*Iterator::enumerate\(.*%s" % src_rx_, show(d[1])) and "⊤(loop:" not in show(d[1]).split("enumerate(")[0] for d in p.decisions):
                n += 1
                continue
        m = isinstance(v, App) and v.fn == "std::iter::Iterator::collect"
        chain = v.args[0] if m else None
        if not (m and isinstance(chain, App) and chain.fn == "std::iter::Iterator::map" and isinstance(chain.args[0], App) and chain.args[0].fn == "std::iter::Iterator::filter"):
            good, why = False, "new operator list is not filter(..).map(..).collect(): %s" % s[:140]
            break
        flt = chain.args[0]
        src = loops.seq_parts(flt.args[0], p, body["path"], 0, info["allp"])
        if len(src) != 1 or src[0][0] != "src" or src[0][2] != "fwd" or not re.search(r"\.flat_ops\(|\.ops\(\.bin_ops\(", src[0][1]):
            good, why = False, "filtered source is %s" % src
            break
        pc = flt.args[1]
        if not isinstance(pc, Closure) or pc.path not in fb.bodies:
            good, why = False, "filter predicate is not a closure"
            break
        cb = fb.bodies[pc.path]
        ps = [q for q in Interp(fb, _P()).run(cb, [pc, Sym("item")]) if q.status == "return"]
        r = rel.canon(ps[0].result) if len(ps) == 1 else None
        neg = isinstance(r, App) and r.fn == "unop:Not" and isinstance(r.args[0], App) and r.args[0].fn.endswith("::contains") and \
            rel.cstr(r.args[0].args[1]).endswith(".0(item)")
        if not neg:
            good, why = False, "filter predicate is not `!used.contains(index)`: %s" % (show(r)[:120] if r is not None else "?")
            break
        n += 1
    if good:
        chk.ok("R02.5", "%s: exactly the operators recorded as folded are dropped afterwards" % name, "%d return paths" % n, where)
    else:
        chk.violation("R02.5", "drop-used:%s" % flavour, "%s: %s" % (name, why), where)


def run(ctx):
    chk, fb = ctx.check, ctx.fb
    chk.rule("R02.1", "fold value: visited operator applied to (literal at its position, literal right of it), written at its position (flat: then the operator's unary)")
    chk.rule("R02.2", "fold condition: both literals, right operand unclaimed, left operand unclaimed or claimed by the same commutative operator of the same priority")
    chk.rule("R02.3", "an operator that is visited and not folded claims both of its operands")
    chk.rule("R02.4", "fold bookkeeping: right node and its claim removed, positions right of it decremented, operator recorded, operator table kept aligned")
    chk.rule("R02.5", "afterwards exactly the recorded operators are dropped from the operator list")
    chk.rule("R02.6", "flat: a literal's own unary composition is applied exactly once before folding, and reset")
    chk.rule("R02.7", "a literal's unary composition is folded by UnaryOp::apply, the same function evaluation uses - no second application loop")
    from rules import c01
    c01.application_discipline(chk, fb, "R02.7", caps=False)
    flat = fb.find_bodies(lambda b: b["kind"] == "AssocFn" and b.get("name") == "compile" and (b.get("impl_self_ty") or "").startswith("expression::flat::FlatEx<"))
    deep = fb.find_bodies(lambda b: b["kind"] == "AssocFn" and b.get("name") == "compile" and (b.get("impl_self_ty") or "").startswith("expression::deep::DeepEx<"))
    if len(flat) != 1 or len(deep) != 1:
        chk.violation("R02.1", "anchor", "FlatEx::compile / DeepEx::compile not found (%d / %d)" % (len(flat), len(deep)))
        return
    for body, fl in ((flat[0], "flat"), (deep[0], "deep")):
        info = check_loop(chk, fb, body, fl)
        if info is not None:
            check_after(chk, fb, body, fl, info)
    # ---- R02.6 flat literal pre-pass
    b = flat[0]
    allp = Interp(fb, _P()).run(b, [Sym("self_")])
    seen = {"num": 0, "other": 0}
    ok6 = True
    for p in allp:
        for t in loops.all_trips(p):
            if not t.general or t.post is None:
                continue
            tags = [(rel.cstr(d[1]), d[2]) for d in t.decisions if isinstance(d[1], App) and d[1].fn == "discr" and ".kind(" in rel.cstr(d[1]) and "Index::index" not in rel.cstr(d[1])]
            if not tags:
                continue
            writes = [e for e in t.events if e[0] == "write_opaque"]
            if tags[0][1] == "Num":
                seen["num"] += 1
                good = len(writes) == 1 and re.match(
                    r"^expression::flat::detail::FlatNode::<T>::from_kind\(FlatNodeKind::Num\{0: operators::UnaryOp::<T>::apply\(\.unary_op\((.*)\), \.0\(as:Num\(\.kind\((.*)\)\)\)\)\}\)$",
                    rel.cstr(writes[0][3]))
                if not good or good.group(1) != good.group(2) or rel.cstr(writes[0][1]) != good.group(1):
                    ok6 = False
                    chk.violation("R02.6", "literal-unary", "FlatEx::compile: a literal node is not replaced by from_kind(Num(its own unary applied to its own number)): %s" % [rel.cstr(w[3])[:140] for w in writes], loc(b["span"]))
            else:
                seen["other"] += 1
                if writes:
                    ok6 = False
                    chk.violation("R02.6", "non-literal-touched", "FlatEx::compile: the literal pre-pass modifies a node that is not a literal", loc(b["span"]))
    if ok6 and seen["num"] and seen["other"]:
        chk.ok("R02.6", "FlatEx::compile: literal pre-pass applies each literal's unary once and resets it", str(seen), loc(b["span"]))
    elif ok6:
        chk.unrecognised("R02.6", "prepass", "literal pre-pass of FlatEx::compile not recognised (%s)" % seen, loc(b["span"]))
