"""C09 — Differentiation bookkeeping: variables, indices, order and repetition (structural clauses)."""
import re

from analysis import mir, dom
from analysis.callgraph import CallGraph
from analysis.facts import loc

LEVEL = "other"
TECHNIQUE = "DOM over loops: the exit edge of a validation loop (iterating a clone of the index iterator, `?` on the index check with the bound taken from the variable list) dominates the first differentiation step; relation derived from the index comparison; WHO: call-graph funnel of the six public methods; ORIGIN of the returned variable list"
EXPLANATION = (
    "Decides for every expression and index sequence: (R09.1) in Differentiate::partial_iter_relaxed every index of the sequence is "
    "validated (against the number of variables of the expression before any differentiation) in a first loop over a clone of the "
    "index iterator, a failing check leaves through `?`, and only the loop's exit edge leads to the loop that differentiates - so an "
    "out-of-range index is an error before any work is done; the check's Ok edge implies idx < n; (R09.2) partial, partial_nth, "
    "partial_iter and their _relaxed variants reach the differentiation step only through that function; (R09.3) every Ok return of "
    "the inner derivative yields the first component of var_names_union(result, original), so a derivative lists exactly the "
    "variables of its antiderivative. Not decided: n-th derivative = n single derivatives as values, mixed partials commute "
    "(value level; structurally partial_nth IS partial_iter(repeat(i).take(n)), which R09.2 confirms)."
)
TRUSTED = ["rustc MIR construction", "exporter faithfulness", "Clone of an iterator yields the same sequence", "var_names_union (C04)"]


def loop_blocks(body, header):
    dom_ = mir.dominators(body)
    out = set()
    for b in dom_:
        if header in dom_[b] and header in mir.reach_from(body, b):
            out.add(b)
    return out


def combinator_validation(chk, fb, b, step, check, closure_args, closure_calls):
    """Idiom `idxs.clone().try_for_each(|i| check(i, n, ..))?` before any differentiation work.  Decided on the ordered
    trace of every path of the driver: the first event that differentiates is preceded by the `?`-success of a
    try_for_each over a clone of the index iterator whose closure returns the check of its item against the number of
    variables of the expression being differentiated; the differentiation consumes the same iterator."""
    from analysis.interp import Interp, Policy, Sym, App, Closure, show
    args = [Sym("p%d" % i) for i in range(1, b["arg_count"] + 1)]

    class PW(Policy):
        loop_mode = "widen"     # the differentiation itself may be an explicit loop
    ps = [p for p in Interp(fb, PW()).run(b, args) if p.status != "unreachable"]
    if any(p.status not in ("return", "loop-pruned") for p in ps):
        return False
    found = False
    for p in ps:
        validated = None      # (iterator term, bound term)
        cloned = set()
        for k, x in p.trace:
            if k == "e" and x[0] == "call" and x[1] == "std::clone::Clone::clone":
                cloned.add(show(x[2][0]))
            if k == "d" and x[0] == "try" and x[2] == "ok" and isinstance(x[1], App) and x[1].fn == "std::iter::Iterator::try_for_each" and len(x[1].args) == 2 \
                    and isinstance(x[1].args[1], Closure):
                it, clo = x[1].args
                cb = fb.bodies.get(clo.path)
                if cb is None or show(it) not in cloned:
                    continue
                cps = [q for q in Interp(fb, Policy()).run(cb, [clo] + [Sym("item%d" % i) for i in range(1, cb["arg_count"])]) if q.status != "unreachable"]
                if len(cps) == 1 and cps[0].status == "return" and isinstance(cps[0].result, App) and cps[0].result.fn == check \
                        and len(cps[0].result.args) >= 2 and show(cps[0].result.args[0]) == "item1":
                    validated = (show(it), cps[0].result.args[1])
            is_step = k == "e" and x[0] == "call" and (x[1] == step or (x[1].startswith("std::iter::Iterator::") and any(
                isinstance(a, Closure) and closure_calls(a.path, step) for a in x[2])))
            if is_step:
                found = True
                if validated is None:
                    chk.violation("R09.1", "validate-first", "differentiation work (%s) starts before all indices were validated" % x[1], loc(x[3]))
                    return True
                ex = x[2][1] if x[1] != step else x[2][1]
                bound_ok = show(validated[1]) == "core::slice::<impl [T]>::len(expression::Express::var_names(%s))" % show(ex)
                same_it = show(x[2][0]) == validated[0] if x[1] != step else True
                if not bound_ok:
                    chk.violation("R09.1", "validate-first", "bound of the index check is not the number of variables of the expression being differentiated: %s vs %s" % (show(validated[1])[:80], show(ex)[:60]), loc(x[3]))
                    return True
                if not same_it:
                    chk.violation("R09.1", "validate-first", "differentiation iterates something else than the validated indices: %s vs %s" % (show(x[2][0])[:60], validated[0][:60]), loc(x[3]))
                    return True
                break
    if found:
        chk.ok("R09.1", "validate-all-then-differentiate", "try_for_each(check)? precedes the differentiation on every path (%d paths)" % len(ps), loc(b["span"]))
        chk.sample({"driver": b["path"], "idiom": "try_for_each(check)? ; try_fold(step)"})
    return found


def run(ctx):
    chk, fb = ctx.check, ctx.fb
    chk.rule("R09.1", "validate all indices (clone of the iterator, `?`, bound = #variables) in a loop whose exit edge dominates the differentiation loop; check Ok => idx < n")
    chk.rule("R09.2", "the six public Differentiate methods reach the differentiation step only through partial_iter_relaxed")
    chk.rule("R09.4", "partial(i) = partial_nth(i, 1); partial_nth(i, n) = partial_iter(repeat(i).take(n)); partial_iter(s) = partial_iter_relaxed(s, Error) - and the same for the _relaxed variants")
    chk.rule("R09.3", "every Ok return of the inner derivative is var_names_union(result, original).0")
    chk.rule("R09.5", "the Differentiate methods have one implementation (the provided ones): no expression type overrides them")
    # the operators the rules build their results with go through DeepEx::new: a name that no longer occurs as a node survives
    # only because the constructor merges the nested expressions' own lists
    from rules import c04
    c04.name_sources(chk, fb, "R09.6")
    from rules import c10 as _c10
    _c10.no_overrides(chk, fb, "R09.5", "expression::partial::Differentiate", {"partial", "partial_relaxed", "partial_nth", "partial_nth_relaxed", "partial_iter", "partial_iter_relaxed"},
                      "an own implementation bypasses the index validation and the funnel decided by R09.1-R09.4")
    sig = {s["path"]: s for s in fb.raw["sigs"]}
    steps = [p for p, s in sig.items() if len(s["inputs"]) == 3 and s["inputs"][0] == "usize" and "DeepEx<" in s["inputs"][1]
             and "MissingOpMode" in s["inputs"][2] and "DeepEx<" in s["output"] and s["output"].startswith("std::result::Result<")]
    checks = [p for p, s in sig.items() if len(s["inputs"]) >= 2 and s["inputs"][0] == "usize" and s["inputs"][1] == "usize"
              and s["output"].startswith("std::result::Result<(), ")]
    # several functions may share the signature (e.g. a helper split off the step): the step is the one called by a
    # Differentiate method; a canonical name, if present, decides as well
    if len(steps) > 1:
        cg0 = CallGraph(fb)
        named = [s for s in steps if s.endswith("::partial_deepex")]
        called = [s for s in steps if any("Differentiate" in re.sub(r"(::\{closure#\d+\})+$", "", c) for c in cg0.callers_of(s))]
        steps = named if len(named) == 1 else (called if len(called) == 1 else steps)
    if len(checks) > 1:
        named = [s for s in checks if s.endswith("::check_partial_index")]
        checks = named if len(named) == 1 else checks
    if len(steps) != 1 or len(checks) != 1:
        chk.violation("R09.1", "anchor", "differentiation step / index check not found by role: %s / %s" % (steps, checks))
        return
    step, check = steps[0], checks[0]
    cg = CallGraph(fb)
    # (a caller that is a closure stands for the function it is written in)
    drivers = sorted({re.sub(r"(::\{closure#\d+\})+$", "", c) for c in cg.callers_of(step)})
    drivers = [c for c in drivers if c in fb.bodies and (fb.bodies[c].get("trait_default_of") or "Differentiate" in c)]
    if len(drivers) != 1:
        chk.violation("R09.1", "anchor:driver", "expected exactly one Differentiate method calling the differentiation step, found %s" % drivers)
        return
    b = fb.bodies[drivers[0]]
    org = dom.Origins(b)
    def closure_args(term):
        """closures of the driver that are passed to this call (matched by the closure type's definition site)"""
        out = []
        for a in term["args"]:
            ty = a.get("place", {}).get("ty", "") if a.get("k") in ("move", "copy") else a.get("ty", "")
            for cp in fb.closures_of(b["path"]):
                sp = fb.bodies[cp]["span"]
                if "{closure@%s:%d:%d" % (sp["file"], sp["line"], sp["col"]) in (ty or ""):
                    out.append(cp)
        return out

    def closure_calls(cp, target):
        return any(mir.callee_path(t2) == target for _, t2 in mir.calls(fb.bodies[cp]))
    bd = dom.call_blocks(b, lambda p, t: p == step)
    # the step may be applied by an iterator adaptor (try_fold / fold ...) through a closure
    bd_adaptor = [(bi, t) for bi, t in mir.calls(b) if (t["func"].get("trait") == "std::iter::Iterator") and any(closure_calls(cp, step) for cp in closure_args(t))]
    bc = dom.call_blocks(b, lambda p, t: p == check)
    if not bc and (bd or bd_adaptor):
        if combinator_validation(chk, fb, b, step, check, closure_args, closure_calls):
            bc = None
    heads = sorted({h for (_, h) in mir.back_edges(b)})
    backs = mir.back_edges(b)
    if bc is None:
        pass
    elif not bd or not bc:
        if not bc:
            chk.violation("R09.1", "no-validation", "%s differentiates without validating the indices first" % b["path"], loc(b["span"]))
        return
    loops = {h: loop_blocks(b, h) for h in heads}

    def loop_of(bb):
        ls = [h for h, bl in loops.items() if bb in bl]
        return ls
    ok_all = True
    for (dbb, dt) in (bd if bc is not None else []):
        l2 = loop_of(dbb)
        good = False
        why = []
        for (cbb, ct) in bc:
            l1 = loop_of(cbb)
            if not l1:
                why.append("the index check is not inside a loop over the indices")
                continue
            h1 = l1[0]
            if dbb in loops[h1]:
                why.append("indices are checked inside the differentiation loop: earlier indices are differentiated before a later one is rejected")
                continue
            # exit edge of loop 1: the switch on next() in the loop whose non-Some edge leaves the loop
            exit_edge = None
            it_term = None
            for s in sorted(loops[h1]):
                t = b["blocks"][s]["term"]
                if t["k"] == "switch" and re.match(r"^discr\(std::iter::Iterator::next\((.*)\)\)$", org.op_term(t["discr"])):
                    for lab, tgt in dom.switch_edges(b, s):
                        if tgt not in loops[h1] and b["blocks"][tgt]["term"]["k"] != "unreachable":
                            exit_edge = (s, tgt)
                    it_term = re.match(r"^discr\(std::iter::Iterator::next\((.*)\)\)$", org.op_term(t["discr"])).group(1)
            if exit_edge is None:
                why.append("validation loop has no iterator-exhausted exit")
                continue
            if dom.remove_edge_reach(b, exit_edge, dbb):
                why.append("the differentiation step is reachable without exhausting the validation loop")
                continue
            # `?` on the check: only the Ok edge continues the loop
            qe = dom.question_mark_ok_edge(b, cbb)
            src = [s for (s, h) in backs if h == h1]
            if qe is None or any(dom.remove_edge_reach(b, qe, s) for s in src):
                why.append("the result of the index check is not propagated with `?`")
                continue
            # iterator of loop 1 = clone of the iterator parameter; loop 2 iterates the parameter
            m = re.match(r"^var:(\S+)$", it_term)
            itdef = None
            if m:
                li = org.local_by_name(m.group(1))
                if li is not None:
                    itdef = org.def_term(li)
            if not itdef or not re.match(r"^std::iter::IntoIterator::into_iter\(std::clone::Clone::clone\(param:\w+\)\)$", itdef):
                why.append("validation loop does not iterate a clone of the index iterator: %s" % itdef)
                continue
            pname = re.search(r"param:(\w+)", itdef).group(1)
            # arguments of the check
            a0 = org.op_term(ct["args"][0])
            a1 = org.op_term(ct["args"][1])
            if not re.match(r"^\(std::iter::Iterator::next\(%s\) as Some\)\.0$" % re.escape(it_term), a0):
                why.append("checked value is not the iterated index: %s" % a0[:80])
                continue
            ex = org.op_term(dt["args"][1])
            if not re.match(r"^core::slice::<impl \[T\]>::len\(expression::Express::var_names\(%s\)\)$" % re.escape(ex), a1):
                why.append("bound is not the number of variables of the expression being differentiated: %s vs %s" % (a1[:80], ex))
                continue
            # loop 2 iterates the same parameter
            d0 = org.op_term(dt["args"][0])
            m2 = re.match(r"^\(std::iter::Iterator::next\(var:(\S+)\) as Some\)\.0$", d0)
            it2 = None
            if m2:
                li = org.local_by_name(m2.group(1))
                if li is not None:
                    it2 = org.def_term(li)
            if not it2 or pname not in it2:
                why.append("differentiation loop iterates something else than the validated indices: %s" % it2)
                continue
            good = True
            chk.ok("R09.1", "validate-all-then-differentiate", "exit edge bb%d->bb%d dominates the step; bound %s" % (exit_edge[0], exit_edge[1], a1[:60]), loc(ct["span"]))
            chk.sample({"driver": b["path"], "validation_iterator": itdef, "bound": a1, "differentiation_iterator": it2})
        if not good:
            ok_all = False
            chk.violation("R09.1", "validate-first", "index validation does not precede all differentiation work: %s" % "; ".join(sorted(set(why)))[:300], loc(dt["span"]))
    # the check itself: Ok => idx < n
    cb = fb.bodies[check]
    corg = dom.Origins(cb)
    oks = dom.result_assign_blocks(cb, "Ok")
    p0 = "param:%s" % (cb["locals"][1].get("name") or 1)
    p1 = "param:%s" % (cb["locals"][2].get("name") or 2)
    good = bool(oks)
    for okb in oks:
        g_ok = False
        for (s, lab, term, span) in dom.dominating_guards(cb, okb, corg):
            r = dom.relation(term, lab)
            if r and ((r[0] == "<" and r[1] == {p0: 1, p1: -1}) or (r[0] == ">" and r[1] == {p0: -1, p1: 1})):
                g_ok = True
        good = good and g_ok
    if good:
        chk.ok("R09.1", "index check: Ok implies idx < n", "", loc(cb["span"]))
    else:
        chk.violation("R09.1", "index-relation", "the index check can return Ok for an index that is not smaller than the number of variables", loc(cb["span"]))

    # ---- R09.2 funnel
    drv = drivers[0]
    allowed = {drv}
    inner = [p for p in cg.callers_of(step) if p != drv and not p.startswith(drv + "::{closure#")]
    for p in inner:
        # recursion through the inner derivative is part of the step itself
        if step in cg.reachable([p]) and p in cg.reachable([step]):
            allowed.add(p)
        else:
            chk.violation("R09.2", "bypass:%s" % p, "%s calls the differentiation step without the index validation of %s" % (p, drv), loc(fb.bodies[p]["span"]))
    meths = [p for p, x in fb.bodies.items() if x.get("trait_default_of", "").endswith("partial::Differentiate") and x["kind"] == "AssocFn" and p != drv]
    n = 0
    for m in meths:
        r = cg.reachable([m])
        n += 1
        if drv in r:
            chk.ok("R09.2", "%s reaches the step through %s" % (m.split("::")[-1], drv.split("::")[-1]), "", loc(fb.bodies[m]["span"]))
        else:
            chk.violation("R09.2", "funnel:%s" % m.split("::")[-1], "%s does not go through %s" % (m, drv), loc(fb.bodies[m]["span"]))
    chk.floor("R09.2", "public methods funnelled", n, 5)

    # ---- R09.3 variable list restored
    ib = fb.find_bodies(lambda x: x["kind"] == "Fn" and x["path"].endswith("partial::partial_derivative_inner"))
    if len(ib) != 1:
        chk.violation("R09.3", "anchor", "partial_derivative_inner not found")
        return
    ib = dom.refine(ib[0])
    iorg = dom.Origins(ib)
    nok = 0
    exparam = None
    for i in range(1, ib["arg_count"] + 1):
        if "DeepEx<" in ib["locals"][i]["ty"]:
            exparam = "param:%s" % (ib["locals"][i].get("name") or i)
    for bi, si, st in mir.iter_stmts(ib, mir.normal_blocks(ib)):
        if st["k"] == "assign" and st["place"]["local"] == 0 and not st["place"]["proj"] and st["rv"]["k"] == "aggregate" and st["rv"].get("variant") == "Ok":
            term = iorg.op_term(st["rv"]["ops"][0])
            nok += 1
            if re.match(r"^expression::deep::DeepEx::<'a, T, OF, LM>::var_names_union\(.*, %s\)\.0$" % re.escape(exparam or "?"), term):
                chk.ok("R09.3", "Ok return %d restores the variable list" % nok, term[:100], loc(st["span"]))
            else:
                chk.violation("R09.3", "var-list:%d" % nok, "an Ok return of the inner derivative does not restore the antiderivative's variable list: returns %s" % term[:160], loc(st["span"]))
    chk.floor("R09.3", "Ok returns of the inner derivative", nok, 1)

    # ---- R09.4 delegation chain as terms
    from analysis.interp import Interp, Policy, Sym, show

    class P(Policy):
        pass
    T = "expression::partial::Differentiate::"
    ERR = r"MissingOpMode::Error"
    REP = r"std::iter::Iterator::take\(std::iter::repeat\(i\), n\)"
    want = {
        "partial": (["self_", "i"], r"^%spartial_nth\(self_, i, 1_usize\)$" % T),
        "partial_relaxed": (["self_", "i", "m"], r"^%spartial_nth_relaxed\(self_, i, 1_usize, m\)$" % T),
        "partial_nth": (["self_", "i", "n"], r"^%spartial_iter\(self_, %s\)$" % (T, REP)),
        "partial_nth_relaxed": (["self_", "i", "n", "m"], r"^%spartial_iter_relaxed\(self_, %s, m\)$" % (T, REP)),
        "partial_iter": (["self_", "s"], r"^%spartial_iter_relaxed\(self_, s, %s\)$" % (T, ERR)),
    }
    nd = 0
    for name, (args, pat) in want.items():
        bs = fb.find_bodies(lambda x, name=name: x.get("trait_default_of", "").endswith("partial::Differentiate") and x.get("name") == name)
        if len(bs) != 1:
            chk.violation("R09.4", "anchor:%s" % name, "Differentiate::%s not found" % name)
            continue
        ps = [p for p in Interp(fb, P()).run(bs[0], [Sym(a) for a in args]) if p.status != "unreachable"]
        s_ = show(ps[0].result) if len(ps) == 1 and ps[0].status == "return" else "%d paths" % len(ps)
        nd += 1
        # "n copies of i" may be spelled repeat(i).take(n), (0..n).map(|_| i), repeat_n(i, n)
        if len(ps) == 1 and ps[0].status == "return" and name in ("partial_nth", "partial_nth_relaxed"):
            from analysis.interp import App as _App, Closure as _Closure, Variant as _Variant, Const as _Const
            r_ = ps[0].result
            if isinstance(r_, _App) and len(r_.args) >= 2:
                x_ = r_.args[1]
                copies = False
                if isinstance(x_, _App) and x_.fn == "std::iter::repeat_n" and [show(a) for a in x_.args] == ["i", "n"]:
                    copies = True
                if isinstance(x_, _App) and x_.fn == "std::iter::Iterator::map" and len(x_.args) == 2 and isinstance(x_.args[1], _Closure) \
                        and re.match(r"^Range\{start: 0_usize, end: n\}$", show(x_.args[0])):
                    cb_ = fb.bodies.get(x_.args[1].path)
                    if cb_ is not None:
                        qs_ = [q for q in Interp(fb, P()).run(cb_, [x_.args[1], Sym("k")]) if q.status != "unreachable"]
                        copies = len(qs_) == 1 and qs_[0].status == "return" and show(qs_[0].result) == "i"
                if copies:
                    s_ = show(_App(r_.fn, [r_.args[0], _App("std::iter::Iterator::take", [_App("std::iter::repeat", [Sym("i")]), Sym("n")])] + list(r_.args[2:])))
        if re.match(pat, s_):
            chk.ok("R09.4", "%s delegates as documented" % name, s_[:100], loc(bs[0]["span"]))
        else:
            chk.violation("R09.4", "delegation:%s" % name, "Differentiate::%s computes %s" % (name, s_[:160]), loc(bs[0]["span"]))
    chk.floor("R09.4", "delegating methods", nd, 5)
