"""C05 — A partial derivative evaluates to the mathematical derivative (rule-table clauses)."""
import re

from analysis import deriv, tables, mir, dom
from analysis.facts import loc
from analysis.interp import Interp, Policy, Sym, App, Variant, Closure, show

LEVEL = "other"
TECHNIQUE = "TERM extraction of every derivative rule from MIR by abstract interpretation (resolved callees, `?` followed on success), CAS identity check against calculus (sympy simplify, 50-digit evaluation of the extracted term as second method); TABLE key-set agreement; DOM for the missing-rule error paths"
EXPLANATION = (
    "Decides the rule-table clauses of C05, where almost every realistic fault lives and which the baseline never compiles: "
    "(R05.1) each unary rule, read as a term D(u, k(u)), IS d k(u)/du on the interior of the domain; (R05.2) each binary rule "
    "returns val = a o b and der = d(a o b)/da*da + d(a o b)/db*db; (R05.3) the set of keys with a rule is exactly the documented "
    "differentiable set (a rule for any other float operator must itself pass the calculus check); (R05.4) a missing rule reaches "
    "only an error; (R05.5) partial_deepex returns inner*outer of the same expression and table, and lookups compare the key with "
    "the expression's own operator names; (R05.6) every operator name a rule emits exists with that arity in both built-in tables. "
    "Arithmetic on expressions (+ - * / pow, helpers) is interpreted by name; that the name means the function is C10/C19. "
    "Not decided: the chain-rule plumbing over arbitrary trees (iterator-driven reduction in priority order) and therefore the "
    "end-to-end statement."
)
TRUSTED = ["sympy / mpmath", "rustc MIR construction", "exporter faithfulness", "C10 (operator application by name), C19 (names mean the functions)"]

DIFF_UNARY = {"+", "-", "sqrt", "ln", "log", "log10", "log2", "exp", "sin", "cos", "tan", "asin", "acos", "atan", "sinh", "cosh", "tanh",
              "asinh", "acosh", "atanh"}
DIFF_BINARY = {"^", "+", "-", "*", "/"}
VAL_ONLY = {">", "<", "!=", "==", "<=", ">=", "if", "else"}     # C18
FLOAT_NONDIFF = {"abs", "signum", "floor", "ceil", "round", "trunc", "fract", "min", "max"}


def extract_all(chk, fb, rule_id):
    body, tab = deriv.table(fb)
    jobs, meta = [], {}
    for e in tab:
        r = e["repr"]
        if r is None:
            chk.unrecognised(rule_id, "key@nonliteral", "rule key is not a string literal", e["loc"])
            continue
        for role in ("unary", "bin"):
            t = e[role]
            if t is None:
                continue
            jid = "%s:%s" % (role, r)
            try:
                v, path = deriv.rule_value(fb, t, "unary" if role == "unary" else "binary")
                consts = []
                if role == "unary":
                    ast = deriv.to_ast(v, consts)
                    meta[jid] = {"entry": e, "ast": ast, "consts": consts, "term": show(v)}
                else:
                    if not (isinstance(v, Variant) and "val" in v.fields and "der" in v.fields):
                        raise deriv.Unrec("binary rule does not return ValueDerivative{val, der}: %s" % show(v)[:80])
                    ast = {"val": deriv.to_ast(v.fields["val"], consts), "der": deriv.to_ast(v.fields["der"], consts)}
                    meta[jid] = {"entry": e, "ast": ast, "consts": consts, "term": show(v)}
            except deriv.Unrec as ex:
                meta[jid] = {"entry": e, "error": str(ex)}
    return body, tab, meta


def recursion_drivers(fb, inner_path):
    """The function(s) through which the derivative recurses: `partial_deepex` and, if it is a wrapper that only builds the rule
    table, the private function it hands over to (which calls the inner derivative)."""
    from analysis.callgraph import CallGraph
    cg = CallGraph(fb)
    pub = [p for p in fb.bodies if p.endswith("partial::partial_deepex")]
    out = set(pub)
    for p in pub:
        for bi, t in mir.calls(fb.bodies[p]):
            cp = mir.callee_path(t) or ""
            cb = fb.bodies.get(cp)
            if cb is not None and cp.startswith("expression::partial::") and "{closure" not in cp and cp != inner_path \
                    and any((mir.callee_path(t2) or "") == inner_path for _, t2 in mir.calls(cb)):
                out.add(cp)
    return out


def operand_pairs(chk, fb, RID):
    """(value, derivative) pairs fed to the binary rules are (operand, recursive derivative of that operand)."""
    inner = fb.find_bodies(lambda b: b["kind"] == "Fn" and b["path"].endswith("partial::partial_derivative_inner"))
    chk.rule(RID, "inner derivative: every operand enters the rules as (operand, partial_deepex(var_idx, operand, mode)) - no shortcut around the recursive differentiation")
    if len(inner) == 1:
        drivers = recursion_drivers(fb, inner[0]["path"])

        class PO(Policy):
            max_depth = 5
            loop_mode = "widen"

            def inline(self, fn, args, interp, path):
                return fn["path"].startswith("expression::partial::") and fn["path"] not in drivers and fn.get("name") not in (
                    "partial_deepex", "partial_derivative_inner", "partial_derivative_outer", "partial_derisval", "partial_deri_per_operand", "make_partial_derivative_ops")
        npair = 0
        bad8 = []
        ib0 = inner[0]
        pnames = {}
        for i in range(1, ib0["arg_count"] + 1):
            ty = ib0["locals"][i]["ty"]
            if ty == "usize":
                pnames["idx"] = ib0["locals"][i].get("name")
            if ty.endswith("partial::MissingOpMode"):
                pnames["mode"] = ib0["locals"][i].get("name")
            if "PartialDerivative<" in ty:
                pnames["table"] = ib0["locals"][i].get("name")
        # private parts the inner derivative was split into (inlined by PO): their aggregates and closures belong to it
        NOT_PART = ("partial_deepex", "partial_derivative_inner", "partial_derivative_outer", "partial_derisval", "partial_deri_per_operand", "make_partial_derivative_ops")
        parts_, todo_ = [], [ib0]
        while todo_:
            cur_ = todo_.pop()
            for root_ in [cur_] + [fb.bodies[c] for c in fb.closures_of(cur_["path"])]:
                for _, t_ in mir.calls(root_):
                    cp_ = mir.callee_path(t_) or ""
                    hb_ = fb.bodies.get(cp_)
                    if hb_ is not None and hb_["kind"] == "Fn" and cp_.startswith("expression::partial::") and cp_ not in drivers and hb_.get("name") not in NOT_PART \
                            and not hb_.get("public") and hb_ not in parts_ and hb_ is not ib0 \
                            and not any("partial::ValueDerivative<" in hb_["locals"][i_]["ty"] for i_ in range(1, hb_["arg_count"] + 1)):
                        # (a function that is handed (value, derivative) pairs is a derivative rule, whatever it is called: R05.2's business)
                        parts_.append(hb_)
                        todo_.append(hb_)
        scope_ = tuple([ib0["path"]] + [h_["path"] for h_ in parts_])
        for bb_ in [ib0] + [fb.bodies[c] for h_ in [ib0] + parts_ for c in fb.closures_of(h_["path"])]:
            args_ = [Sym("env")] + [Sym("node%d" % i) for i in range(1, bb_["arg_count"])] if bb_["kind"] == "Closure" else [Sym("p_%s" % (bb_["locals"][i].get("name") or i)) for i in range(1, bb_["arg_count"] + 1)]
            for p in Interp(fb, PO()).run(bb_, args_):
                for e in p.events:
                    if e[0] != "aggregate" or not (isinstance(e[1], Variant) and e[1].adt.endswith("partial::ValueDerivative")):
                        continue
                    if not e[3].startswith(scope_):
                        continue       # aggregates built inside rule functions are R05.2's business
                    v, d = e[1].fields.get("val"), e[1].fields.get("der")
                    from analysis import rel as _rel
                    dv = _rel.canon(d)
                    npair += 1
                    good = isinstance(dv, App) and dv.fn == "ok" and isinstance(dv.args[0], App) and dv.args[0].fn in drivers and len(dv.args[0].args) in (3, 4)
                    if good:
                        # the arguments of the recursive call: the operand itself, the requested variable, the mode (and the rule table handed down)
                        roles = []
                        for x in dv.args[0].args:
                            cx = _rel.cstr(_rel.canon(x))
                            if cx == _rel.cstr(v):
                                roles.append("operand")
                                continue
                            for role in ("idx", "mode", "table"):
                                if pnames.get(role) and re.search(r"(^|[:(_])%s(\(env\))?$" % re.escape(pnames[role]), cx) is not None:
                                    roles.append(role)
                                    break
                            else:
                                roles.append("?" + cx[:40])
                        good = sorted(roles) in (["idx", "mode", "operand"], ["idx", "mode", "operand", "table"])
                    if not good:
                        bad8.append((show(v)[:80], show(d)[:120], loc(e[2])))
        if bad8:
            v_, d_, l_ = bad8[0]
            chk.violation(RID, "operand-derivative", "an operand of the inner derivative is paired with %s instead of the recursive derivative of that operand (%s) with respect to the requested variable and mode" % (d_, v_), l_)
        elif npair:
            chk.ok(RID, "operands are paired with their own recursive derivative", "%d aggregate(s)" % npair, loc(ib0["span"]))
        else:
            chk.unrecognised(RID, "operand-derivative", "no (value, derivative) pair built in partial_derivative_inner", loc(ib0["span"]))



def run(ctx):
    chk, fb = ctx.check, ctx.fb
    chk.rule("R05.1", "unary rule term D(u, k(u)) == d k(u)/du (CAS)")
    chk.rule("R05.2", "binary rule: val == a o b and der == d/da(a o b)*da + d/db(a o b)*db (CAS)")
    chk.rule("R05.3", "keys with a rule (float operators) == documented differentiable set")
    chk.rule("R05.4", "missing rule => only error returns")
    chk.rule("R05.5", "partial_deepex = inner(expr, table) * outer(expr, table); lookups compare with the expression's own operator names")
    chk.rule("R05.7", "the names and the functions of a unary composition stay aligned: remove_latest drops index 0 of both, append_after prepends to both")
    chk.rule("R05.6", "every operator name emitted by a rule exists with that arity in FloatOpsFactory and ValOpsFactory")
    # a flat expression is differentiated as its deep conversion: the per-node converter must not lose a node's unary operators
    from rules import c03
    c03.unary_kept(chk, fb, "R05.9")
    body, tab, meta = extract_all(chk, fb, "R05.1")
    jobs = []
    for jid, m in meta.items():
        role, key = jid.split(":", 1)
        if key in VAL_ONLY:
            continue
        if "error" in m:
            chk.unrecognised("R05.1" if role == "unary" else "R05.2", "rule:%s" % jid, m["error"], m["entry"]["loc"])
            continue
        jobs.append({"id": jid, "kind": "unary" if role == "unary" else "binary", "key": key, "expr": m["ast"]})
    res = deriv.run_cas(jobs)
    nun = nbin = 0
    for j in jobs:
        r = res.get(j["id"])
        m = meta[j["id"]]
        rule = "R05.1" if j["kind"] == "unary" else "R05.2"
        if r is None:
            chk.violation(rule, "rule:%s" % j["id"], "CAS returned no verdict", m["entry"]["loc"])
            continue
        if j["kind"] == "unary":
            nun += 1
        else:
            nbin += 1
        if r["ok"]:
            chk.ok(rule, "rule:%s" % j["id"], "%s [%s]" % (r.get("term", ""), r["method"]), m["entry"]["loc"])
            chk.sample({"rule": j["id"], "extracted": r.get("term"), "reference": r.get("reference"), "method": r["method"]})
        else:
            chk.violation(rule, "rule:%s" % j["id"], "derivative rule for %r is wrong: extracted %s, calculus says %s (%s)" % (
                j["key"], r.get("term"), r.get("reference"), r["detail"][:200]), m["entry"]["loc"], fragment=m.get("term"))
    chk.floor("R05.1", "unary rules checked", nun, 20)
    chk.floor("R05.2", "binary rules checked", nbin, 5)

    # ---- R05.3 key set
    have_un = {e["repr"] for e in tab if e["unary"] is not None}
    have_bin = {e["repr"] for e in tab if e["bin"] is not None} - VAL_ONLY
    for k in sorted(DIFF_UNARY - have_un):
        chk.violation("R05.3", "missing-unary:%s" % k, "documented differentiable operator %r has no outer-derivative rule" % k, loc(body["span"]))
    for k in sorted(DIFF_BINARY - have_bin):
        chk.violation("R05.3", "missing-binary:%s" % k, "documented differentiable operator %r has no rule" % k, loc(body["span"]))
    for k in sorted((have_un | have_bin) & FLOAT_NONDIFF):
        chk.violation("R05.3", "nondiff:%s" % k, "operator %r has no derivative (differentiation must fail with an error), yet a rule exists" % k, loc(body["span"]))
    seen = {}
    for e in tab:
        if e["repr"] in seen:
            chk.violation("R05.3", "dup:%s" % e["repr"], "two rules keyed %r: the lookup takes the first" % e["repr"], e["loc"])
        seen[e["repr"]] = 1
    if not (DIFF_UNARY - have_un) and not (DIFF_BINARY - have_bin):
        chk.ok("R05.3", "key set", "unary %s; binary %s" % (sorted(have_un), sorted(have_bin)), loc(body["span"]))

    # ---- R05.4 missing rule => Err  (shape-independent: analysis/dispatch.py)
    outer = fb.find_bodies(lambda b: b["kind"] == "Fn" and b["path"].endswith("partial::partial_derivative_outer"))
    inner = fb.find_bodies(lambda b: b["kind"] == "Fn" and b["path"].endswith("partial::partial_derivative_inner"))
    if len(outer) != 1 or len(inner) != 1:
        chk.violation("R05.4", "anchor", "partial_derivative_outer/inner not found")
    else:
        from analysis import dispatch
        KEEP = {"partial_deepex", "partial_derivative_inner", "partial_derivative_outer", "partial_derisval", "partial_deri_per_operand",
                "make_partial_derivative_ops"}

        class PD(Policy):
            max_depth = 5
            loop_mode = "widen"

            def inline(self, fn, args, interp, path):
                return fn["path"].startswith("expression::partial::") and fn.get("name") not in KEEP

        def captured_names(b):
            """{capture name: type} of a closure body (field projections of the environment carry both)"""
            import json as _json
            return dict(re.findall(r'"name": "cap:(\w+)", "owner": "[^"]*", "ty": "([^"]*)"', _json.dumps(b["blocks"])))

        def unit_args(b, mode=None, root=None):
            out = []
            for i in range(b["arg_count"]):
                ty = b["locals"][i + 1]["ty"]
                if mode and ty.endswith("partial::MissingOpMode"):
                    out.append(Variant("expression::partial::MissingOpMode", mode, {}))
                elif i == 0 and b["kind"] == "Closure" and mode and root is not None:
                    # a closure of the function under analysis: a captured MissingOpMode parameter has the analysed value
                    cn = captured_names(b)
                    caps = {n: (Variant("expression::partial::MissingOpMode", mode, {}) if ty.rstrip().endswith("partial::MissingOpMode") else Sym("cap_" + n)) for n, ty in cn.items()}
                    out.append(Closure(b["path"], caps) if any(isinstance(v, Variant) for v in caps.values()) else Sym("a0"))
                else:
                    out.append(Sym("a%d" % i))
            return out

        def decide(label, root, field, mode):
            units = 0
            for b in [root] + [fb.bodies[c] for c in fb.closures_of(root["path"])]:
                r = dispatch.analyse(fb, b, unit_args(b, mode, root), field, PD())
                if r.calls == 0:
                    continue
                units += 1
                for k, txt in r.unrecognised:
                    chk.unrecognised("R05.4", "%s-shape" % label, "%s (%s)" % (txt, k), loc(b["span"]))
                seen = set()
                for k, txt in r.problems:
                    if (k, txt) in seen:
                        continue
                    seen.add((k, txt))
                    chk.violation("R05.4", "%s-%s" % (label, {"skip": "missing", "exit": "missing"}.get(k, k)),
                                  "%s derivative%s: %s" % (label, " under MissingOpMode::Error" if mode else "", txt), loc(b["span"]))
                if not r.unrecognised and not r.problems:
                    chk.ok("R05.4", "%s: every completed operator step applies the rule selected by name; otherwise Err" % label,
                           "%s form, %d paths, %d rule calls" % (r.form, r.paths, r.calls), loc(b["span"]))
            if units == 0:
                chk.unrecognised("R05.4", "%s-none" % label, "no call of a looked-up rule found in %s" % root["path"], loc(root["span"]))
        decide("outer", outer[0], ".unary_outer_op", None)
        decide("inner", inner[0], ".bin_op", "Error")
        has_mode = any(l["ty"].endswith("partial::MissingOpMode") for l in inner[0]["locals"][1:inner[0]["arg_count"] + 1])
        if not has_mode:
            chk.unrecognised("R05.4", "inner-none", "partial_derivative_inner takes no MissingOpMode", loc(inner[0]["span"]))

    # ---- R05.5 partial_deepex = inner * outer
    pd = fb.find_bodies(lambda b: b["kind"] == "Fn" and b["path"].endswith("partial::partial_deepex"))
    if len(pd) != 1:
        chk.violation("R05.5", "anchor", "partial_deepex not found")
    else:
        class P2(Policy):
            try_mode = "ok_only"

            def inline(self, fn, args, interp, path):
                # a private function the public driver hands over to is part of the driver
                return fn["path"].startswith("expression::partial::") and fn.get("name") not in (
                    "partial_derivative_inner", "partial_derivative_outer", "make_partial_derivative_ops")
        ps = Interp(fb, P2()).run(pd[0], [Sym("idx"), Sym("ex"), Sym("mode")])
        ps = [p for p in ps if p.status == "return"]
        s = show(ps[0].result) if len(ps) == 1 else ""
        T = r"expression::partial::make_partial_derivative_ops\(\)"
        pat = r"^std::ops::Mul::mul\(expression::partial::partial_derivative_inner\(idx, ex, %s, mode\), expression::partial::partial_derivative_outer\(ex, %s\)\)$" % (T, T)
        pat2 = r"^std::ops::Mul::mul\(expression::partial::partial_derivative_outer\(ex, %s\), expression::partial::partial_derivative_inner\(idx, ex, %s, mode\)\)$" % (T, T)
        if re.match(pat, s) or re.match(pat2, s):
            chk.ok("R05.5", "partial_deepex = inner * outer (same expression, same table)", s[:120], loc(pd[0]["span"]))
        else:
            chk.violation("R05.5", "chain-rule", "partial_deepex is not inner(expr)*outer(expr) with the rule table: %s" % s[:200], loc(pd[0]["span"]))

    # ---- R05.6 emitted names exist
    emitted = set()
    for jid, m in meta.items():
        if "ast" not in m:
            continue
        asts = [m["ast"]] if isinstance(m["ast"], list) else [m["ast"]["val"], m["ast"]["der"]]
        for a in asts:
            emitted |= deriv.names_emitted(a)
    for fac in ("FloatOpsFactory", "ValOpsFactory"):
        mk = fb.one_body(lambda b, fac=fac: b["kind"] == "AssocFn" and b.get("name") == "make" and fac in (b.get("impl_self_ty") or ""), fac + "::make")
        t = tables.operator_table(fb, mk)
        un = {e["repr"] for e in t if e["unary"] is not None}
        bi = {e["repr"] for e in t if e["apply"] is not None}
        for (nm, ar) in sorted(emitted):
            if nm in VAL_ONLY and fac == "FloatOpsFactory":
                continue
            if (ar == 1 and nm in un) or (ar == 2 and nm in bi):
                continue
            chk.violation("R05.6", "name:%s:%s/%d" % (fac, nm, ar), "a derivative rule emits operator %r with arity %d, which %s does not define: differentiation would fail at run time" % (nm, ar, fac), loc(mk["span"]))
    chk.ok("R05.6", "emitted operator names", str(sorted(emitted)))
    chk.floor("R05.6", "emitted names", len(emitted), 10)

    operand_pairs(chk, fb, "R05.8")

    # ---- R05.7 parallel lists (names / functions) of a unary composition
    from analysis import dom as _dom

    def calls_of(suffix):
        bs = fb.find_bodies(lambda b: b["kind"] == "AssocFn" and b["path"].endswith(suffix))
        if len(bs) != 1:
            return None, []
        o = _dom.Origins(bs[0])
        return bs[0], [(mir.callee_path(t) or "?", [o.op_term(a) for a in t["args"]], t["span"]) for _, t in mir.calls(bs[0])]
    wb, wcalls = calls_of("deep::UnaryOpWithReprs::<'a, T>::remove_latest")
    ub, ucalls = calls_of("operators::UnaryOp::<T>::remove_latest")
    if wb is None or ub is None:
        chk.violation("R05.7", "anchor:remove_latest", "remove_latest of UnaryOpWithReprs / UnaryOp not found")
    else:
        r_names = [c for c in wcalls if c[0].endswith("::remove") and c[1][0].endswith(".reprs")]
        r_del = [c for c in wcalls if c[0].endswith("UnaryOp::<T>::remove_latest")]
        r_fn = [c for c in ucalls if c[0].endswith("::remove")]
        if len(r_names) == 1 and len(r_del) == 1 and len(r_fn) == 1 and r_names[0][1][1] == r_fn[0][1][1] and re.match(r"^\d+_usize$", r_fn[0][1][1]):
            chk.ok("R05.7", "remove_latest drops the same position of names and functions", "index %s" % r_fn[0][1][1], loc(wb["span"]))
        else:
            chk.violation("R05.7", "misaligned:remove_latest", "removing the outermost unary operator drops %s of the names but %s of the functions: a derivative would be looked up under the wrong operator name" % (
                [c[1][1:] for c in r_names] or [c[0] for c in wcalls], [c[1][1:] for c in r_fn]), loc(wb["span"]))
    ab, acalls = calls_of("deep::UnaryOpWithReprs::<'a, T>::append_after")
    if ab is None:
        chk.violation("R05.7", "anchor:append_after", "UnaryOpWithReprs::append_after not found")
    else:
        from analysis import loops

        class PSeq(Policy):
            loop_mode = "widen"
            max_depth = 4
        allp = Interp(fb, PSeq()).run(ab, [Sym("self_"), Sym("other")])
        ps = [p for p in allp if p.status not in ("unreachable", "loop-pruned")]
        seqs, fn_ok = [], True
        for p in ps:
            hv = [v for k, v in p.heap.items() if k[0] == ("sym", "self_") and k[1] == ("f", "reprs")]
            seqs.append(loops.seq_parts(hv[0], p, ab["path"], 0, allp) if p.status == "return" and len(hv) == 1 else [("?", p.status)])
            fo = [e for e in p.events if e[0] == "call" and e[1].endswith("UnaryOp::<T>::append_after")]
            if not (len(fo) == 1 and [show(x) for x in fo[0][2]] == [".op(self_)", ".op(other)"]):
                fn_ok = False
        full = max(seqs, key=len) if seqs else []
        names_other_first = full == [("src", ".reprs(other)", "fwd"), ("src", ".reprs(self_)", "fwd")] and all(s == full or s == [] for s in seqs)
        if names_other_first and fn_ok:
            chk.ok("R05.7", "append_after prepends the other composition's names and functions alike", str(full), loc(ab["span"]))
        else:
            chk.violation("R05.7", "misaligned:append_after", "append_after does not add the names in the same place as the functions (functions: new ones first, C01 R01.7): names %s" % seqs[:2], loc(ab["span"]))
