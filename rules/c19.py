"""C19 — Default float operators and constants compute the functions they name.

TABLE rule family: the operator table of FloatOpsFactory::make is read out of the
type-checked program; every entry's function must be exactly the Rust primitive
of its documented name, arguments in documented order.
"""
import json
import math
import os
import struct

from analysis import tables, mir
from analysis.facts import AnchorError, loc
from analysis.interp import Interp, Policy, Sym, App, Const, show

SPEC = os.path.join(os.path.dirname(os.path.dirname(os.path.abspath(__file__))), "spec", "float_ops.json")

LEVEL = "proof"
TECHNIQUE = "static table extraction from MIR (resolved callees) + reference agreement; type-level defaults"
EXPLANATION = (
    "Decides the *table clause* of C19 for all argument values at once: each entry of "
    "<FloatOpsFactory<T> as MakeOperators<T>>::make is, after following crate-local forwarding wrappers, exactly one "
    "resolved call to the num::Float / core::ops primitive of its documented name with the parameters in documented "
    "order (constants: NumCast::from of the named f64::consts item with matching IEEE bits). "
    "Not decided: that a parsed one-operator expression reaches that table entry (C01/C08 territory), "
    "and the numerical quality of the primitives themselves (trusted std/num-traits)."
)
TRUSTED = [
    "rustc nightly front end + MIR construction (-Zmir-opt-level=0)",
    "exmex-facts exporter faithfulness",
    "std primitives f32::m / f64::m and the built-in float operators compute the function of their name",
    "spec/float_ops.json written from the documentation",
]


class _Inline(Policy):
    max_depth = 3

    def inline(self, fn, args, interp, path):
        return True  # follow crate-local forwarding wrappers


def _consts_bits():
    def b(x):
        return struct.unpack("<Q", struct.pack("<d", x))[0]
    return {"PI": b(math.pi), "E": b(math.e), "TAU": b(2 * math.pi)}


def _term_of(fb, target, nargs):
    body = tables.target_body(fb, target)
    if body is None:
        return None, None, "no body for %s" % tables.target_name(target)
    from analysis.interp import Closure
    syms = [Sym("p%d" % i) for i in range(nargs)]
    args = ([Sym("env")] if isinstance(target, Closure) else []) + syms
    if body["arg_count"] != len(args):
        return None, None, "arity %d != %d" % (body["arg_count"], len(args))
    ps = Interp(fb, _Inline()).run(body, args)
    if len(ps) != 1 or ps[0].status != "return":
        return None, None, "not straight-line: %s" % [(p.status, p.note) for p in ps][:3]
    p = ps[0]
    ncalls = sum(1 for e in p.events if e[0] in ("call", "callptr") and not _is_local(e))
    return p.result, ncalls, None


def _is_local(e):
    return e[0] == "call" and len(e) > 5 and e[5].get("local")


def _match_call(term, want, nargs, order):
    """term must be App(<callee matching want>)(p0[,p1]) with args in order."""
    if not isinstance(term, App) or not term.info:
        return False, "result is not a single resolved call: %s" % show(term)
    fn = term.info
    tr = (fn.get("trait") or "").split("::")[-1]
    if fn.get("crate") != want["crate"] or tr != want["trait"] or fn.get("name") != want["method"]:
        return False, "calls %s (crate %s), documented: %s::%s" % (fn.get("path"), fn.get("crate"), want["trait"], want["method"])
    got = [a.name if isinstance(a, Sym) else None for a in term.args]
    exp = ["p%d" % i for i in range(nargs)]
    if got == exp:
        return True, ""
    if order == "any" and sorted(x or "" for x in got) == exp:
        return True, "(commuted operands of a commutative primitive)"
    return False, "argument order/identity %s, documented %s" % ([show(a) for a in term.args], exp)


def run(ctx):
    chk, fb = ctx.check, ctx.fb
    spec = json.load(open(SPEC))
    chk.rule("R19.1", "each table entry's function body (after crate-local forwarding) is exactly one resolved call "
                      "to the documented primitive with parameters in documented order; no duplicate names")
    chk.rule("R19.2", "each constant is NumCast::from(<f64::consts item>) whose bits equal the IEEE value of its documented name")
    from rules import c07 as _c07
    _c07.thin_wrappers(chk, fb, "R19.4")
    chk.rule("R19.3", "for T in {f32, f64}: <T as num::Float>::m is exactly one call of the inherent primitive T::m with the arguments in order")
    chk.rule("R19.4", "FloatOpsFactory<T> is the default operator factory of FlatEx/DeepEx and the one used by parse/eval_str")
    make = fb.one_body(lambda b: b["kind"] == "AssocFn" and b.get("name") == "make"
                       and "FloatOpsFactory" in (b.get("impl_self_ty") or "")
                       and (b.get("impl_trait_path") or "").endswith("MakeOperators"), "FloatOpsFactory::make")
    try:
        tab = tables.operator_table(fb, make)
    except AnchorError as e:
        chk.unrecognised("R19.1", "table", str(e), loc(make["span"]))
        return
    chk.counts["entries"] = len(tab)
    seen = {}
    nbin = nun = nextra = ncon = 0
    bits = _consts_bits()
    for ent in tab:
        r = ent["repr"]
        if r is None:
            chk.unrecognised("R19.1", "entry@nonliteral", "operator name is not a string literal", ent["loc"])
            continue
        if r in seen:
            chk.violation("R19.1", "dup:%s" % r, "operator name %r appears twice in the table (first at %s); the later/earlier entry shadows" % (r, seen[r]), ent["loc"])
        seen[r] = ent["loc"]
        # ---- binary role
        if ent["apply"] is not None:
            nbin += 1
            want = spec["binary"].get(r)
            term, ncalls, err = _term_of(fb, ent["apply"], 2)
            if err:
                chk.unrecognised("R19.1", "bin:%s" % r, err, ent["loc"])
            elif want is None:
                # entry outside the documentation: accept only if self-consistent
                ok = isinstance(term, App) and term.info and term.info.get("name") == r and ncalls == 1
                if ok:
                    chk.ok("R19.1", "bin:%s" % r, "undocumented entry, self-consistent: " + show(term), ent["loc"])
                else:
                    chk.violation("R19.1", "bin:%s" % r, "binary operator %r is not in the documented table and does not call a primitive of its own name: %s" % (r, show(term)), ent["loc"])
            else:
                ok, why = _match_call(term, want, 2, want["order"])
                if ok and ncalls != 1:
                    ok, why = False, "%d external calls in the operator function, expected exactly 1" % ncalls
                if ok:
                    chk.ok("R19.1", "bin:%s" % r, show(term) + " " + why, ent["loc"])
                    chk.sample({"op": r, "role": "binary", "term": show(term), "loc": ent["loc"]})
                else:
                    chk.violation("R19.1", "bin:%s" % r, "binary %r: %s" % (r, why), ent["loc"],
                                  fragment=mir.fmt_body(tables.target_body(fb, ent["apply"])))
        # ---- unary role
        if ent["unary"] is not None:
            term, ncalls, err = _term_of(fb, ent["unary"], 1)
            key = "un:%s" % r
            if err:
                chk.unrecognised("R19.1", key, err, ent["loc"])
                continue
            if ent["apply"] is not None:
                nextra += 1
                want = spec["unary_of_binary"].get(r)
                if want is None:
                    chk.violation("R19.1", key, "operator %r has an undocumented unary role: %s" % (r, show(term)), ent["loc"])
                elif want == "identity":
                    if isinstance(term, Sym) and term.name == "p0" and ncalls == 0:
                        chk.ok("R19.1", key, "identity", ent["loc"])
                    else:
                        chk.violation("R19.1", key, "unary %r must be the identity, is %s" % (r, show(term)), ent["loc"])
                else:
                    ok, why = _match_call(term, want, 1, "ab")
                    if ok and ncalls != 1:
                        ok, why = False, "%d external calls" % ncalls
                    (chk.ok("R19.1", key, show(term), ent["loc"]) if ok else
                     chk.violation("R19.1", key, "unary %r: %s" % (r, why), ent["loc"]))
            else:
                nun += 1
                m = spec["unary"].get(r)
                want = {"crate": "num_traits", "trait": "Float", "method": m if m else r}
                ok, why = _match_call(term, want, 1, "ab")
                if ok and ncalls != 1:
                    ok, why = False, "%d external calls in the operator function, expected exactly 1" % ncalls
                if ok:
                    chk.ok("R19.1", key, show(term) + ("" if m else " (undocumented, self-consistent)"), ent["loc"])
                    chk.sample({"op": r, "role": "unary", "term": show(term), "loc": ent["loc"]})
                else:
                    chk.violation("R19.1", key, "unary %r: %s" % (r, why), ent["loc"],
                                  fragment=mir.fmt_body(tables.target_body(fb, ent["unary"])))
        # ---- constants
        if ent["ctor"] == "make_constant":
            ncon += 1
            key = "const:%s" % r
            want = spec["constants"].get(r)
            c = ent["constant"]
            # expected shape: Option::unwrap(NumCast::from(<named f64 const>))
            inner = None
            if isinstance(c, App) and c.fn.endswith("Option::<T>::unwrap") and len(c.args) == 1:
                f = c.args[0]
                if isinstance(f, App) and f.info and f.info.get("crate") == "num_traits" and f.info.get("name") == "from" \
                        and (f.info.get("trait") or "").endswith("NumCast") and len(f.args) == 1:
                    inner = f.args[0]
            if not isinstance(inner, Const):
                chk.unrecognised("R19.2", key, "constant is not NumCast::from(<const>).unwrap(): %s" % show(c), ent["loc"])
                continue
            if want is None:
                chk.violation("R19.2", key, "constant %r is not in the documented table" % r, ent["loc"])
                continue
            named_ok = bool(inner.named) and inner.named.endswith("f64::consts::" + want)
            bits_ok = inner.bits is not None and inner.bits == bits[want]
            if inner.bits is None:
                # unevaluated in generic context: fall back on the item path alone
                bits_ok = named_ok
            if bits_ok and (named_ok or inner.named is None):
                chk.ok("R19.2", key, "%s = %s bits=%s" % (r, inner.named or inner.text, inner.bits), ent["loc"])
                chk.sample({"const": r, "value": inner.named or inner.text, "bits": inner.bits})
            else:
                chk.violation("R19.2", key, "constant %r is %s (bits %s), documented value is f64::consts::%s" % (
                    r, inner.named or inner.text, inner.bits, want), ent["loc"])
    # every documented entry must exist
    for r in spec["binary"]:
        if r not in seen or not any(e["repr"] == r and e["apply"] is not None for e in tab):
            chk.violation("R19.1", "missing-bin:%s" % r, "documented binary operator %r is missing from the table" % r, loc(make["span"]))
    for r in spec["unary_of_binary"]:
        if not any(e["repr"] == r and e["unary"] is not None for e in tab):
            chk.violation("R19.1", "missing-un:%s" % r, "documented unary role of %r is missing" % r, loc(make["span"]))
    for r in spec["unary"]:
        if not any(e["repr"] == r and e["unary"] is not None and e["apply"] is None for e in tab):
            chk.violation("R19.1", "missing-un:%s" % r, "documented unary operator %r is missing from the table" % r, loc(make["span"]))
    for r in spec["constants"]:
        if not any(e["repr"] == r and e["ctor"] == "make_constant" for e in tab):
            chk.violation("R19.2", "missing-const:%s" % r, "documented constant %r is missing" % r, loc(make["span"]))
    chk.floor("R19.1", "binary entries", nbin, 8)
    chk.floor("R19.1", "unary-only entries", nun, 26)
    chk.floor("R19.1", "extra unary roles", nextra, 2)
    chk.floor("R19.2", "constants", ncon, 6)

    # ---- R19.4 defaults
    for adt_suffix in ("flat::FlatEx", "deep::DeepEx"):
        adts = [a for p, a in fb.adts.items() if p.endswith(adt_suffix)]
        if len(adts) != 1:
            chk.violation("R19.4", "adt:%s" % adt_suffix, "anchor: type %s not found" % adt_suffix)
            continue
        g = {x["name"]: x["default"] for x in adts[0]["generics"]}
        d = g.get("OF")
        if d and "FloatOpsFactory<T>" in d:
            chk.ok("R19.4", "default OF of %s" % adt_suffix, d, loc(adts[0]["span"]))
        else:
            chk.violation("R19.4", "default-OF:%s" % adt_suffix, "default operator factory of %s is %r, documented: FloatOpsFactory<T>" % (adt_suffix, d), loc(adts[0]["span"]))
    for fname in ("eval_str", "parse"):
        bs = fb.find_bodies(lambda b: b["kind"] == "Fn" and b["path"] == fname)
        if len(bs) != 1:
            chk.violation("R19.4", "entry:%s" % fname, "anchor: top-level fn %s not found" % fname)
            continue
        ok = False
        for _, t in mir.calls(bs[0]):
            f = t["func"]
            if f.get("k") == "fndef" and f["name"] in ("parse", "parse_wo_compile"):
                sk = f.get("self_kind") or {}
                tys = " ".join(sk.get("args", [])) + " " + " ".join(f.get("args", []))
                # type strings elide default arguments; self_kind.args lists them explicitly
                if "FloatOpsFactory<T>" in tys and (sk.get("path", "").endswith("FlatEx") or "FlatEx" in (f.get("impl_self_ty") or "")):
                    ok = True
        if ok:
            chk.ok("R19.4", "entry:%s uses FloatOpsFactory<T>" % fname, "", loc(bs[0]["span"]))
        else:
            chk.violation("R19.4", "entry:%s" % fname, "%s does not parse with FlatEx<T, FloatOpsFactory<T>, _>" % fname, loc(bs[0]["span"]))

    # ---- R19.3 forwarding of num::Float to the primitives
    from analysis.interp import Interp as _I, Policy as _P
    used = {v["method"] for v in spec["binary"].values() if v["trait"] == "Float"} | set(spec["unary"].values())
    impls = {(x["ty"], x["method"]): x for x in fb.raw.get("float_impls", [])}
    n3 = 0
    for ty in ("f32", "f64"):
        for m in sorted(used):
            x = impls.get((ty, m))
            if x is None:
                chk.violation("R19.3", "forward:%s:%s" % (ty, m), "no MIR for <%s as num::Float>::%s: forwarding cannot be confirmed" % (ty, m))
                continue
            body = {"path": x["impl_path"], "blocks": x["blocks"], "arg_count": x["arg_count"], "kind": "AssocFn",
                    "span": {"file": "num-traits", "line": 0, "col": 0}, "locals": []}
            ps = _I(fb, _P()).run(body, [Sym("p%d" % i) for i in range(x["arg_count"])])
            n3 += 1
            ok = False
            if len(ps) == 1 and ps[0].status == "return" and isinstance(ps[0].result, App):
                r = ps[0].result
                want = r"^(std|core)::%s::<impl %s>::%s$" % (ty, ty, m)
                import re as _re
                if _re.match(want, r.fn) and [a.name if isinstance(a, Sym) else None for a in r.args] == ["p%d" % i for i in range(x["arg_count"])]:
                    ok = True
            if ok:
                chk.ok("R19.3", "<%s as Float>::%s forwards to %s::%s" % (ty, m, ty, m), show(ps[0].result))
            else:
                chk.violation("R19.3", "forward:%s:%s" % (ty, m), "<%s as num::Float>::%s is not a plain forward to the primitive: %s" % (
                    ty, m, show(ps[0].result)[:120] if ps and ps[0].result is not None else [p.status for p in ps]))
    chk.floor("R19.3", "forwarding impls checked", n3, 58)
