"""C11 — Substitution replaces variables simultaneously and keeps the rest (structural clauses)."""
import re

from analysis import mir, dom, typestate
from analysis.facts import loc
from analysis.interp import Interp, Policy, Sym, show

LEVEL = "other"
TECHNIQUE = "TAINT/ORIGIN: the result of the substitution callback never reaches the receiver of a recursive subs call; TYPESTATE of the rebuilt variable list and origin of every name pushed into it; TERM of the flat wrapper"
EXPLANATION = (
    "Decides for every expression and substitution map: (R11.1) in DeepEx::subs the receiver of every recursive subs call is the "
    "original child taken out of its node, never a value derived from the callback's result - replacements are not re-substituted; "
    "a replacement is installed as the node unchanged; (R11.2) the variable list installed afterwards is Sorted+Deduplicated (C04 engine) "
    "and every name pushed into it comes from a replacement's variable list, from a recursively substituted child's list, or is the "
    "untouched variable itself; (R11.3) the flat wrapper is to_deepex -> subs -> from_deepex. "
    "Not decided: value semantics of the substituted expression."
)
TRUSTED = ["rustc MIR construction", "exporter faithfulness", "C04 R04.2 typestate engine"]


def run(ctx):
    chk, fb = ctx.check, ctx.fb
    chk.rule("R11.1", "recursive subs only on the original child; the callback's result is installed as is")
    chk.rule("R11.2", "rebuilt variable list is Sorted+Dedup; pushed names come from replacements, substituted children, or the untouched variable")
    chk.rule("R11.3", "Calculate::subs = from_deepex(subs(to_deepex(self), ..))")
    bs = fb.find_bodies(lambda b: b["kind"] == "AssocFn" and b.get("name") == "subs" and (b.get("impl_self_ty") or "").startswith("expression::deep::DeepEx<"))
    if len(bs) != 1:
        chk.violation("R11.1", "anchor", "DeepEx::subs not found")
        return
    b = bs[0]
    org = dom.Origins(b)
    CB = r"std::ops::FnMut::call_mut\(param:\w+, "
    rec = [t for _, t in mir.calls(b) if mir.callee_path(t) == b["path"]]
    cbs = [t for _, t in mir.calls(b) if (mir.callee_path(t) or "").endswith("FnMut::call_mut") and org.op_term(t["args"][0]).startswith("param:")]
    if not cbs:
        chk.unrecognised("R11.1", "no-callback", "the substitution callback is never called", loc(b["span"]))
    if not rec:
        chk.violation("R11.1", "no-recursion", "subs does not descend into nested expressions", loc(b["span"]))
    for t in rec:
        recv = org.op_term(t["args"][0])
        if re.search(CB, recv):
            chk.violation("R11.1", "resubstitution", "a replacement returned by the callback is substituted again: receiver %s" % recv[:140], loc(t["span"]))
        elif re.match(r"^std::mem::(take|replace)\(.* as Expr\)", recv) or re.search(r" as Expr\)", recv):
            chk.ok("R11.1", "recursive subs on the original child", recv[:100], loc(t["span"]))
        else:
            chk.unrecognised("R11.1", "receiver", "receiver of the recursive subs call not recognised: %s" % recv[:140], loc(t["span"]))
    # the replacement is installed unchanged: *node = DeepNode::Expr(Box::new(<callback result>))
    inst = 0
    for bi, si, st in mir.iter_stmts(b, mir.normal_blocks(b)):
        if st["k"] == "assign" and st["rv"]["k"] == "aggregate" and st["rv"].get("variant") == "Expr" and (st["rv"].get("adt") or "").endswith("DeepNode"):
            term = org.op_term(st["rv"]["ops"][0])
            if re.search(CB, term):
                inst += 1
                if re.match(r"^std::boxed::Box::<T>::new\(\(%s.*\) as Some\)\.0\)$" % CB, term):
                    chk.ok("R11.1", "replacement installed unchanged", term[:100], loc(st["span"]))
                else:
                    chk.violation("R11.1", "replacement-modified", "the replacement is transformed before it is installed: %s" % term[:160], loc(st["span"]))
    if inst == 0:
        chk.violation("R11.1", "no-install", "the callback's result is never installed as a node", loc(b["span"]))

    # ---- R11.4 what a node becomes, per kind (general trip of the loop over the nodes)
    chk.rule("R11.4", "node transfer: literal untouched; variable without replacement untouched; variable with replacement := Expr(the whole replacement); nested expression := Expr(subs(child))")
    from analysis import loops, rel
    from analysis.interp import App, Variant

    class PT(Policy):
        loop_mode = "widen"
        max_depth = 3

        def inline(self, fn, args, interp, path):
            return False

        def inline_closure(self, *a):
            return False
    allp = Interp(fb, PT()).run(b, [Sym("self_"), Sym("sub")])
    seen4 = {"Var+Some": 0, "Var+None": 0, "Expr": 0, "Num": 0}
    ok4 = all(p.status in ("return", "loop-pruned", "unreachable") for p in allp)
    if not ok4:
        chk.unrecognised("R11.4", "shape", "subs: %s" % [(p.status, p.note) for p in allp if p.status not in ("return", "loop-pruned", "unreachable")][:2], loc(b["span"]))
    for p in allp:
        for t in loops.trips(p, b["path"], 0):
            if not (t.general and t.post is not None):
                continue
            item = None
            kind = None
            cb_lab = None
            for d in t.decisions:
                c = rel.canon(d[1])
                if isinstance(c, App) and c.fn == "discr":
                    x = c.args[0]
                    s = rel.cstr(x)
                    if re.match(r"^\.0\(as:Some\(std::iter::Iterator::next\(", s) and kind is None and d[2] in ("Var", "Expr", "Num", "otherwise"):
                        item, kind = x, d[2]
                    elif "FnMut::call_mut(" in s and s.startswith("std::ops::FnMut::call_mut("):
                        cb_lab = d[2]
            if item is None:
                continue
            writes = [e for e in t.events if e[0] == "write_opaque" and rel.canon(e[1]).key() == item.key()]
            if kind == "Var" and cb_lab == "Some":
                seen4["Var+Some"] += 1
                good = len(writes) == 1
                if good:
                    v = rel.canon(writes[0][3])
                    good = isinstance(v, Variant) and v.variant == "Expr" and re.match(
                        r"^\.0\(as:Some\(std::ops::FnMut::call_mut\(.*, \(\.1\(\.0\(as:Var\(%s\)\)\)\)\)\)\)$" % re.escape(rel.cstr(item)), rel.cstr(v.fields.get("0"))) is not None
                if not good and ok4:
                    ok4 = False
                    chk.violation("R11.4", "replacement-node", "a replaced variable node becomes %s, expected Expr(<the replacement returned for this variable's name>): a shortcut loses part of the replacement (e.g. its unary operators)" % [
                        rel.cstr(w[3])[:140] for w in writes], loc(b["span"]))
            elif kind == "Var":
                seen4["Var+None"] += 1
                if writes and ok4:
                    ok4 = False
                    chk.violation("R11.4", "untouched-variable", "a variable without replacement is modified: %s" % rel.cstr(writes[0][3])[:120], loc(b["span"]))
            elif kind == "Expr":
                seen4["Expr"] += 1
                good = len(writes) == 1
                if good:
                    v = rel.canon(writes[0][3])
                    good = isinstance(v, Variant) and v.variant == "Expr" and rel.cstr(v.fields.get("0")).startswith(b["path"] + "(std::mem::take(") and rel.cstr(item) in rel.cstr(v.fields.get("0"))
                if not good and ok4:
                    ok4 = False
                    chk.violation("R11.4", "nested-node", "a nested expression node becomes %s, expected Expr(subs(<that child>))" % [rel.cstr(w[3])[:140] for w in writes], loc(b["span"]))
            else:
                seen4["Num"] += 1
                if writes and ok4:
                    ok4 = False
                    chk.violation("R11.4", "literal-node", "a literal node is modified by subs", loc(b["span"]))
    # the rebuilt list is installed on every path (R11.2): a skipped re-indexing leaves stale indices in nested expressions
    rets = [p for p in allp if p.status == "return"]
    skipped = [p for p in rets if not any(e[0] == "call" and e[1].endswith("::reset_vars") for e in p.events)]
    if rets and skipped:
        conds = [(rel.cstr(d[1])[:80], d[2]) for d in skipped[0].decisions][-3:]
        chk.violation("R11.2", "reset-skipped", "subs returns on %d of %d paths without re-indexing the variables with the rebuilt list (%s)" % (len(skipped), len(rets), conds), loc(b["span"]))
    elif rets:
        chk.ok("R11.2", "every return path re-indexes the variables", "%d paths" % len(rets), loc(b["span"]))
    if ok4 and all(seen4.values()):
        chk.ok("R11.4", "node transfer per kind", str(seen4), loc(b["span"]))
    elif ok4:
        chk.unrecognised("R11.4", "trips", "node kinds seen in the loop over the nodes: %s" % seen4, loc(b["span"]))

    # ---- R11.2
    eng = typestate.SortedNames(fb)
    rv = [t for _, t in mir.calls(b) if (mir.callee_path(t) or "").endswith("::reset_vars")]
    if len(rv) != 1:
        chk.violation("R11.2", "no-reset", "subs does not re-index the variables once with the rebuilt list", loc(b["span"]))
    else:
        lst = org.op_term(rv[0]["args"][1])
        r = eng.classify(b, lst)
        if r.ok and r.kind == "SORTED":
            chk.ok("R11.2", "rebuilt list is sorted and duplicate-free", r.why[:120], loc(rv[0]["span"]))
        else:
            chk.violation("R11.2", "unsorted", "the variable list installed by subs may be unsorted or contain duplicates: %s" % r.why, loc(rv[0]["span"]))
    pushes = [t for _, t in mir.calls(b) if (mir.callee_path(t) or "").endswith("FnMut::call_mut") and org.op_term(t["args"][0]).startswith("var:")]
    kinds = set()
    for t in pushes:
        a = org.op_term(t["args"][1])
        if re.search(r"expression::Express::var_names\(.*%s" % CB, a) or re.search(r"iter#\d+\) as Some\)\.0\)\}$", a) and False:
            kinds.add("replacement")
        # resolve the iterated collection of `for vn in X.var_names()`
        # (the name is handed over cloned, or by reference and cloned by the closure: Clone::clone is the identity on values)
        m = re.match(r"^tuple\{(?:std::clone::Clone::clone\()?\(std::iter::Iterator::next\(var:([^\s()]+)\) as Some\)\.0\)?\}$", a)
        if m:
            li = org.local_by_name(m.group(1))
            dt = org.def_term(li) if li is not None else ""
            if re.search(r"expression::Express::var_names\(.*%s" % CB, dt or ""):
                kinds.add("replacement")
            elif re.search(r"expression::Express::var_names\(%s\(" % re.escape(b["path"]), dt or ""):
                kinds.add("child")
            else:
                chk.unrecognised("R11.2", "push-origin", "a name pushed into the rebuilt list comes from %s" % (dt or a)[:140], loc(t["span"]))
        elif re.match(r"^tuple\{(?:std::clone::Clone::clone\()?\(.* as Var\)\.0\.1\)?\}$", a):
            kinds.add("untouched")
        else:
            chk.unrecognised("R11.2", "push-origin", "a name pushed into the rebuilt list is not recognised: %s" % a[:140], loc(t["span"]))
    for k, what in (("replacement", "the variables of a replacement are not added to the variable list"),
                    ("child", "the variables of a substituted nested expression are not added to the variable list"),
                    ("untouched", "a variable that is not replaced is dropped from the variable list")):
        if k in kinds:
            chk.ok("R11.2", "names pushed: %s" % k, "", loc(b["span"]))
        else:
            chk.violation("R11.2", "missing-names:%s" % k, what, loc(b["span"]))

    chk.rule("R11.5", "Calculate::subs has one implementation (the provided wrapper): no expression type overrides it")
    from rules import c10 as _c10
    _c10.no_overrides(chk, fb, "R11.5", "expression::calculate::Calculate", {"subs"}, "an own implementation bypasses the simultaneous substitution of DeepEx::subs decided by R11.1-R11.4")
    # ---- R11.3
    cs = fb.find_bodies(lambda x: x["kind"] == "AssocFn" and x.get("name") == "subs" and x.get("trait_default_of", "").endswith("calculate::Calculate"))
    if len(cs) != 1:
        chk.violation("R11.3", "anchor", "Calculate::subs not found")
    else:
        class P(Policy):
            try_mode = "ok_only"

            def inline(self, fn, args, interp, path):
                # a private helper of the wrappers (`with_deepex(self, |d| ..)`): part of the wrapper
                b_ = interp.callee_body(fn)
                return b_ is not None and b_["path"].startswith("expression::calculate::") and not b_.get("trait_default_of") and not b_.get("public")
        from analysis.interp import App as _App, Variant as _Variant

        def strip_ok(v):
            if isinstance(v, _App):
                if v.fn == ".0" and len(v.args) == 1 and isinstance(v.args[0], _App) and v.args[0].fn == "as:Ok" and len(v.args[0].args) == 1:
                    return strip_ok(v.args[0].args[0])
                if v.fn == "ok" and len(v.args) == 1:
                    return strip_ok(v.args[0])
                return _App(v.fn, [strip_ok(a) for a in v.args])
            return v
        ps = [p for p in Interp(fb, P()).run(cs[0], [Sym("self_"), Sym("sub")]) if p.status == "return" and not (isinstance(p.result, _Variant) and p.result.variant == "Err")]
        s = show(strip_ok(ps[0].result)) if len(ps) == 1 else "%d paths" % len(ps)
        if re.match(r"^expression::Express::from_deepex\(mut:%s\(expression::Express::to_deepex\(self_\), closure<\{closure#\d+\}>\)\)$" % re.escape(b["path"]), s) or \
                re.match(r"^expression::Express::from_deepex\(%s\(expression::Express::to_deepex\(self_\), closure<\{closure#\d+\}>\)\)$" % re.escape(b["path"]), s):
            chk.ok("R11.3", "flat wrapper = from_deepex(subs(to_deepex(self)))", "", loc(cs[0]["span"]))
        else:
            chk.violation("R11.3", "wrapper", "Calculate::subs is not convert -> subs -> convert back: %s" % s[:200], loc(cs[0]["span"]))
