"""Necessary conditions shared between properties.

A clause that one property's module decides is often a necessary condition of another property as well, because the
other property's behaviour is computed by the same code (folding uses the application order, flat <-> deep agreement
needs folding to be invisible, a panic on some input breaks every "for every input" statement about that input ...).
A property's check therefore also runs the listed rules of the listed modules and reports their violations under its
own property id, with the foreign rule id kept (so `R14.3` under C01 is the same rule instance as under C14).  The
table is explicit - no transitive closure - and every line says why the clause is necessary for the importing property.

  IMPORTS[pid] = [(module, rule ids or None for all, reason)]
"""

ORDER = ["R01.1", "R01.2", "R01.3", "R01.4", "R01.5"]
UNARY = ["R01.7", "R01.8"]
CONV = ["R03.2", "R03.3", "R03.4", "R03.5", "R03.6", "R03.7"]
NAMES = ["R04.2", "R04.3", "R04.4", "R04.5"]

IMPORTS = {
    "C01": [("c14", None, "evaluation reduces the operands through the number tracker"),
            ("c15", None, "eval_vec / eval_iter are evaluation entry points"),
            ("c02", None, "parsing folds constant sub-expressions before anything is evaluated"),
            ("c08", None, "binary operators in function-call notation are rewritten to the infix form that is evaluated"),
            ("c03", ["R03.3"], "the deep -> flat conversion scales nested priorities by the same kind of step")],
    "C02": [("c16", ["R16.4"], "only associative-commutative operators of the value table may be flagged commutative (folding regroups flagged operators)"),
            ("c01", ORDER + UNARY + ["R01.6"], "folding visits the operators in the application order and applies the literals' unary compositions"),
            ("c14", None, "the flat pre-pass and the flat -> deep converter reduce through the number tracker"),
            ("c03", ["R03.4", "R03.5", "R03.6"], "a flat expression reaches the (always folding) deep form through the per-node converter")],
    "C03": [("c01", ORDER + UNARY, "both forms must apply the operators in the same order"),
            ("c02", None, "the deep form always folds: the forms agree only if folding is invisible"),
            ("c14", None, "the converter and both evaluators reduce through the number tracker"),
            ("c04", NAMES, "same list of variables in both forms")],
    "C04": [("c15", None, "consuming evaluation binds the n-th value to the n-th name"),
            ("c10", ["R10.1", "R10.5"], "derived expressions keep the union of the names: shortcuts and lifting must not drop an operand's names"),
            ("c11", ["R11.2"], "the list rebuilt by substitution is sorted and duplicate-free"),
            ("c09", ["R09.3"], "a derivative keeps the names of its antiderivative")],
    "C05": [("c10", None, "the rules build their results with the operator-application machinery"),
            ("c03", ["R03.4", "R03.6"], "a flat expression is differentiated as its deep conversion"),
            ("c18", ["R18.1", "R18.3"], "the rules for comparison / piecewise operators and how the rules' numeric constants enter the data type")],
    "C06": [("c17", None, "the value-typed operators are reachable from parse_val / eval"),
            ("c16", ["R16.3"], "unchecked integer arithmetic panics in debug builds"),
            ("c01", ["R01.5"], "the sort key must not overflow for any nesting depth"),
            ("c14", None, "an undersized or misused tracker shifts out of range / indexes out of bounds"),
            ("c07", ["R07.3", "R07.5"], "the builders index the token list unchecked: they may only run past the token check"),
            ("c07", ["R07.6"], "the tokenizer slices the text at its read position: a step that is not the byte length of a matched prefix can land inside a character or past the end"),
            ("c13", ["R13.7"], "the tokenizer slices the text at the offset the boundary helper returns"),
            ("c13", ["R13.5"], "a variable name is a slice of the text: the audited ranges are the matched identifier and `1..offset of the closing brace (or the end)` of a text that starts with the one-byte `{`; any other range may be out of bounds or inside a character")],
    "C07": [("c13", None, "what the tokenizer accepts as a token decides what is malformed"),
            ("c06", ["R06.1", "R06.2", "R06.3"], "a panic or a hang is not an error report")],
    "C08": [("c01", ORDER, "the rewritten call and its explicit form are evaluated through the same application order"),
            ("c02", None, "the deep form folds the rewritten tokens: folding must be invisible"),
            ("c06", ["R06.1"], "a panic on a nested call is not an accepted call"),
            ("c07", ["R07.1", "R07.6"], "the parentheses the comma step adds go through the same balance check")],
    "C09": [("c04", NAMES, "same variable list, re-indexed by name"),
            ("c03", CONV, "a flat expression is differentiated through the deep form and back: the converters must keep the list")],
    "C10": [("c03", CONV, "operators are applied to flat expressions through the deep form and back"),
            ("c04", NAMES, "the result lists the union of the names and re-indexes both operands"),
            ("c06", ["R06.1"], "a panic in the application machinery is not a result"),
            ("c16", ["R16.6"], "the shortcuts decide by T: PartialEq (is_zero / is_one): for the value type equality has to be exact")],
    "C11": [("c01", ORDER + UNARY, "the substituted expression is compiled and evaluated in the application order"),
            ("c03", CONV, "flat expressions are substituted through the deep form and back"),
            ("c04", NAMES, "the substituted expression's list is rebuilt and re-indexed")],
    "C12": [("c05", ["R05.7"], "the printed names have to stay aligned with the functions they name"),
            ("c03", ["R03.3", "R03.4", "R03.5", "R03.6"], "printing a flat expression prints its deep conversion"),
            ("c10", ["R10.3"], "the printed operator is looked up by name"),
            ("c01", ["R01.7"], "the printed order of a unary composition is the applied order")],
    "C13": [("c06", ["R06.1"], "a panic while matching a token is not a lexical decision"),
            ("c19", ["R19.1"], "the default operator names and their roles (unary / binary) are part of the lexical rules"),
            ("c07", ["R07.4", "R07.6", "R07.7"], "nothing-matches is an error; no text is skipped; the convenience functions tokenize like the parsers")],
    "C14": [("c06", ["R06.1"], "shifts and index arithmetic of the tracker must not panic"),
            ("c15", None, "the consuming evaluators keep their own occurrence bookkeeping next to the tracker")],
    "C15": [("c04", ["R04.1"], "both evaluation styles check the arity before any value is used")],
    "C16": [("c17", None, "an operator that panics has no result kind"),
            ("c01", ORDER, "operands are only regrouped inside a chain of one commutative operator")],
    "C17": [("c16", None, "wrong operand kinds, overflow and invalid casts have to come out as the documented error value (kind table), never wrapped"),
            ("c06", ["R06.5"], "an iteration whose length is an operand value has to be able to stop")],
    "C18": [("c05", None, "the value-typed derivative runs through the same rules, driver and table lookup"),
            ("c16", ["R16.2", "R16.6"], "the piecewise operators the rules emit have to mean what the rules assume")],
    "C19": [("c10", ["R10.1", "R10.2", "R10.3"], "operators applied through the operator API (overloads, operate_binary) have to reach the table entry of that name with the operands in order"),
            ("c08", None, "binary functions are usually written in call notation: atan2(y, x)"),
            ("c01", ORDER + UNARY, "a one-operator expression must evaluate to that operator applied to its operands")],
}


class Imported:
    """Proxy for report.Check that lets through only the listed rule ids of an imported module."""

    def __init__(self, chk, src, allow):
        self._chk, self._src, self._allow = chk, src, (set(allow) if allow is not None else None)
        self.seen = 0

    def _let(self, rid):
        return rid in ("ANCHOR", "INTERNAL") or self._allow is None or rid in self._allow

    def rule(self, rid, text):
        if self._let(rid):
            self._chk.rule(rid, "[shared with %s] %s" % (self._src, text))

    def ok(self, rule, name, detail="", loc=None):
        if self._let(rule):
            self.seen += 1
            self._chk.ok(rule, name, detail, loc)

    def violation(self, rule, key, what, loc=None, fragment=None, extra=None):
        if self._let(rule):
            self.seen += 1
            self._chk.violation(rule, key, what, loc, fragment, extra)

    def unrecognised(self, rule, key, what, loc=None, fragment=None):
        if self._let(rule):
            self.seen += 1
            self._chk.unrecognised(rule, key, what, loc, fragment)

    def floor(self, rule, what, count, minimum):
        if self._let(rule):
            self._chk.floor(rule, what, count, minimum)

    def sample(self, s):
        pass

    def note(self, s):
        pass

    def __getattr__(self, name):
        return getattr(self._chk, name)


def run_imports(pid, ctx, make_ctx):
    """Run the imported clauses of `pid` into ctx.check.  make_ctx(check) -> a context like ctx with that check."""
    import importlib
    from analysis import facts
    for modname, allow, reason in IMPORTS.get(pid, []):
        mod = importlib.import_module("rules." + modname)
        proxy = Imported(ctx.check, modname.upper(), allow)
        try:
            mod.run(make_ctx(proxy))
        except facts.AnchorError as e:
            ctx.check.violation("ANCHOR", "anchor:%s" % modname, "anchor missing or ambiguous in shared clauses of %s (fail closed): %s" % (modname.upper(), e))
        if proxy.seen == 0:
            ctx.check.violation("IMPORT", "empty:%s" % modname, "the shared clauses %s of %s produced no obligation (rule ids changed?)" % (sorted(allow) if allow else "all", modname.upper()))
        ctx.check.note("shared clauses of %s (%s): %s" % (modname.upper(), ", ".join(sorted(allow)) if allow else "all", reason))
