"""C07 — Malformed expressions are reported as errors, never evaluated (structural clauses)."""
import re

from analysis import mir, dom, order, rel, loops
from analysis.callgraph import CallGraph
from analysis.facts import loc
from analysis.interp import Interp, Policy, Sym, Variant, Closure, Tup, Const, App, show

LEVEL = "other"
TECHNIQUE = "DOM: dominating guard edges on the MIR CFG (with loops) with the relation holding on the edge derived from the comparison; DECIDE: path decisions of the token check and of its parenthesis-counting closure by abstract interpretation; WHO: call-graph funnel of every parser entry through the guarded functions"
EXPLANATION = (
    "Decides, for every token sequence: (R07.1) the token check returns Ok only on a path where the sequence is non-empty, "
    "the parenthesis scan succeeded, the counter it updates is zero afterwards and the last token is not an operator; the scan "
    "closure adds +1/-1 exactly for opening/closing parentheses and returns Err as soon as the running count is negative; "
    "(R07.3) both expression builders return Ok only past an edge on which #operators + 1 == #operands holds (relation derived "
    "from the comparison, operands traced to the two vectors); (R07.4) in the tokenizer, the branch taken when nothing matches "
    "reaches only an Err return; (R07.5) every parser entry point reaches a builder only through a function that runs the token "
    "check on the same token vector first (`?` success edge dominates the builder call). "
    "Not claimed: the seven pair rules (shown at design time not to be necessary for acceptance), and that the tokenizer "
    "produces the right tokens for a damaged text."
)
TRUSTED = ["rustc MIR construction", "exporter faithfulness", "std iterator adaptors call the closure on every element in order"]

TOK = "parser::ParsedToken"


class _NoInline(Policy):
    max_depth = 4

    def inline(self, fn, args, interp, path):
        return False


def _kind_of(org, term):
    """'ops' / 'nodes' for a len(..) argument, from the static type of the measured container."""
    m = re.match(r"^.*::len\((.*)\)$", term)
    inner = m.group(1) if m else term
    ty = org.types.get(inner) or ""
    if not ty:
        # var:NAME -> look the local up by debug name
        mm = re.match(r"^(var|param):(\w+)", inner)
        if mm:
            for l in org.body["locals"]:
                if l.get("name") == mm.group(2):
                    ty = l["ty"]
    if "FlatOp" in ty or "BinOpWithIdx" in ty or "BinOp<" in ty:
        return "ops"
    if "FlatNode" in ty or "DeepNode" in ty:
        return "nodes"
    return None


def count_guard_ok(body, okb, org):
    """Is block `okb` dominated by an edge on which  #ops + 1 == #nodes  holds?"""
    for (s, lab, term, span) in dom.dominating_guards(body, okb, org):
        r = dom.relation(term, lab)
        if not r or r[0] != "==":
            continue
        diff = r[1]
        kinds = {}
        const = diff.get("1", 0)
        okshape = True
        for k, v in diff.items():
            if k == "1":
                continue
            kd = _kind_of(org, k)
            if kd is None:
                okshape = False
            kinds[kd] = kinds.get(kd, 0) + v
        if not okshape:
            continue
        # ops + 1 - nodes == 0  (or negated)
        if (kinds.get("ops"), kinds.get("nodes"), const) in ((1, -1, 1), (-1, 1, -1)):
            return True, term, span
    return False, None, None


class paren_loop:
    """Loop form of the parenthesis scan (`for tok in tokens { if let Paren(p) = tok { n += +-1; if n < 0 { return Err } } }`),
    decided from the loop's general trip (analysis/loops.py): the counter starts at 0, every token is visited in order,
    '(' adds 1, ')' subtracts 1 and the trip only completes when the new count is not negative, other tokens leave it alone;
    an Ok return needs the count to be 0 when the loop has been left through its exhausted iterator."""

    def __new__(cls, fb, tc, allp):
        self = object.__new__(cls)
        self.problems = []
        self.tc = tc
        gen = []
        for p in allp:
            for t in loops.all_trips(p):
                if t.general and t.post is not None:
                    gen.append(t)
        # the counter: a loop-carried local that some general trip changes by a constant
        cand = {}
        for t in gen:
            for L, v in t.post.items():
                pre = t.pre.get(L)
                if pre is not None and isinstance(v, App) and v.fn == "binop:Add" and len(v.args) == 2 and v.args[0].key() == pre.key() and rel.const_int(v.args[1]) is not None:
                    cand.setdefault(((t.body_path, t.header), L), set()).add(rel.const_int(v.args[1]))
        cand = {k: v for k, v in cand.items() if v == {1, -1} or v == {1} or v == {-1}}
        if len(cand) != 1:
            return None
        (self.H, self.C), _ = next(iter(cand.items()))
        seen = {"Open": 0, "Close": 0, "other": 0}
        for t in gen:
            if (t.body_path, t.header) != self.H:
                continue
            pre, post = t.pre[self.C], t.post.get(self.C)
            tags = [(rel.cstr(d[1].args[0]), d[2]) for d in t.decisions if isinstance(d[1], App) and d[1].fn == "discr"]
            kind = None
            for s, l in tags:
                if l in ("Open", "Close") and "as:Paren(" in s:
                    kind = l
            is_paren = any(l == "Paren" for s, l in tags)
            delta = None
            if post is not None and post.key() == pre.key():
                delta = 0
            elif isinstance(post, App) and post.fn == "binop:Add" and post.args[0].key() == pre.key():
                delta = rel.const_int(post.args[1])
            if delta is None:
                self.problems.append("the counter is updated to %s" % show(post)[:80])
                continue
            if kind is None and not is_paren:
                seen["other"] += 1
                if delta != 0:
                    self.problems.append("a token that is not a parenthesis changes the counter by %+d" % delta)
                continue
            if kind is None:
                self.problems.append("parenthesis kind not decided on a trip that changes the counter by %+d" % delta)
                continue
            seen[kind] += 1
            want = 1 if kind == "Open" else -1
            if delta != want:
                self.problems.append("counter update for %s is %+d, expected %+d" % (kind, delta, want))
                continue
            if kind == "Close":
                F = rel.Facts(type("P", (), {"decisions": t.decisions})())
                nonneg = any((op == "<=" and rel.const_int(a) == 0 and b.key() == rel.canon(post).key()) or
                             (op == "<" and rel.const_int(a) == -1 and b.key() == rel.canon(post).key()) for a, op, b in F.rel)
                if not nonneg:
                    self.problems.append("a closing parenthesis is accepted without testing that the running count stays >= 0")
        if not (seen["Open"] and seen["Close"] and seen["other"]):
            self.problems.append("trips seen: %s" % seen)
        # start value and source
        self.start_ok = True
        for p in allp:
            ts = [t for t in loops.all_trips(p) if (t.body_path, t.header) == self.H]
            if not ts:
                continue
            first = ts[0]
            if rel.const_int(first.pre.get(self.C)) != 0:
                self.problems.append("the counter does not start at 0: %s" % show(first.pre.get(self.C)))
                break
        return self

    def verdict(self, p):
        """(scan ok, final ok) for one Ok path"""
        scan = not self.problems
        st = loops.exit_state(p, self.H[0], self.H[1], None)
        if st is None:
            return False, False     # Ok without ever reaching the scan
        c = st.get(self.C)
        # the loop is left through its own exit condition (iterator exhausted), not from inside a trip
        idx = [i for i, (k, x) in enumerate(p.trace) if k == "e" and x[0] == "loophead" and x[1] == self.H[1] and x[2] == self.H[0]]
        after = [x for k, x in p.trace[idx[-1] + 1:] if k == "d"]
        exhausted = bool(after) and isinstance(after[0][1], App) and after[0][1].fn == "discr" and "Iterator::next(" in show(after[0][1]) and after[0][2] == "None"
        # every token is visited in order
        ts = [t for t in loops.all_trips(p) if (t.body_path, t.header) == self.H]
        itl = [L for L, v in ts[0].pre.items() if "Iterator::enumerate(" in show(v) or "<impl [T]>::iter(toks)" in show(v)]
        src_ok = any(loops.seq_parts(ts[0].pre[L], p) == [("src", "toks", "fwd")] for L in itl)
        if rel.const_int(c) is not None:
            final = rel.const_int(c) == 0
        else:
            F = rel.Facts(type("P", (), {"decisions": after})())
            final = any(op == "==" and {rel.const_int(a), rel.const_int(b)} & {0} and (a.key() == rel.canon(c).key() or b.key() == rel.canon(c).key()) for a, op, b in F.rel)
        return (scan and exhausted and src_ok), final


def run(ctx):
    chk, fb = ctx.check, ctx.fb
    chk.rule("R07.1", "token check: Ok only if non-empty AND paren scan ok AND final count == 0 AND last token not an operator; scan: +1 '(' / -1 ')' and Err when the running count < 0")
    chk.rule("R07.3", "builders: every Ok return is dominated by an edge on which #operators + 1 == #operands")
    chk.rule("R07.4", "tokenizer: the nothing-matches branch reaches only an Err return")
    chk.rule("R07.5", "every parser entry reaches a builder only through a function where the `?`-success edge of the token check on the same tokens dominates the builder call")

    # ---------------- R07.1 -----------------------------------------------------------
    cands = fb.find_bodies(lambda b: b["kind"] == "Fn" and b["arg_count"] == 1 and "ParsedToken<" in b["locals"][1]["ty"]
                           and b["locals"][0]["ty"].startswith("std::result::Result<(), ") and b.get("public"))
    if len(cands) != 1:
        chk.violation("R07.1", "anchor", "token precondition check not found by role (fn(&[ParsedToken]) -> ExResult<()>): %s" % [c["path"] for c in cands])
        return
    tc = cands[0]

    class _Widen(_NoInline):
        """private helpers of the parser module are inlined: the checks may live in functions of their own"""
        loop_mode = "widen"
        max_depth = 4

        def inline(self, fn, args, interp, path):
            return fn.get("path", "").startswith("parser::") and fn.get("name") not in (
                "tokenize_and_analyze", "make_pair_pre_conditions", "find_op_of_comma", "is_operator_binary", "check_parsed_token_preconditions")
    allp = Interp(fb, _Widen()).run(tc, [Sym("toks")])
    ps = [p for p in allp if p.status != "loop-pruned"]
    loop_form = paren_loop(fb, tc, allp)
    bad = [p for p in ps if p.status not in ("return", "unreachable")]
    if bad:
        chk.unrecognised("R07.1", "shape", "token check has a shape outside the accepted idioms: %s" % [(p.status, p.note) for p in bad][:2], loc(tc["span"]))
    okp = [p for p in ps if p.status == "return" and isinstance(p.result, Variant) and p.result.variant == "Ok"]
    chk.counts["token_check_paths"] = len(ps)
    if not okp:
        chk.unrecognised("R07.1", "no-ok", "no Ok path found in the token check", loc(tc["span"]))
    scan_closure = None
    fold_closure = None
    for p in okp:
        dec = [(show(d[1]), d[2], d[0]) for d in p.decisions]
        F = rel.Facts(p)
        LEN = "core::slice::<impl [T]>::len(toks)"
        g_empty = any(re.match(r"^core::slice::<impl \[T\]>::is_empty\(toks\)$", s) and l is False for s, l, _ in dec) or \
            any(rel.cstr(x) in ("core::slice::<impl [T]>::last(toks)", "core::slice::<impl [T]>::first(toks)", "core::slice::<impl [T]>::split_last(toks)") and l == "Some" for x, l in F.tags) or \
            any((op == "!=" and {rel.cstr(a), rel.cstr(b)} == {LEN, "0_usize"}) or (op == "<" and rel.cstr(a) == "0_usize" and rel.cstr(b) == LEN) or
                (op == "<=" and rel.cstr(a) == "1_usize" and rel.cstr(b) == LEN) for a, op, b in F.rel)
        # the counter: a value mutated by an iterator adaptor that received a closure capturing it mutably
        g_final = None
        for s, l, _ in dec:
            m = re.match(r"^binop:(Ne|Eq)\((mut:.*|ok\(std::iter::Iterator::try_fold\(.*\)\)|\.0\(as:Ok\(std::iter::Iterator::try_fold\(.*\)\)\)), 0_i32\)$", s)
            if m:
                g_final = (m.group(1) == "Ne" and l is False) or (m.group(1) == "Eq" and l is True)
                cnt_term = m.group(2)
        g_scan = None
        for d in p.decisions:
            if d[0] == "try" and d[2] == "ok" and re.match(
                    r"^std::iter::Iterator::collect\(std::iter::Iterator::map\((std::iter::Iterator::enumerate\()?core::slice::<impl \[T\]>::iter\(toks\)\)?, closure<\{closure#\d+\}>\)\)$",
                    show(d[1])):
                # the scan closure is applied to EVERY token, in order (no filter / skip / take / rev in between)
                for c in _closures(d[1]):
                    b = fb.bodies.get(c.path)
                    if b is not None and any(r.mut for r in []) is False and c.caps and any(
                            isinstance(v, Const) and v.ty == "i32" for v in c.caps.values()):
                        g_scan = True
                        scan_closure = c
            # fold form: tokens.iter().enumerate().try_fold(0, |cnt, (i, tok)| ..)? - every token, in order, starting at 0
            if d[0] == "try" and d[2] == "ok" and re.match(
                    r"^std::iter::Iterator::try_fold\((std::iter::Iterator::enumerate\()?core::slice::<impl \[T\]>::iter\(toks\)\)?, 0_i32, closure<\{closure#\d+\}>\)$", show(d[1])):
                for c in _closures(d[1]):
                    if fb.bodies.get(c.path) is not None:
                        g_scan = True
                        fold_closure = (c, "enumerate(" in show(d[1]))
        LAST = ("index(toks, binop:Sub(core::slice::<impl [T]>::len(toks), 1_usize))", ".0(as:Some(core::slice::<impl [T]>::last(toks)))")
        last_tags = [l for x, l in F.tags if rel.cstr(x) in LAST]
        g_last = bool(last_tags) and "Op" not in last_tags
        if loop_form is not None:
            g_scan, g_final = loop_form.verdict(p)
        for name, g, what in (("non-empty", g_empty, "Ok is returned without testing that the token sequence is non-empty"),
                              ("paren-scan", g_scan, "Ok is returned without a successful parenthesis scan (negative running count not rejected)%s" % (
                                  (": " + "; ".join(loop_form.problems[:3])) if loop_form is not None and loop_form.problems else "")),
                              ("final-count", g_final, "Ok is returned without the parenthesis counter being zero at the end (unclosed parenthesis accepted)"),
                              ("last-not-op", g_last, "Ok is returned although the last token may be an operator")):
            if g:
                chk.ok("R07.1", "guard:%s" % name, "", loc(tc["span"]))
            else:
                chk.violation("R07.1", "guard:%s" % name, what, loc(tc["span"]))
        chk.sample({"token_check_ok_path": [(s[:90], str(l)) for s, l, _ in dec]})
    # scan closure semantics
    if scan_closure is not None:
        sc = Closure(scan_closure.path, {k: Sym("cnt") for k in scan_closure.caps})
        sb = fb.bodies[scan_closure.path]
        cases = {
            "close": (Variant(TOK, "Paren", {"0": Variant("parser::Paren", "Close", {})}), -1),
            "open": (Variant(TOK, "Paren", {"0": Variant("parser::Paren", "Open", {})}), 1),
            "num": (Variant(TOK, "Num", {"0": Sym("n")}), 0),
            "var": (Variant(TOK, "Var", {"0": Sym("v")}), 0),
            "op": (Variant(TOK, "Op", {"0": Sym("o")}), 0),
        }
        for name, (tok, delta) in cases.items():
            pps = Interp(fb, _NoInline()).run(sb, [sc, Tup([Sym("i"), tok])])
            if any(p.status != "return" for p in pps):
                chk.unrecognised("R07.1", "scan:%s" % name, "scan closure shape not recognised", loc(sb["span"]))
                continue
            good = True
            why = ""
            for p in pps:
                writes = [e for e in p.events if e[0] == "write_opaque"]
                res = p.result.variant if isinstance(p.result, Variant) else None
                if delta == 0:
                    if writes or res != "Ok":
                        good, why = False, "a %s token changes the counter or is rejected" % name
                else:
                    if len(writes) != 1 or show(writes[0][3]) != "binop:Add(cnt, %d_i32)" % delta:
                        good, why = False, "counter update for %s is %s, expected cnt%+d" % (name, [show(w[3]) for w in writes], delta)
                        continue
                    neg = [d for d in p.decisions if re.match(r"^binop:Lt\(binop:Add\(cnt, %d_i32\), 0_i32\)$" % delta, show(d[1]))]
                    ge = [d for d in p.decisions if re.match(r"^binop:Ge\(binop:Add\(cnt, %d_i32\), 0_i32\)$" % delta, show(d[1]))]
                    isneg = (neg and neg[0][2] is True) or (ge and ge[0][2] is False)
                    tested = bool(neg or ge)
                    if not tested:
                        good, why = False, "running count is not tested for being negative after a %s parenthesis" % name
                    elif isneg and res != "Err":
                        good, why = False, "negative running count does not yield Err"
                    elif not isneg and res != "Ok":
                        good, why = False, "non-negative running count is rejected"
            if good:
                chk.ok("R07.1", "scan:%s" % name, "delta %+d" % delta, loc(sb["span"]))
            else:
                chk.violation("R07.1", "scan:%s" % name, why, loc(sb["span"]))

    if fold_closure is not None and scan_closure is None:
        fc, enumerated = fold_closure
        sb = fb.bodies[fc.path]
        cases = {
            "close": (Variant(TOK, "Paren", {"0": Variant("parser::Paren", "Close", {})}), -1),
            "open": (Variant(TOK, "Paren", {"0": Variant("parser::Paren", "Open", {})}), 1),
            "num": (Variant(TOK, "Num", {"0": Sym("n")}), 0),
            "var": (Variant(TOK, "Var", {"0": Sym("v")}), 0),
            "op": (Variant(TOK, "Op", {"0": Sym("o")}), 0),
        }
        for name, (tok, delta) in cases.items():
            item = Tup([Sym("i"), tok]) if enumerated else tok
            pps = [q for q in Interp(fb, _NoInline()).run(sb, [Closure(fc.path, {k: Sym("cap_" + k) for k in fc.caps}), Sym("cnt"), item]) if q.status != "unreachable"]
            good, why = bool(pps), "no path"
            for q in pps:
                res = q.result.variant if q.status == "return" and isinstance(q.result, Variant) else None
                pay = rel.cstr(q.result.fields.get("0")) if res == "Ok" else None
                if delta == 0:
                    if res != "Ok" or pay != "cnt":
                        good, why = False, "a %s token changes the counter or is rejected (%s)" % (name, pay or res)
                    continue
                new_ = "binop:Add(cnt, %d_i32)" % delta
                neg = [d for d in q.decisions if rel.cstr(d[1]) == "binop:Lt(%s, 0_i32)" % new_]
                ge = [d for d in q.decisions if rel.cstr(d[1]) == "binop:Ge(%s, 0_i32)" % new_]
                if not (neg or ge):
                    good, why = False, "running count is not tested for being negative after a %s parenthesis" % name
                    continue
                isneg = (neg and neg[0][2] is True) or (ge and ge[0][2] is False)
                if isneg and res != "Err":
                    good, why = False, "negative running count does not yield Err"
                elif not isneg and (res != "Ok" or pay != new_):
                    good, why = False, "counter update for %s is %s, expected cnt%+d" % (name, pay or res, delta)
            if good:
                chk.ok("R07.1", "scan:%s" % name, "delta %+d (fold form)" % delta, loc(sb["span"]))
            else:
                chk.violation("R07.1", "scan:%s" % name, why, loc(sb["span"]))

    # ---------------- R07.3 count guards ----------------------------------------------
    builders = []
    flat_b = fb.find_bodies(lambda b: b["kind"] == "Fn" and "ParsedToken<" in " ".join(l["ty"] for l in b["locals"][1:b["arg_count"] + 1])
                            and "FlatEx<" in b["locals"][0]["ty"] and b["locals"][0]["ty"].startswith("std::result::Result<") and mir.has_loop(b))
    deep_new = fb.find_bodies(lambda b: b["kind"] == "AssocFn" and b.get("name") == "new" and (b.get("impl_self_ty") or "").startswith("expression::deep::DeepEx<"))
    for b in flat_b + deep_new:
        rb = dom.refine(b)
        org = dom.Origins(rb)
        oks = dom.result_assign_blocks(rb, "Ok")
        if not oks:
            chk.unrecognised("R07.3", "no-ok:%s" % b["path"], "no Ok return found", loc(b["span"]))
            continue
        builders.append(b)
        # the empty-expression shortcut of DeepEx::new (nothing at all) is the Default value, not a parse result
        n_guarded = 0
        for okb in oks:
            ok, term, span = count_guard_ok(rb, okb, org)
            if ok:
                n_guarded += 1
                chk.ok("R07.3", "%s: Ok return bb%d guarded" % (b["path"].split("::")[-1], okb), term[:120], loc(span))
                chk.sample({"builder": b["path"], "guard": term})
            else:
                gs = dom.dominating_guards(rb, okb, org)
                empty_shortcut = any(re.match(r"^Eq\(Add\(Add\(.*len\(param:nodes\).*\), 0_usize\)$", g[2]) and g[1] is True for g in gs)
                if empty_shortcut:
                    chk.ok("R07.3", "%s: Ok return bb%d is the all-empty default" % (b["path"].split("::")[-1], okb), "nodes+ops+unary == 0", loc(b["span"]))
                else:
                    chk.violation("R07.3", "count-guard:%s" % b["path"], "an Ok return of %s is not dominated by `#operators + 1 == #operands`" % b["path"], loc(b["span"]))
        if n_guarded == 0:
            chk.violation("R07.3", "count-guard-none:%s" % b["path"], "%s has no Ok return guarded by the operand/operator count" % b["path"], loc(b["span"]))
    chk.floor("R07.3", "builders", len(builders), 2)

    # ---------------- R07.4 unknown token ---------------------------------------------
    tk = fb.one_body(lambda b: b["kind"] == "Fn" and b["path"].endswith("parser::tokenize_and_analyze"), "tokenize_and_analyze")
    org = dom.Origins(tk)
    heads = {h for (_, h) in mir.back_edges(tk)}
    cls = []   # classifier switches: discr of a call result inside the loop
    for bi in sorted(mir.normal_blocks(tk)):
        t = tk["blocks"][bi]["term"]
        if t["k"] == "switch":
            term = org.op_term(t["discr"])
            if re.match(r"^discr\(regex::Regex::find\(", term):
                cls.append((bi, term, t))
    if len(cls) != 1:
        chk.unrecognised("R07.4", "classifier", "expected exactly one variable-regex classifier in the tokenizer loop, found %d" % len(cls), loc(tk["span"]))
    else:
        bi, term, t = cls[0]
        edges = dom.switch_edges(tk, bi)
        some_t = {b for (lab, b) in edges if lab == 1}
        none_t = [b for (lab, b) in edges if (lab == 0 or lab == "otherwise") and b not in some_t
                  and tk["blocks"][b]["term"]["k"] != "unreachable"]
        if not none_t:
            chk.unrecognised("R07.4", "classifier", "no None edge", loc(t["span"]))
        else:
            ok, why = dom.reaches_only_err(tk, none_t[0], heads)
            if ok:
                chk.ok("R07.4", "nothing-matches branch returns Err", term[:80], loc(t["span"]))
            else:
                chk.violation("R07.4", "unknown-token", "text that is neither number, operator, variable nor bracket is not rejected: %s" % why, loc(t["span"]))

    # ---------------- R07.5 funnel -------------------------------------------------------
    cg = CallGraph(fb)
    parse_builders = [b for b in fb.find_bodies(lambda b: b["kind"] == "Fn" and b["path"].endswith("detail::make_expression"))]
    chk.floor("R07.5", "token-walking builders", len(parse_builders), 2)
    n_guarded = 0
    for pb in parse_builders:
        for caller in cg.callers_of(pb["path"]):
            cb = fb.bodies[caller]
            if caller == pb["path"] or cb.get("root") == pb["path"] or caller.startswith(pb["path"] + "::"):
                continue  # recursion of the builder into itself
            # mutual recursion deep: process_unary <-> make_expression stays inside the guarded region
            if set(cg.callers_of(caller)) and all(c == pb["path"] or c.startswith(pb["path"]) for c in cg.callers_of(caller)):
                continue
            org2 = dom.Origins(cb)
            calls_b = dom.call_blocks(cb, lambda p, t: p == pb["path"])
            checks = dom.call_blocks(cb, lambda p, t: p == tc["path"])
            good = False
            for (cbb, ct) in calls_b:
                btok = [org2.op_term(a) for a in ct["args"]]
                for (kbb, kt) in checks:
                    edge = dom.question_mark_ok_edge(cb, kbb)
                    if edge is None:
                        continue
                    sw, cont = edge
                    if not dom.remove_edge_reach(cb, (sw, cont), cbb):
                        ctok = org2.op_term(kt["args"][0])
                        base = re.sub(r"^std::ops::Deref::deref\((.*)\)$", r"\1", ctok)
                        if any(base in x for x in btok):
                            good = True
            if good:
                n_guarded += 1
                chk.ok("R07.5", "%s calls %s only after the token check succeeded" % (caller.split("::", 2)[-1], pb["path"].split("::", 2)[-1]), "", loc(cb["span"]))
            else:
                chk.violation("R07.5", "unguarded:%s" % caller, "%s builds an expression from tokens without a dominating successful token check on the same tokens" % caller, loc(cb["span"]))
    chk.floor("R07.5", "guarded builder callers", n_guarded, 2)
    # every public parse entry reaches a builder (so the funnel is not vacuous)
    entries = [p for p, b in fb.bodies.items() if b.get("name") in ("parse", "parse_wo_compile", "eval_str", "parse_val", "line_2_statement", "line_2_statement_val") and b["kind"] in ("Fn", "AssocFn") and b.get("public", True)]
    reach_ok = 0
    for e in entries:
        r = cg.reachable([e])
        if any(pb["path"] in r for pb in parse_builders):
            reach_ok += 1
    chk.floor("R07.5", "public entries that reach a builder", reach_ok, 6)
    consumed_text(chk, fb)
    thin_wrappers(chk, fb, "R07.7")
    literal_errors(chk, fb)


def _byte_length(fb, v, depth=0):
    """Is the term a number of bytes that ends on a character boundary of the text it was computed from?"""
    v = rel.canon(v)
    if depth > 8 or not isinstance(v, App):
        return False
    if v.fn.endswith("::len") and len(v.args) == 1:
        return True                                        # length of a &str
    if v.fn in ("binop:Add", "binop:Sub") and len(v.args) == 2:
        a, b = v.args
        ca, cb = rel.const_int(a), rel.const_int(b)
        if cb is not None:
            return _byte_length(fb, a, depth + 1)          # plus an ASCII delimiter
        if ca is not None:
            return _byte_length(fb, b, depth + 1)
        return _byte_length(fb, a, depth + 1) and _byte_length(fb, b, depth + 1)
    if v.fn == "std::iter::Iterator::sum" and len(v.args) == 1:
        m = rel.canon(v.args[0])
        # chars().take_while(..).map(|c| c.len_utf8()).sum()
        if isinstance(m, App) and m.fn == "std::iter::Iterator::map" and len(m.args) == 2 and "::chars(" in rel.cstr(m.args[0]) and not isinstance(m.args[1], Closure):
            # `.map(char::len_utf8)`: the function item itself
            return rel.cstr(m.args[1]).endswith("len_utf8") or "len_utf8" in show(m.args[1])
        if isinstance(m, App) and m.fn == "std::iter::Iterator::map" and len(m.args) == 2 and isinstance(m.args[1], Closure) and "::chars(" in rel.cstr(m.args[0]):
            cb = fb.bodies.get(m.args[1].path)
            if cb is not None:
                ps = [q for q in Interp(fb, _NoInline()).run(cb, [m.args[1], Sym("c")]) if q.status == "return"]
                return len(ps) == 1 and rel.cstr(ps[0].result) in ("std::char::methods::<impl char>::len_utf8(c)",)
        return False
    if v.fn in ("std::option::Option::<T>::unwrap_or", "std::option::Option::<T>::unwrap_or_else") and len(v.args) == 2:
        f = rel.canon(v.args[0])
        return isinstance(f, App) and f.fn in ("core::str::<impl str>::find", "core::str::<impl str>::rfind") and _byte_length(fb, v.args[1], depth + 1)
    if v.fn.endswith("len_utf8"):
        return True
    if v.fn == ".0" and len(v.args) == 1 and isinstance(v.args[0], App) and v.args[0].fn == "as:Some" and len(v.args[0].args) == 1:
        f = rel.canon(v.args[0].args[0])     # the byte offset str::find / rfind returns is a character boundary
        return isinstance(f, App) and f.fn in ("core::str::<impl str>::find", "core::str::<impl str>::rfind")
    return False


def thin_wrappers(chk, fb, RID):
    """The crate-level convenience functions (eval_str, parse, parse_val) are the pipeline and nothing else: every return is
    either an Err or, unchanged, the result of the single pipeline call on the unchanged text (for eval_str: the evaluation of
    the parsed expression).  A shortcut around the tokenizer accepts texts the grammar rejects; a post-processing of the
    value changes what an operator computes."""
    chk.rule(RID, "eval_str / parse / parse_val return only Err or, unchanged, the result of the parse (and eval) pipeline on the unchanged text")
    want = {
        "eval_str": r"^expression::Express::eval\(ok\(expression::flat::FlatEx::<T, OF, LMF>::(parse_wo_compile|parse)\(text\)\), \(\)\)$|^expression::Express::eval\(ok\(expression::Express::parse\(text\)\), \(\)\)$",
        "parse": r"^expression::Express::parse\(text\)$",
        "parse_val": r"^expression::Express::parse\(text\)$",
    }
    n = 0
    for nm, rx in want.items():
        bs = [b for p_, b in fb.bodies.items() if b["kind"] == "Fn" and b.get("name") == nm and b["arg_count"] == 1 and p_ in (nm, "value::" + nm)]
        if nm == "parse_val" and "value" not in fb.features:
            continue
        if len(bs) != 1:
            chk.violation(RID, "anchor:%s" % nm, "crate-level function %s not found" % nm)
            continue
        b = bs[0]

        class PW(Policy):
            loop_mode = "widen"
        ps = [q for q in Interp(fb, PW()).run(b, [Sym("text")]) if q.status != "unreachable"]
        bad = None
        oks = 0
        for q in ps:
            if q.status != "return":
                bad = "%s %s" % (q.status, q.note)
                break
            r = q.result
            if isinstance(r, Variant) and r.variant == "Err":
                continue
            def okform(v, depth=0):
                # `x?` and `x.and_then(|v| ..)` both continue with the success value of x
                if isinstance(v, App) and depth < 40:
                    if v.fn == ".0" and len(v.args) == 1 and isinstance(v.args[0], App) and v.args[0].fn == "as:Ok" and len(v.args[0].args) == 1:
                        return App("ok", [okform(v.args[0].args[0], depth + 1)])
                    return App(v.fn, [okform(a, depth + 1) for a in v.args])
                return v
            s = rel.cstr(okform(rel.canon(r)))
            if re.match(rx, s):
                oks += 1
            else:
                bad = "returns %s" % s[:140]
                break
        n += 1
        if bad or not oks:
            chk.violation(RID, "wrapper:%s" % nm, "%s is not a thin wrapper of the pipeline: %s" % (nm, bad or "no path returns the pipeline's result"), loc(b["span"]))
        else:
            chk.ok(RID, "%s returns the pipeline's result unchanged (or Err)" % nm, "%d paths" % len(ps), loc(b["span"]))
    if n < 2:
        chk.violation(RID, "floor", "only %d crate-level wrappers analysed" % n)


def consumed_text(chk, fb):
    """R07.6: the tokenizer's read position stays on a character boundary, so no part of the text is skipped silently.
    The loop visits (byte index, char) pairs and handles a char only when its index equals the read position; if the
    position ever lands inside a multi-byte character it never matches again and the rest of the text - whatever it
    contains - is ignored.  Decided from the loop's general trips: a constant advance is +1 and is taken only on a path
    where the current character was compared equal to an ASCII literal; every other advance is a byte length computed from
    the text at the read position."""
    from rules import c08 as _c08
    chk.rule("R07.6", "tokenizer: the read position only advances by +1 under an equality with an ASCII literal, or by a byte length computed from the text: no text is skipped silently")
    tk = fb.find_bodies(lambda b: b["kind"] == "Fn" and b["path"].endswith("parser::tokenize_and_analyze"))
    if len(tk) != 1:
        chk.violation("R07.6", "anchor", "tokenizer not found")
        return
    b = tk[0]
    where = loc(b["span"])
    class _PT(_c08._P):
        def inline(self, fn, args, interp, path):
            # a scanning step moved into a private function of the parser that is handed the rest of the text and returns
            # (what it matched, how many bytes): part of the tokenizer
            hb_ = interp.callee_body(fn)
            if hb_ is not None and hb_["path"].startswith("parser::") and hb_["path"] not in self.vocabulary and not hb_.get("public") \
                    and hb_["arg_count"] == 1 and hb_["locals"][1]["ty"] == "&str" and hb_["locals"][0]["ty"].startswith("(") and "usize" in hb_["locals"][0]["ty"]:
                return True
            return super().inline(fn, args, interp, path)
    allp = Interp(fb, _PT()).run(b, [Sym("text"), Sym("ops_in"), Sym("is_numeric")])
    if any(p.status not in ("return", "loop-pruned", "unreachable") for p in allp):
        chk.unrecognised("R07.6", "shape", "tokenizer shape not recognised", where)
        return
    # the read position: the loop-carried local compared for equality with the visited byte index
    pos = None
    gen = []
    for p in allp:
        for t in loops.trips(p, b["path"], 0):
            if t.general and t.post is not None:
                gen.append(t)
                for d in t.decisions:
                    c = rel.canon(d[1])
                    if isinstance(c, App) and c.fn == "binop:Eq" and len(c.args) == 2:
                        for x, y in (c.args, c.args[::-1]):
                            lu = loops.loop_unknown(y)
                            if lu is not None and "Iterator::next(" in rel.cstr(x) and rel.cstr(x).startswith(".0(.0("):
                                pos = (lu[2], lu[1])
    if pos is None:
        # offset-driven form: `while let Some(c) = text.get(pos..).and_then(|r| r.chars().next())` - the read position is the
        # loop-carried start of the range the current character is taken from
        def starts(v, out, depth=0):
            if depth > 40:
                return
            if isinstance(v, Variant):
                if v.adt.endswith("RangeFrom") and loops.loop_unknown(v.fields.get("start")) is not None:
                    out.append(v.fields["start"])
                for x in v.fields.values():
                    starts(x, out, depth + 1)
            elif isinstance(v, App):
                for x in v.args:
                    starts(x, out, depth + 1)
            elif isinstance(v, Tup):
                for x in v.elems:
                    starts(x, out, depth + 1)
        cand = {}
        for t in gen:
            for d in t.decisions:
                if "core::str::<impl str>::get(text, RangeFrom{start: " in rel.cstr(d[1]):
                    found_ = []
                    starts(rel.canon(d[1]), found_)
                    for y in found_:
                        lu = loops.loop_unknown(y)
                        cand[(lu[2], lu[1])] = cand.get((lu[2], lu[1]), 0) + 1
        if len(cand) == 1:
            pos = next(iter(cand))
    if pos is None:
        chk.unrecognised("R07.6", "position", "read position of the tokenizer not identified", where)
        return
    H, L = pos
    n_adv = 0
    seen = set()
    for t in gen:
        if t.header != H or L not in t.pre or L not in t.post:
            continue
        pre, post = t.pre[L], rel.canon(t.post[L])
        if post.key() == pre.key():
            continue
        if not (isinstance(post, App) and post.fn == "binop:Add" and len(post.args) == 2 and rel.canon(post.args[0]).key() == pre.key()):
            key = ("shape", rel.cstr(post)[:80])
            if key not in seen:
                seen.add(key)
                chk.unrecognised("R07.6", "advance", "the read position becomes %s" % rel.cstr(post)[:100], where)
            continue
        n_adv += 1
        step = rel.canon(post.args[1])
        k = rel.const_int(step)
        if k is not None:
            lits = []
            for d in t.decisions:
                c = rel.canon(d[1])
                if isinstance(c, App) and c.fn == "binop:Eq" and d[2] is True:
                    for x in c.args:
                        if isinstance(x, Const) and x.ty == "char" and x.bits is not None:
                            lits.append(x.bits)
            if k != 1 or not lits or any(ch >= 128 for ch in lits):
                conds = [(rel.cstr(d[1])[:70], d[2]) for d in t.decisions if "Iterator::next(" not in rel.cstr(d[1])[:60] or "is_" in rel.cstr(d[1])][-3:]
                key = ("const", k, tuple(lits))
                if key not in seen:
                    seen.add(key)
                    chk.violation("R07.6", "blind-advance", "the tokenizer advances its read position by the constant %d without having compared the current character with an ASCII literal (%s): after a multi-byte character the position is inside a character and the rest of the text is skipped unread" % (
                        k, conds), where)
        else:
            s = rel.cstr(step)
            if not _byte_length(fb, step):
                key = ("term", s[:60])
                if key not in seen:
                    seen.add(key)
                    chk.violation("R07.6", "advance", "the tokenizer advances its read position by %s, which is not a byte length taken from the text" % s[:100], where)
    if n_adv < 5:
        chk.unrecognised("R07.6", "advances", "only %d advancing trips found" % n_adv, where)
    elif not seen:
        chk.ok("R07.6", "read position advances only by +1 on ASCII literals or by byte lengths of matched text", "%d advancing trips" % n_adv, where)


def _closures(v, out=None, depth=0):
    out = [] if out is None else out
    if depth > 30:
        return out
    if isinstance(v, Closure):
        out.append(v)
    elif isinstance(v, App):
        for a in v.args:
            _closures(a, out, depth + 1)
    elif isinstance(v, Tup):
        for a in v.elems:
            _closures(a, out, depth + 1)
    return out


def literal_errors(chk, fb, RID="R07.8"):
    """R07.8 (error discipline): the value-typed literal parser hands every parse error on.  `FromStr for Val` is what rejects a
    malformed literal the (deliberately loose) literal pattern let through; an error that is dropped (`.ok()`, `filter_map`,
    `unwrap_or`, `flatten`) turns `[#1, 2]` into a shorter array instead of an error."""
    if "value" not in fb.features:
        return
    chk.rule(RID, "FromStr for Val: no parse result is discarded (ok / unwrap_or* / is_ok / filter_map / flatten / flat_map): a malformed element is an error")
    roots = [p for p, b in fb.bodies.items() if b.get("name") == "from_str" and b.get("impl_trait_path") == "std::str::FromStr" and "value::Val<" in (b.get("impl_self_ty") or "")]
    if len(roots) != 1:
        chk.violation(RID, "anchor", "impl FromStr for Val not found")
        return
    from analysis.callgraph import CallGraph
    cg = CallGraph(fb)
    scope = {p for p in cg.reachable(roots) if p.startswith("value::") or p.startswith("<value::")} | set(roots)
    scope |= {c for r in list(scope) for c in fb.closures_of(r)}
    DROP = {"std::result::Result::<T, E>::ok", "std::result::Result::<T, E>::unwrap_or", "std::result::Result::<T, E>::unwrap_or_else", "std::result::Result::<T, E>::unwrap_or_default",
            "std::result::Result::<T, E>::is_ok", "std::result::Result::<T, E>::is_err", "std::iter::Iterator::filter_map", "std::iter::Iterator::flatten", "std::iter::Iterator::flat_map",
            "std::result::Result::<T, E>::into_iter", "std::result::Result::<T, E>::iter"}
    nparse = 0
    bad = False
    for p in sorted(scope):
        b = fb.bodies.get(p)
        if b is None:
            continue
        for bi, t in mir.calls(b):
            cp = mir.callee_path(t) or ""
            if cp in ("core::str::<impl str>::parse", "std::str::FromStr::from_str"):
                nparse += 1
            if cp in DROP:
                bad = True
                chk.violation(RID, "dropped:%s" % re.sub(r"(::\{closure#\d+\})+$", "", p), "%s discards a parse result with %s: a malformed part of a literal is skipped instead of being reported" % (
                    re.sub(r"(::\{closure#\d+\})+$", "", p), cp.rsplit("::", 1)[-1]), loc(t["span"]))
    chk.floor(RID, "parse calls of the value literal parser", nparse, 3)
    if not bad:
        chk.ok(RID, "no parse result is discarded", "%d functions, %d parse calls" % (len(scope), nparse), loc(fb.bodies[roots[0]]["span"]))
