"""C06 — No input text can crash the library (structural clauses)."""
import json
import os
import re

from analysis import mir, dom, panics, guards
from analysis.callgraph import CallGraph
from analysis.facts import loc
from rules import c17, c07

LEVEL = "other"
TECHNIQUE = "closed-world may-panic site audit over the call graph of every public entry point (MIR asserts with overflow checks on, diverging and documented-panicking callees), DOM for the token-check guard of the builders, PROGRESS rule on the two token walkers, unsafe scan, recursion inventory"
EXPLANATION = (
    "Decides: (R06.1) the multiset of may-panic sites reachable from every public function / trait method of the library (minus the "
    "Val operator group, which C17 decides) is covered class by class by spec/panic_audit.json#lib, where each class carries the "
    "invariant that protects it - a new class, or more sites of a class than audited, is reported with the functions where it occurs; "
    "(R06.2) every builder that walks tokens is only reached past a successful token check on the same tokens (the audit entries for "
    "`parsed_tokens[idx + 1]` rely on exactly this); (R06.3) in both token walkers every path around the loop advances the token index; "
    "(R06.4) no unsafe code. The call-graph SCCs (all recursion descends nested expressions) are listed in the evidence. "
    "Over-approximate: a new site that cannot fail is still reported. Not decided: absence of panics as a theorem (the audited classes "
    "rest on invariants argued by hand), stack depth in bytes, termination outside the two token walkers."
)
TRUSTED = ["rustc MIR construction", "exporter faithfulness", "invariants quoted in spec/panic_audit.json#lib", "std/smallvec/regex panic only as documented"]

AUDIT = os.path.join(os.path.dirname(os.path.dirname(os.path.abspath(__file__))), "spec", "panic_audit.json")


def lib_group(fb, cg=None):
    cg = cg or CallGraph(fb)
    _, _, _, rval = c17.val_group(fb, cg)
    roots = [p for p, b in fb.bodies.items() if b["kind"] in ("Fn", "AssocFn") and
             (b.get("public") or b.get("impl_trait_path") or b.get("trait_default_of")) and not b.get("impl_derived")]
    R = cg.reachable(roots)
    return cg, [p for p in sorted(R) if p not in rval and not fb.bodies[p].get("impl_derived")]


def lib_population(fb):
    cg, R = lib_group(fb)
    return panics.population(fb, R)


def _amount_positive(w, org, name, weak):
    """every assignment of the local `name` is a constant >= 1 or an amount a nested walker returned"""
    li = org.local_by_name(name)
    if li is None:
        return False
    n = 0
    for bi, si, st in mir.iter_stmts(w, mir.normal_blocks(w)):
        if st["k"] == "assign" and st["place"]["local"] == li and not st["place"]["proj"]:
            term = org.expand_named(org.rv_term(st["rv"]))
            lin = dom.linear(dom.parse_term(term))
            if lin is not None and set(lin) == {"1"} and lin["1"] >= 1:
                n += 1
            elif "make_expression" in term or "process_unary" in term:
                n += 1
                weak.append(term[:80])
            else:
                return False
    for bi, t in mir.calls(w):
        if t["dest"]["local"] == li and not t["dest"]["proj"]:
            return False
    return n > 0


def run(ctx):
    chk, fb = ctx.check, ctx.fb
    chk.rule("R06.1", "every may-panic site reachable from a public entry point belongs to an audited class; no class has more sites than audited")
    chk.rule("R06.2", "token-walking builders are only reached past a successful token check on the same tokens")
    chk.rule("R06.3", "token walkers: every path around the loop advances the token index")
    chk.rule("R06.4", "no unsafe code")
    chk.rule("R06.5", "Val operators: an iteration whose length is an operand VALUE must be able to stop early (try_fold / find / any ...), never an exhaustive fold")
    cg, R = lib_group(fb)
    pop = panics.population(fb, R)
    classes = {c["key"]: c for c in json.load(open(AUDIT)).get("lib", [])}
    by = {}
    n_out = 0
    for s in pop:
        k = panics.lib_key(s)
        if k is None:
            n_out += 1
            continue
        by.setdefault(k, []).append(s)
    chk.counts["sites_outside_definition"] = n_out
    # unwrap() and expect("reason") are one kind of site: the classes `..::unwrap|X` and `..::expect|X` are pooled
    def canon(k):
        return k.replace("::expect|", "::unwrap|")
    pool, members = {}, {}
    for k, ss in by.items():
        pool.setdefault(canon(k), []).extend((k, s) for s in ss)
    for k, c in classes.items():
        members.setdefault(canon(k), []).append(c)
    for ck, kss in sorted(pool.items()):
        ss = [s for _, s in kss]
        mem = members.get(ck, [])
        where = sorted({"%s@%s" % (s["fn"].split("::")[-1], s["loc"]) for s in ss})
        k = sorted({k for k, _ in kss})[0] if len({k for k, _ in kss}) == 1 else ck
        cap = sum(c["max"] for c in mem)
        if not mem:
            fns = sorted({s["fn"] for s in ss})
            chk.violation("R06.1", "new-class:%s" % k, "unaudited may-panic site class %s in %s" % (k, fns[:4]), ss[0]["loc"])
        elif len(ss) > cap:
            known = set(w for c in mem for w in c.get("where", []))
            newfn = sorted({s["fn"].split("::")[-1] for s in ss} - known)
            chk.violation("R06.1", "count:%s" % k, "%d sites of class %s, audit covers %d%s; sites: %s" % (
                len(ss), k, cap, (" - new in %s" % newfn) if newfn else "", where[:10]), ss[0]["loc"])
        else:
            lost = []
            for k0, s in kss:
                cands = [classes[k0]] if k0 in classes else mem
                fails = []
                for c in cands:
                    bad = []
                    for g in [g for g in c.get("guards", ["none"]) if g != "none"]:
                        okg, why = guards.GUARDS[g](fb, fb.bodies[s["fn"]], s)
                        if not okg:
                            bad.append((g, why))
                    if not bad:
                        fails = []
                        break
                    fails = bad
                for g, why in fails:
                    lost.append((s, g, why))
            if lost:
                for s, g, why in lost:
                    chk.violation("R06.1", "guard:%s:%s" % (s["fn"], k), "may-panic site in %s lost the invariant that protects it (%s): %s" % (s["fn"], g, why), s["loc"])
            else:
                chk.ok("R06.1", "class %s" % k, "%d <= %d: %s" % (len(ss), cap, mem[0]["reason"][:100]), ss[0]["loc"])
    chk.counts["functions_in_scope"] = len(R)
    chk.counts["sites"] = len(pop)
    chk.counts["classes"] = len(by)
    full = {"partial", "value", "serde"} <= fb.features
    chk.floor("R06.1", "functions in scope", len(R), 400 if full else 250)
    chk.floor("R06.1", "may-panic sites enumerated", len(pop), 250 if full else 150)
    chk.floor("R06.1", "sites inside the audit's definition", sum(len(v) for v in by.values()), 100 if full else 50)
    for s in pop[:6]:
        chk.sample({"fn": s["fn"], "class": panics.lib_key(s), "loc": s["loc"]})

    # ---- R06.2 (shared with C07 R07.5): run that rule's funnel part through a sub-check
    class Sub:
        pass
    import analysis.report as report
    sub = report.Check("C07", ctx.tier, ctx.seed, "other", "", "")
    sub.known = []
    sctx = Sub()
    sctx.check, sctx.fb, sctx.tier, sctx.seed = sub, fb, ctx.tier, ctx.seed
    c07.run(sctx)
    n52 = 0
    for o in sub.obligations:
        if o["rule"] == "R07.5":
            n52 += 1
            if o["ok"]:
                chk.ok("R06.2", o["name"], o["detail"], o["loc"])
            else:
                chk.violation("R06.2", o["name"], o["detail"], o["loc"])
    chk.floor("R06.2", "funnel obligations", n52, 4)

    # ---- R06.3 loop progress
    walkers = fb.find_bodies(lambda b: b["kind"] == "Fn" and b["path"].endswith("detail::make_expression"))
    nw = 0
    for w in walkers:
        org = dom.Origins(w)
        heads = sorted({h for (_, h) in mir.back_edges(w)})
        found = False
        for h in heads:
            # loop condition: Lt(var:IDX, len(tokens))
            cond_b = None
            for b in sorted(mir.reach_from(w, h)):
                t = w["blocks"][b]["term"]
                if t["k"] == "switch":
                    term = org.op_term(t["discr"])
                    m = re.match(r"^Lt\(var:(\S+), core::slice::<impl \[T\]>::len\(param:\w+\)\)$", term)
                    if m and h in mir.dominators(w).get(b, ()):
                        cond_b = (b, m.group(1), (True,))
                        break
                    # `while let Some(token) = tokens.get(idx)`
                    m = re.match(r"^discr\(core::slice::<impl \[T\]>::get\(param:\w+, var:([^\s,()]+)\)\)$", term)
                    if m and h in mir.dominators(w).get(b, ()):
                        cond_b = (b, m.group(1), (1, "1", "Some"))
                        break
            if cond_b is None:
                continue
            found = True
            b, ivar, stay = cond_b
            li = org.local_by_name(ivar)
            inc_blocks = set()
            weak = []
            for bi, si, st in mir.iter_stmts(w, mir.normal_blocks(w)):
                if st["k"] == "assign" and st["place"]["local"] == li and not st["place"]["proj"]:
                    term = org.rv_term(st["rv"])
                    lin = dom.linear(dom.parse_term(term))
                    if lin is None or lin.get("var:%s" % ivar) != 1:
                        continue
                    rest = {k: v for k, v in lin.items() if k != "var:%s" % ivar}
                    const = rest.pop("1", 0)
                    if any(v < 0 for v in rest.values()):
                        continue
                    if const >= 1:
                        inc_blocks.add(bi)
                    elif rest and const == 0 and len(rest) == 1 and list(rest.values()) == [1] and list(rest)[0].startswith("var:") and _amount_positive(w, org, list(rest)[0][4:], weak):
                        # advance by an amount chosen per arm (`let n = match .. { .. => 1, .. => consumed }; idx += n`): every choice is >= 1
                        inc_blocks.add(bi)
                    elif rest and all(("make_expression" in k or "process_unary" in k) for k in rest):
                        # advance by the number of tokens a nested walker consumed (crate-local, returns its own advanced index)
                        inc_blocks.add(bi)
                        weak.append(list(rest)[0][:80])
            body_entry = [tgt for (lab, tgt) in dom.switch_edges(w, b) if (lab is True and True in stay) or (lab is not True and lab is not False and lab in stay)]
            ok = bool(body_entry) and h not in mir.reach_from(w, body_entry[0], avoid=inc_blocks)
            nw += 1
            if ok:
                chk.ok("R06.3", "%s: every path around the loop advances %s" % (w["path"].split("::", 2)[-1], ivar),
                       "increments in %d blocks%s" % (len(inc_blocks), ("; by a callee-returned amount (trusted >= 1): %s" % weak[:2]) if weak else ""), loc(w["span"]))
            else:
                chk.violation("R06.3", "no-progress:%s" % w["path"], "a path around the token loop of %s does not advance %s: the parser can hang" % (w["path"], ivar), loc(w["span"]))
        if not found:
            # iterator-driven form: `for (idx, token) in tokens.iter().enumerate()`: every trip around the loop passes the
            # `next()` of an iterator over the token slice, and the loop is left when it is exhausted
            loops = mir.natural_loops(w)
            doms = mir.dominators(w)
            for h, blks in sorted(loops.items()):
                for bi, t in mir.calls(w, blks):
                    f = t["func"]
                    if f.get("k") != "fndef" or f.get("trait") != "std::iter::Iterator" or f.get("name") != "next" or not t["args"]:
                        continue
                    src = org.expand_named(org.op_term(t["args"][0]))
                    if not re.search(r"core::slice::<impl \[T\]>::iter\(param:\w+\)", src):
                        continue
                    latches = [s for (s, hh) in mir.back_edges(w) if hh == h]
                    every_trip = all(bi in doms.get(s, ()) for s in latches)
                    sw = t["target"]
                    leaves = sw is not None and any(e[0] == sw for e in mir.loop_exits(w, blks))
                    found = True
                    nw += 1
                    if every_trip and leaves:
                        chk.ok("R06.3", "%s: the token loop is driven by the slice iterator (%s)" % (w["path"].split("::", 2)[-1], src[:60]),
                               "next() on every trip; exhausted => loop left", loc(t["span"]))
                    else:
                        chk.violation("R06.3", "no-progress:%s" % w["path"], "a path around the token loop of %s does not advance the token iterator: the parser can hang" % w["path"], loc(t["span"]))
        if not found:
            chk.unrecognised("R06.3", "walker:%s" % w["path"], "token loop (`while idx < tokens.len()` or `for .. in tokens.iter()`) not recognised", loc(w["span"]))
    chk.floor("R06.3", "token walkers", nw, 2)

    # ---- R06.5 value-proportional iteration in operator functions
    _, _, _, rval = c17.val_group(fb, cg)
    EXHAUSTIVE = {"fold", "sum", "product", "count", "last", "for_each", "collect", "max", "min", "max_by", "min_by", "reduce", "nth"}
    nrange = 0
    for p in sorted(rval):
        b = fb.bodies[p]
        org = dom.Origins(b)
        for bi, t in mir.calls(b):
            f = t["func"]
            if f.get("k") != "fndef" or f.get("trait") != "std::iter::Iterator" or not t["args"]:
                continue
            term = org.op_term(t["args"][0])
            if "std::ops::Range" not in term:
                continue
            valued = "ToPrimitive::to_" in term or " as " in term and "to_usize" in term
            if not re.search(r"num::ToPrimitive::to_\w+\(|var:\w*usize\w*", term):
                continue
            if f["name"] == "next":
                continue    # the explicit-loop idiom is handled below
            nrange += 1
            if f["name"] in EXHAUSTIVE:
                chk.violation("R06.5", "exhaustive:%s:%s" % (p, f["name"]), "%s iterates a range whose length is an operand value with the exhaustive consumer `%s`: an overflowing computation runs on for up to 2^63 steps instead of stopping (hang at parse time through constant folding)" % (p, f["name"]), loc(t["span"]))
            else:
                chk.ok("R06.5", "%s: value-sized range consumed by short-circuiting `%s`" % (p.split("::")[-1], f["name"]), "", loc(t["span"]))
        # explicit loops (`for k in 1..=n { .. }`): the loop needs a second way out besides exhausting the range
        loops = mir.natural_loops(b)
        for bi, t in mir.calls(b):
            f = t["func"]
            if f.get("k") != "fndef" or f.get("trait") != "std::iter::Iterator" or f.get("name") != "next" or not t["args"]:
                continue
            term = org.expand_named(org.op_term(t["args"][0]))
            if "std::ops::Range" not in term or not re.search(r"num::ToPrimitive::to_\w+\(|var:\w*usize\w*", term):
                continue
            hs = [h for h, blks in loops.items() if bi in blks]
            if not hs:
                continue
            blks = min((loops[h] for h in hs), key=len)
            nrange += 1
            normal = mir.normal_blocks(b)
            exits = {e for e in mir.loop_exits(b, blks) if e[1] in normal and b["blocks"][e[1]]["term"]["k"] != "unreachable"}
            # the exhaustion exit leaves from the switch on the result of `next`
            sw = t["target"]
            other = {e for e in exits if e[0] != sw}
            if other:
                chk.ok("R06.5", "%s: loop over a value-sized range has an early exit" % p.split("::")[-1], "%d exit edges" % len(exits), loc(t["span"]))
            else:
                chk.violation("R06.5", "exhaustive:%s:for" % p, "%s loops over a range whose length is an operand value and can only stop when the range is exhausted: an overflowing computation runs on for up to 2^63 steps (hang at parse time through constant folding)" % p, loc(t["span"]))
    chk.floor("R06.5", "value-sized ranges in Val operators", nrange, 1)

    # ---- R06.4
    user_unsafe = [u for u in fb.raw["unsafe_blocks"] if "UserProvided" in u["source"]]
    for u in user_unsafe:
        chk.violation("R06.4", "unsafe-block:%s" % u["span"]["file"], "unsafe block", loc(u["span"]))
    if not user_unsafe:
        chk.ok("R06.4", "no user-written unsafe block", "%d compiler-generated ones seen (positive control)" % len(fb.raw["unsafe_blocks"]))
    sccs = cg.sccs()
    chk.note("recursion inventory (call-graph SCCs): %s" % [[x.split("::", 2)[-1] for x in c][:6] for c in sccs][:12])
