"""C17 — Value-typed operators are total: problems surface as error values."""
import json
import os

from analysis import tables, panics, guards
from analysis.callgraph import CallGraph
from analysis.facts import loc

LEVEL = "other"
TECHNIQUE = "closed-world may-panic / unchecked-integer-arithmetic site audit over the call graph of the Val operator table (MIR asserts with overflow checks forced on, diverging and documented-panicking callees, generic integer ops), guards decided by path-sensitive abstract interpretation"
EXPLANATION = (
    "Every function reachable (resolved call graph incl. closures and trait impls) from the apply/unary targets of "
    "ValOpsFactory::make is scanned for may-panic sites: MIR Assert terminators (overflow checks forced on, so debug and "
    "release are both covered), calls to diverging or documented-panicking external functions (Option/Result::unwrap, "
    "Index::index, ...), and unchecked arithmetic (+ - * / % neg << >> abs pow) on the integer type parameter. The site "
    "multiset must be covered by spec/panic_audit.json#val, where every class carries the invariant that protects it, and "
    "the structural guards (range tests before shifts and indexing, Some-arm before unwrap) are re-established on every "
    "run by enumerating the function's paths abstractly. Over-approximate by construction: a new, actually safe site is "
    "still reported. Not decided: totality of num-traits' checked_*/NumCast/ToPrimitive and of float primitives (trusted)."
)
TRUSTED = ["num-traits checked_* / NumCast / ToPrimitive never panic", "float primitives never panic",
           "smallvec indexing panics only out of bounds", "rustc MIR construction", "exporter faithfulness"]

AUDIT = os.path.join(os.path.dirname(os.path.dirname(os.path.abspath(__file__))), "spec", "panic_audit.json")


def val_group(fb, cg=None):
    cg = cg or CallGraph(fb)
    make = fb.one_body(lambda b: b["kind"] == "AssocFn" and b.get("name") == "make"
                       and "ValOpsFactory" in (b.get("impl_self_ty") or ""), "ValOpsFactory::make")
    tab = tables.operator_table(fb, make)
    roots = set()
    for e in tab:
        for k in ("apply", "unary"):
            if e[k] is not None:
                roots.add(tables.target_name(e[k]))
    # trait impls the operators and the evaluator use on Val itself
    for p, b in fb.bodies.items():
        if (b.get("impl_self_kind") or {}).get("path", "").endswith("value::Val") and b.get("impl_trait_path") in (
                "std::cmp::PartialEq", "std::cmp::PartialOrd", "std::default::Default", "std::clone::Clone"):
            roots.add(p)
        if (b.get("impl_self_ty") or "").startswith("value::Val<") and b.get("name") in ("to_bool", "to_float", "to_int", "to_float_val", "to_array"):
            roots.add(p)
    return make, tab, roots, cg.reachable(roots)


def run(ctx):
    chk, fb = ctx.check, ctx.fb
    chk.rule("R17.1", "PANIC: every may-panic site reachable from the Val operator table is in an audited class whose guard holds on every path through the site")
    chk.rule("R17.2", "INTARITH: no unchecked arithmetic on the integer type parameter (only the two range-guarded shifts are audited)")
    make, tab, roots, R = val_group(fb)
    chk.floor("R17.1", "operator table targets", len([1 for e in tab for k in ("apply", "unary") if e[k] is not None]), 62)
    chk.floor("R17.1", "functions in the group", len(R), 100)
    pop = panics.population(fb, R)
    classes = json.load(open(AUDIT))["val"]
    ia = [s for s in pop if s["kind"] == "intarith"]
    rest = [s for s in pop if s["kind"] != "intarith"]
    panics.audit(fb, chk, "R17.1", "val", rest, classes, guards.GUARDS)
    panics.audit(fb, chk, "R17.2", "val", ia, classes, guards.GUARDS)
    chk.counts["sites"] = len(pop)
    chk.counts["intarith_sites"] = len(ia)
    for s in pop[:12]:
        chk.sample({"fn": s["fn"], "site": s["key"], "loc": s["loc"]})
    # positive control: the enumerator does see sites at all
    chk.floor("R17.1", "may-panic sites enumerated", len(pop), 30)
