"""C10 — Operator application on expressions is a homomorphism (structural clauses)."""
import re

from analysis import mir
from analysis.facts import loc
from analysis.interp import Interp, Policy, Sym, App, Const, Variant, show

LEVEL = "other"
TECHNIQUE = "DECIDE: complete decision tables of the neutral-element shortcuts extracted by abstract interpretation and checked against the algebraic identity each outcome needs; TABLE: operator-name agreement of the std::ops impls and the named helpers; DOM/TERM: unknown name => Err, convert-apply-convert order of the Calculate wrappers"
EXPLANATION = (
    "Decides for every pair of expressions: (R10.1) in Add/Mul/Div/pow on deep expressions every shortcut outcome is an algebraic "
    "identity of that operator under exactly the is_zero/is_one tests taken on the path (0+b=b, a+0=a; 0*b=a*0=0, 1*b=b, a*1=a; "
    "0/b=0 only with b not zero, a/1=a; 0^0 error, 0^b=0, a^0=1, a^1=a), constants inherit the operands' variable list, and the "
    "non-shortcut outcome applies the operator of the impl's own name to both (variable-unified) operands in order; (R10.2) Sub, Neg "
    "and the named unary helpers pass the operator name they are named after; (R10.3) an unknown operator name reaches only Err, the "
    "lookup compares names for equality, and the flat wrappers are convert -> apply -> convert back. "
    "Not decided: value equality for arbitrary histories (needs C01/C02/C03); sorted-union of variable lists is C04's typestate rule."
)
TRUSTED = ["rustc MIR construction", "exporter faithfulness", "is_zero/is_one test the value they are named after (deep::detail::is_num)"]

DEEP = r"expression::deep::DeepEx::<'a, T, OF, LM>::"
U = DEEP + r"var_names_union\(a, b\)"
X = r"\.0\(%s\)" % U
Y = r"\.1\(%s\)" % U


VOCAB = {"var_names_union", "is_zero", "is_one", "zero", "one", "var_names_like_other", "operate_bin", "operate_unary", "from_num",
         "find_op", "find_bin_op", "find_unary_op", "bin", "unary", "repr", "to_deepex", "from_deepex", "compile", "new"}


class _P(Policy):
    """Crate-local helpers that are not part of the rule's vocabulary are inlined (so extracting or inlining a helper is
    invisible); loops are widened."""
    max_depth = 5
    loop_mode = "widen"

    def inline(self, fn, args, interp, path):
        return fn.get("name") not in VOCAB


def no_overrides(chk, fb, RID, trait_path, methods, what):
    """The provided (default) methods of a crate trait are the single implementation: no impl for a crate type overrides them."""
    impls = [i for i in fb.impls if i.get("trait_path") == trait_path]
    if not impls:
        chk.violation(RID, "anchor:%s" % trait_path, "no impl of %s found" % trait_path)
        return
    bad = []
    for i in impls:
        for it in i.get("items", []):
            nm = (it if isinstance(it, str) else (it.get("name") or it.get("path", ""))).rsplit("::", 1)[-1]
            if nm in methods:
                bad.append((i["self_ty"], nm, i.get("span")))
    if bad:
        for st, nm, sp in bad:
            chk.violation(RID, "override:%s:%s" % (st.split("<")[0].split("::")[-1], nm), "%s overrides %s::%s: %s" % (st, trait_path.split("::")[-1], nm, what), loc(sp) if sp else None)
    else:
        chk.ok(RID, "%s: provided methods %s are not overridden by any impl" % (trait_path.split("::")[-1], sorted(methods)), "%d impls" % len(impls))


def lift_invariant(chk, fb):
    """R10.5: `is_zero` / `is_one` look through a single nested node without applying the outer unary composition; that is
    only sound because lift_nodes removes every undecorated single-node wrapper before.  Decided: lift_nodes walks over the
    nodes on every path except the one that replaces the whole expression (single node AND no unary composition)."""
    chk.rule("R10.5", "lift_nodes: the wrapper-lifting pass over the nodes is skipped only when the expression is a single node without unary composition (then it is replaced as a whole)")
    from analysis import rel as _rel
    bs = fb.find_bodies(lambda b: b["kind"] == "Fn" and b["path"].endswith("deep::detail::lift_nodes"))
    if len(bs) != 1:
        chk.violation("R10.5", "anchor", "deep::detail::lift_nodes not found")
        return
    b = bs[0]

    class PL(Policy):
        loop_mode = "widen"
        max_depth = 2
    ps = [p for p in Interp(fb, PL()).run(b, [Sym("e")]) if p.status not in ("unreachable",)]
    if any(p.status not in ("return", "loop-pruned") for p in ps):
        chk.unrecognised("R10.5", "shape", "lift_nodes: %s" % [(p.status, p.note) for p in ps if p.status not in ("return", "loop-pruned")][:2], loc(b["span"]))
        return
    bad = None
    n_skip = n_loop = 0
    for p in ps:
        looped = any(e[0] == "loophead" for e in p.events)
        if looped:
            n_loop += 1
            continue
        n_skip += 1
        F = _rel.Facts(p)
        single = any(op == "==" and {_rel.const_int(a), _rel.const_int(bb)} & {1} and "::len(" in (_rel.cstr(a) + _rel.cstr(bb)) and "nodes" in (_rel.cstr(a) + _rel.cstr(bb)) for a, op, bb in F.rel)
        no_unary = any(op == "==" and {_rel.const_int(a), _rel.const_int(bb)} & {0} and "unary_op" in (_rel.cstr(a) + _rel.cstr(bb)) for a, op, bb in F.rel) or \
            any(lab is True and "is_empty" in _rel.cstr(tt) and "unary_op" in _rel.cstr(tt) for tt, lab in F.true)
        if not (single and no_unary):
            bad = [(_rel.cstr(d[1])[:80], d[2]) for d in p.decisions][:4]
    if bad is not None:
        chk.violation("R10.5", "lift-skipped", "lift_nodes returns without visiting the nodes on a path that is not `single node and no unary composition` (%s): a wrapped literal under a unary function is then taken for the literal itself by is_zero/is_one" % bad, loc(b["span"]))
    elif n_skip and n_loop:
        chk.ok("R10.5", "lift_nodes skips the node pass only for a single node without unary composition", "%d skipping / %d visiting paths" % (n_skip, n_loop), loc(b["span"]))
    else:
        chk.unrecognised("R10.5", "paths", "lift_nodes paths: %d skipping, %d visiting" % (n_skip, n_loop), loc(b["span"]))


def decided_some(p, pattern):
    """The path took the Some/Ok branch of a value matching `pattern` (match, `?`, or an Option/Result combinator)."""
    rx = re.compile(pattern)
    for d in p.decisions:
        s = show(d[1])
        if d[0] == "try" and d[2] == "ok" and rx.search(s):
            return True
        if d[0] == "switch" and d[2] in ("Some", "Ok") and s.startswith("discr(") and rx.search(s):
            return True
    return False


def classify_cond(s, label):
    for atom, pat in (("Z1", r"^%sis_zero\(%s\)$" % (DEEP, X)), ("Z2", r"^%sis_zero\(%s\)$" % (DEEP, Y)),
                      ("O1", r"^%sis_one\(%s\)$" % (DEEP, X)), ("O2", r"^%sis_one\(%s\)$" % (DEEP, Y))):
        if re.match(pat, s):
            return atom, bool(label)
    return None


def classify_outcome(v, opname):
    s = show(v)
    if isinstance(v, Variant) and v.variant == "Ok":
        return classify_outcome(v.fields.get("0"), opname)
    if isinstance(v, Variant) and v.variant == "Err":
        inner = show(v.fields.get("0"))
        if inner.startswith("err(") and ("operate_bin(" in inner):
            return "op-err"
        return "err"
    if re.match("^%s$" % X, s):
        return "x"
    if re.match("^%s$" % Y, s):
        return "y"
    m = re.match(r"^%svar_names_like_other\(%s(zero|one)\(\), (%s|%s)\)$" % (DEEP, DEEP, X, Y), s)
    if m:
        return m.group(1)
    m = re.match(r"^ok\(%soperate_bin\(%s, %s, '(.*)'\)\)$" % (DEEP, X, Y), s) or re.match(r"^%soperate_bin\(%s, %s, '(.*)'\)$" % (DEEP, X, Y), s)
    if m:
        return "op:" + m.group(1)
    return "?" + s[:140]


REQ = {
    "+": {"y": lambda a: a.get("Z1") is True, "x": lambda a: a.get("Z2") is True},
    "*": {"zero": lambda a: a.get("Z1") is True or a.get("Z2") is True, "y": lambda a: a.get("O1") is True, "x": lambda a: a.get("O2") is True},
    "/": {"zero": lambda a: a.get("Z1") is True and a.get("Z2") is False, "x": lambda a: a.get("O2") is True},
    "^": {"err": lambda a: a.get("Z1") is True and a.get("Z2") is True,
          "zero": lambda a: a.get("Z1") is True and a.get("Z2") is False,
          "one": lambda a: a.get("Z2") is True and a.get("Z1") is False,
          "x": lambda a: a.get("O2") is True},
}


def run(ctx):
    chk, fb = ctx.check, ctx.fb
    chk.rule("R10.1", "every shortcut outcome of Add/Mul/Div/pow is justified by the is_zero/is_one decisions on its path; the fall-through applies the impl's own operator name to (x, y)")
    chk.rule("R10.2", "Sub->'-', Neg->unary '-', BitAnd->'&', BitOr->'|', BitXor->'^', Rem->'%': one application of the table's operator to the operands, no shortcut; every attach_unary_op! helper passes its own name")
    chk.rule("R10.3", "unknown operator name => Err; lookup by name equality; Calculate wrappers convert -> apply -> convert back")
    chk.rule("R10.4", "the by-name application methods of Calculate (operate_unary, operate_binary) have one implementation: no expression type overrides them")
    no_overrides(chk, fb, "R10.4", "expression::calculate::Calculate", {"operate_unary", "operate_binary"}, "the homomorphism clauses R10.1-R10.3 are decided for the provided method only")
    lift_invariant(chk, fb)

    def impl(trait, name):
        return fb.find_bodies(lambda b: b["kind"] == "AssocFn" and b.get("name") == name and b.get("impl_trait_path") == trait
                              and (b.get("impl_self_ty") or "").startswith("expression::deep::DeepEx<"))
    targets = {"+": impl("std::ops::Add", "add"), "*": impl("std::ops::Mul", "mul"), "/": impl("std::ops::Div", "div"),
               "^": fb.find_bodies(lambda b: b["kind"] == "AssocFn" and b.get("name") == "pow" and (b.get("impl_self_ty") or "").startswith("expression::deep::DeepEx<"))}
    ncases = 0
    for op, bs in targets.items():
        if len(bs) != 1:
            chk.violation("R10.1", "anchor:%s" % op, "implementation of %r on DeepEx not found" % op)
            continue
        b = bs[0]
        ps = Interp(fb, _P()).run(b, [Sym("a"), Sym("b")])
        good = True
        seen_op = False
        for p in ps:
            if p.status in ("unreachable", "loop-pruned"):
                continue
            if p.status != "return":
                chk.unrecognised("R10.1", "shape:%s" % op, "%s %s" % (p.status, p.note), loc(b["span"]))
                good = False
                continue
            assign = {}
            bad = False
            for d in p.decisions:
                if d[0] == "try":
                    continue
                c = classify_cond(show(d[1]), d[2])
                if c is None:
                    chk.unrecognised("R10.1", "cond:%s" % op, "shortcut depends on an unrecognised condition: %s" % show(d[1])[:140], loc(d[3]))
                    bad = True
                    break
                assign[c[0]] = c[1]
            if bad:
                good = False
                continue
            ncases += 1
            out = classify_outcome(p.result, op)
            if out.startswith("op:"):
                seen_op = True
                if out[3:] != op:
                    chk.violation("R10.1", "opname:%s" % op, "the %r implementation applies operator %r" % (op, out[3:]), loc(b["span"]))
                    good = False
                continue
            if out == "op-err":
                continue
            req = REQ[op].get(out)
            okey = "unrecognised" if out.startswith("?") else out
            if req is None:
                chk.violation("R10.1", "outcome:%s:%s" % (op, okey), "%r can return %s under %s, which is not an identity of the operator" % (op, out, assign), loc(b["span"]))
                good = False
            elif not req(assign):
                chk.violation("R10.1", "outcome:%s:%s" % (op, out), "%r returns %s on a path with %s: not justified by the tests taken" % (op, out, assign), loc(b["span"]))
                good = False
        if not seen_op:
            chk.violation("R10.1", "no-op:%s" % op, "%r never applies the operator itself" % op, loc(b["span"]))
            good = False
        if good:
            chk.ok("R10.1", "shortcuts of %r" % op, "%d paths" % len(ps), loc(b["span"]))
            chk.sample({"op": op, "paths": [[{k: v for k, v in [classify_cond(show(d[1]), d[2]) for d in p.decisions if d[0] != "try"]},
                                             classify_outcome(p.result, op)] for p in ps if p.status == "return"][:6]})
    chk.floor("R10.1", "abstract cases", ncases, 16)

    # ---- R10.2 names
    n = 0
    for trait, meth, want, kind in (("std::ops::Sub", "sub", "-", "operate_bin"), ("std::ops::Neg", "neg", "-", "operate_unary"),
                                    ("std::ops::BitAnd", "bitand", "&", "operate_bin"), ("std::ops::BitOr", "bitor", "|", "operate_bin"),
                                    ("std::ops::BitXor", "bitxor", "^", "operate_bin"), ("std::ops::Rem", "rem", "%", "operate_bin")):
        bs = impl(trait, meth)
        if len(bs) != 1:
            chk.violation("R10.2", "anchor:%s" % meth, "impl %s for DeepEx not found" % trait)
            continue
        names = [mir.trace_const(bs[0], t["args"][-1]) for _, t in mir.calls(bs[0]) if (mir.callee_path(t) or "").endswith("::" + kind)]
        names = [c.get("str") for c in names if c]
        n += 1
        # no shortcut: every path returns that one application to the operands, in order
        syms = [Sym("a"), Sym("b")][:bs[0]["arg_count"]]
        rps = [p for p in Interp(fb, _P()).run(bs[0], syms) if p.status not in ("unreachable",)]
        pat = r"^(ok\()?expression::deep::(DeepEx::<'a, T, OF, LM>|detail)::%s\(%s, '%s'\)\)?$" % (kind, ", ".join(x.name for x in syms), re.escape(want))
        odd = [p for p in rps if not (p.status == "return" and re.match(pat, show(p.result)))]
        if names == [want] and odd:
            chk.violation("R10.2", "shortcut:%s" % meth, "%s::%s has a path that does not return %s(operands, %r): %s" % (
                trait, meth, kind, want, show(odd[0].result)[:120] if odd[0].result is not None else odd[0].status), loc(bs[0]["span"]))
        elif names == [want]:
            chk.ok("R10.2", "%s -> %s(%r)" % (trait, kind, want), "", loc(bs[0]["span"]))
        else:
            chk.violation("R10.2", "name:%s" % meth, "%s::%s applies %s, expected %s(%r)" % (trait, meth, names, kind, want), loc(bs[0]["span"]))
    # named helpers by shape: DeepEx method taking only self whose body is one operate_unary call (macro-generated today)
    helpers = fb.find_bodies(lambda b: b["kind"] == "AssocFn" and (b.get("impl_self_ty") or "").startswith("expression::deep::DeepEx<")
                             and b["arg_count"] == 1 and not b.get("impl_trait")
                             and sum(1 for _, t in mir.calls(b) if (mir.callee_path(t) or "").endswith("::operate_unary")) == 1
                             and sum(1 for _ in mir.calls(b)) == 1)
    for b in helpers:
        calls = [t for _, t in mir.calls(b) if (mir.callee_path(t) or "").endswith("::operate_unary")]
        nm = None
        if len(calls) == 1:
            c = mir.trace_const(b, calls[0]["args"][-1])
            nm = c.get("str") if c else None
        n += 1
        if nm == b["name"]:
            chk.ok("R10.2", "helper %s" % b["name"], "", loc(b["span"]))
        else:
            chk.violation("R10.2", "helper:%s" % b["name"], "helper method %s() applies unary operator %r" % (b["name"], nm), loc(b["span"]))
    chk.floor("R10.2", "name sites", n, 29)

    # ---- R10.3 unknown name => Err
    for fname in ("find_bin_op", "find_unary_op"):
        bs = fb.find_bodies(lambda b, fname=fname: b["kind"] == "Fn" and b["path"].endswith("deep::" + fname))
        if len(bs) != 1:
            chk.violation("R10.3", "anchor:%s" % fname, "%s not found" % fname)
            continue
        ps = [p for p in Interp(fb, _P()).run(bs[0], [Sym("repr"), Sym("ops")]) if p.status not in ("unreachable", "loop-pruned")]
        oks = [p for p in ps if p.status == "return" and isinstance(p.result, Variant) and p.result.variant == "Ok"]
        lookup = r"expression::deep::find_op\(repr, ops\)"
        good = bool(oks) and all(decided_some(p, lookup) for p in oks)
        errs = [p for p in ps if p.status == "return" and isinstance(p.result, Variant) and p.result.variant == "Err"]
        if good and errs and all(p.status == "return" for p in ps):
            chk.ok("R10.3", "%s: unknown name => Err" % fname, "%d ok / %d err paths" % (len(oks), len(errs)), loc(bs[0]["span"]))
        elif any(p.status != "return" for p in ps):
            chk.unrecognised("R10.3", "shape:%s" % fname, "%s" % [(p.status, p.note) for p in ps if p.status != "return"][:2], loc(bs[0]["span"]))
        else:
            chk.violation("R10.3", "unknown-name:%s" % fname, "%s can return Ok without a successful lookup of the operator name" % fname, loc(bs[0]["span"]))
    fo = fb.find_bodies(lambda b: b["kind"] == "Fn" and b["path"].endswith("deep::find_op"))
    if len(fo) == 1:
        good = False
        EQ = r"^std::cmp::PartialEq::eq\(operators::Operator::<'a, T>::repr\((.*)\), (\.cap:repr\(env\)|repr)\)$|^std::cmp::PartialEq::eq\((\.cap:repr\(env\)|repr), operators::Operator::<'a, T>::repr\((.*)\)\)$"
        # idiom (i): a predicate closure handed to Iterator::find / position
        for cp in fb.closures_of(fo[0]["path"]):
            cb = fb.bodies[cp]
            ps = [p for p in Interp(fb, _P()).run(cb, [Sym("env"), Sym("cand")]) if p.status == "return"]
            if len(ps) == 1 and re.match(EQ, show(ps[0].result)):
                good = True
        # idiom (ii): an explicit loop that returns the element whose name equals the requested one
        if not good:
            ps = [p for p in Interp(fb, _P()).run(fo[0], [Sym("repr"), Sym("ops")]) if p.status == "return"]
            somes = [p for p in ps if isinstance(p.result, Variant) and p.result.variant in ("Some", "Ok")]
            if somes and all(any(d[2] is True and re.match(EQ, show(d[1])) for d in p.decisions) for p in somes):
                good = True
        # the index returned with the operator is its position in the WHOLE operator list (the conversions rely on it)
        from analysis import loops as _loops, rel as _rel

        class PF(_P):
            def inline_closure(self, *a):
                return False
        allf = Interp(fb, PF()).run(fo[0], [Sym("repr"), Sym("ops")])
        src_ok = None
        for p in allf:
            if p.status != "return":
                continue
            r = _rel.canon(p.result)
            # closure idiom: map(find(enumerate(iter(ops)), pred), |(i, op)| (i, op.clone()))
            for s_ in __import__("analysis.dispatch", fromlist=["subterms"]).subterms(r):
                if isinstance(s_, App) and s_.fn in ("std::iter::Iterator::find", "std::iter::Iterator::position", "std::iter::Iterator::find_map") and s_.args:
                    parts = _loops.seq_parts(s_.args[0], p, fo[0]["path"], 0, allf)
                    if s_.fn == "std::iter::Iterator::position" and "Iterator::enumerate(" not in _rel.cstr(s_.args[0]):
                        # position() over the list itself: the position IS the index; the operator handed out is the one at it
                        found_ = isinstance(p.result, Variant) and p.result.variant in ("Some", "Ok")
                        ok_here = parts == [("src", "ops", "fwd")] and (not found_ or _rel.cstr(r) in tuple(
                            "%s{0: (ok(%s), index(ops, ok(%s)))}" % (w_, _rel.cstr(s_), _rel.cstr(s_)) for w_ in ("Option::Some", "Result::Ok")))
                    else:
                        ok_here = parts == [("src", "ops", "fwd")] and "Iterator::enumerate(" in _rel.cstr(s_.args[0])
                    src_ok = ok_here if src_ok is None else (src_ok and ok_here)
            # loop idiom: the loop's iterator on first arrival
            ts = _loops.trips(p, fo[0]["path"], 0)
            if ts:
                its = [v for v in ts[0].pre.values() if "Iterator::enumerate(" in _rel.cstr(v)]
                ok_here = any(_loops.seq_parts(v, p, fo[0]["path"], 0, allf) == [("src", "ops", "fwd")] for v in its)
                src_ok = ok_here if src_ok is None else (src_ok and ok_here)
        if src_ok is False or src_ok is None:
            good = False
            chk.violation("R10.3", "lookup-index", "find_op does not search the enumerated, complete operator list: the index stored with the operator is not its position in the operator table (conversions between the forms look operators up by this index)", loc(fo[0]["span"]))
        if good:
            chk.ok("R10.3", "find_op compares names for equality", "", loc(fo[0]["span"]))
        elif src_ok:
            chk.violation("R10.3", "lookup-predicate", "find_op does not select the operator whose name equals the requested one", loc(fo[0]["span"]))
    else:
        chk.violation("R10.3", "anchor:find_op", "find_op not found")
    # Calculate wrappers
    class P2(Policy):
        try_mode = "ok_only"

        def inline(self, fn, args, interp, path):
            # a private helper of the wrappers (`with_deepex(self, |d| ..)`): part of the wrapper
            b_ = interp.callee_body(fn)
            return b_ is not None and b_["path"].startswith("expression::calculate::") and not b_.get("trait_default_of") and not b_.get("public")
    for meth, pat in (("operate_unary", r"^expression::Express::from_deepex\(%soperate_unary\(expression::Express::to_deepex\(self_\), repr\)\)$" % DEEP),
                      ("operate_binary", r"^expression::Express::from_deepex\(%soperate_bin\(expression::Express::to_deepex\(self_\), expression::Express::to_deepex\(other\), repr\)\)$" % DEEP)):
        bs = fb.find_bodies(lambda b, meth=meth: b["kind"] == "AssocFn" and b.get("name") == meth and b.get("trait_default_of", "").endswith("calculate::Calculate"))
        if len(bs) != 1:
            chk.violation("R10.3", "anchor:Calculate::%s" % meth, "Calculate::%s not found" % meth)
            continue
        args = [Sym("self_"), Sym("repr")] if meth == "operate_unary" else [Sym("self_"), Sym("other"), Sym("repr")]
        ps = [p for p in Interp(fb, P2()).run(bs[0], args) if p.status == "return"]

        def strip_ok(v):
            # `x?`, `.and_then(f)` and `match x { Ok(v) => .. }` all continue with the success value of x
            if isinstance(v, App):
                if v.fn == ".0" and len(v.args) == 1 and isinstance(v.args[0], App) and v.args[0].fn == "as:Ok" and len(v.args[0].args) == 1:
                    return strip_ok(v.args[0].args[0])
                if v.fn == "ok" and len(v.args) == 1:
                    return strip_ok(v.args[0])
                return App(v.fn, [strip_ok(a) for a in v.args])
            return v
        # error propagation paths (Err of one of the three steps handed on) are not the wrapper's business
        succ = [p for p in ps if not (isinstance(p.result, Variant) and p.result.variant == "Err")]
        s = show(strip_ok(succ[0].result)) if len(succ) == 1 else "%d paths" % len(succ)
        if re.match(pat, s):
            chk.ok("R10.3", "Calculate::%s = from_deepex(apply(to_deepex(..)))" % meth, "", loc(bs[0]["span"]))
        else:
            chk.violation("R10.3", "wrapper:%s" % meth, "Calculate::%s is not convert -> apply -> convert back: %s" % (meth, s[:200]), loc(bs[0]["span"]))
    for meth in ("operate_bin", "operate_unary"):
        bs = fb.find_bodies(lambda b, meth=meth: b["kind"] == "AssocFn" and b.get("name") == meth and (b.get("impl_self_ty") or "").startswith("expression::deep::DeepEx<"))
        if len(bs) != 1:
            chk.violation("R10.3", "anchor:DeepEx::%s" % meth, "DeepEx::%s not found" % meth)
            continue
        args = [Sym("self_"), Sym("other"), Sym("repr")] if meth == "operate_bin" else [Sym("self_"), Sym("repr")]
        ps = Interp(fb, _P()).run(bs[0], args)
        oks = [p for p in ps if p.status == "return" and isinstance(p.result, Variant) and p.result.variant == "Ok"]
        look = "find_bin_op" if meth == "operate_bin" else "find_unary_op"
        need = r"expression::deep::%s\(repr, \.ops\(self_\)\)" % look
        if oks and all(decided_some(p, need) for p in oks):
            chk.ok("R10.3", "DeepEx::%s looks the name up in its own operator list before applying" % meth, "", loc(bs[0]["span"]))
        else:
            chk.violation("R10.3", "apply-without-lookup:%s" % meth, "DeepEx::%s can succeed without a successful lookup of the name in its own operator list" % meth, loc(bs[0]["span"]))
