"""C12 — Printed expressions parse back to the same expression (structural clauses)."""
import re

from analysis import mir, dom
from analysis.facts import loc
from analysis.interp import Interp, Policy, Sym, show

LEVEL = "other"
TECHNIQUE = "ORIGIN: identity flow of the source text from every flat parse entry into the stored text and out through unparse/Display; WHO: who-may-write the text fields; serde = unparse + parse of the same type parameters (resolved callees, generic arguments)"
EXPLANATION = (
    "Decides for every text and every flat expression: (R12.1) the text handed to FlatEx::parse / parse_wo_compile reaches the "
    "expression's text field through identity steps only (the parameter itself, then to_string), no other code writes that field "
    "(only the builder and FlatEx::new initialise it; compile never touches it), unparse returns a view of it and Display prints "
    "unparse() - so a parsed flat expression prints exactly the text it was parsed from; (R12.2) a flat expression converted from a "
    "deep one stores exactly the deep expression's printed text, and the deep text is only ever (re)computed from the printer over "
    "the expression's own nodes/operators; (R12.3) Serialize emits unparse() as a string and both Deserialize visitor methods parse "
    "the visited string with FlatEx<T,OF,LMF> of the impl's own parameters. "
    "Not decided: that deep-printed text re-parses to the same function (printer/parser round trip over all expressions)."
)
TRUSTED = ["rustc MIR construction", "exporter faithfulness", "std: to_string/String::as_str are identities on content", "serde's (de)serializer transports the string unchanged"]


def run(ctx):
    chk, fb = ctx.check, ctx.fb
    chk.rule("R12.1", "flat parse entries pass the text unchanged into the text field; only builder/new write it; unparse/Display read it back unchanged")
    chk.rule("R12.2", "from_deepex stores deepex.unparse(); DeepEx.text is written only from unparse_raw over self")
    chk.rule("R12.3", "serde: serialize_str(unparse()); visitors call parse of FlatEx<T,OF,LMF> with the impl's own parameters")

    # ---- R12.1 chain of hops
    def hop(body, callee_pred, argidx_name="text"):
        org = dom.Origins(body)
        calls = [t for _, t in mir.calls(body) if callee_pred(mir.callee_path(t) or "")]
        return org, calls
    entries = fb.find_bodies(lambda b: b["kind"] == "AssocFn" and b.get("name") in ("parse", "parse_wo_compile") and "FlatEx<" in (b.get("impl_self_ty") or ""))
    n_ent = 0
    frontier = [(b, None) for b in entries]
    builder = fb.find_bodies(lambda b: b["kind"] == "Fn" and b["path"].endswith("flat::detail::make_expression"))
    if len(builder) != 1:
        chk.violation("R12.1", "anchor:builder", "flat builder not found")
        return
    builder = builder[0]
    seen = set()
    ok_chain = True
    work = list(entries)
    reached_builder = False
    while work:
        b = work.pop()
        if b["path"] in seen:
            continue
        seen.add(b["path"])
        org = dom.Origins(b)
        tname = None
        for i in range(1, b["arg_count"] + 1):
            if b["locals"][i]["ty"].startswith("&") and "str" in b["locals"][i]["ty"] and (org.name(i) or "").startswith("text"):
                tname = "param:%s" % org.name(i)
        if tname is None:
            for i in range(1, b["arg_count"] + 1):
                if re.match(r"^&('\w+ )?str$", b["locals"][i]["ty"]):
                    tname = "param:%s" % org.name(i)
        if tname is None:
            chk.unrecognised("R12.1", "text-param:%s" % b["path"], "no text parameter", loc(b["span"]))
            ok_chain = False
            continue
        nxt = []
        for _, t in mir.calls(b):
            cp = mir.callee_path(t) or ""
            cb = fb.bodies.get(cp)
            if cb is None or cb["kind"] == "Closure":
                continue
            if not (cp.startswith("expression::flat::detail::") or cp == builder["path"]):
                continue
            terms = [org.op_term(a) for a in t["args"]]
            # the callee's &str parameter must receive our text parameter unchanged
            strpos = [i for i in range(1, cb["arg_count"] + 1) if re.match(r"^&('\w+ )?str$", cb["locals"][i]["ty"])]
            if not strpos:
                continue
            passed = terms[strpos[0] - 1]
            if passed == tname:
                nxt.append(cb)
            else:
                chk.violation("R12.1", "hop:%s" % b["path"], "%s passes %s instead of the unchanged source text to %s" % (b["path"], passed[:80], cp), loc(t["span"]))
                ok_chain = False
        for cb in nxt:
            if cb["path"] == builder["path"]:
                reached_builder = True
            else:
                work.append(cb)
        if b in entries:
            n_ent += 1
    if reached_builder and ok_chain:
        chk.ok("R12.1", "text reaches the builder unchanged from %d entry points" % n_ent, sorted(seen).__repr__()[:160], loc(builder["span"]))
    elif not reached_builder:
        chk.violation("R12.1", "no-chain", "the flat parse entries do not reach the builder with the source text", loc(builder["span"]))
    chk.floor("R12.1", "flat parse entries", n_ent, 2)
    # writers of FlatEx.text
    writers = []
    for p, b in fb.bodies.items():
        if b.get("impl_derived"):
            continue
        org = None
        for bi, si, st in mir.iter_stmts(b, mir.normal_blocks(b)):
            if st["k"] != "assign":
                continue
            rv, pl = st["rv"], st["place"]
            if rv["k"] == "aggregate" and rv.get("agg") == "adt" and rv["adt"].endswith("flat::FlatEx") and "text" in rv["fields"]:
                org = org or dom.Origins(b)
                writers.append((p, "init", org.op_term(rv["ops"][rv["fields"].index("text")]), st["span"]))
            elif pl["proj"] and any(e["k"] == "field" and e["name"] == "text" and (e.get("owner") or "").endswith("flat::FlatEx") for e in pl["proj"]):
                org = org or dom.Origins(b)
                writers.append((p, "assign", org.rv_term(rv), st["span"]))
        for bi, t in mir.calls(b):
            if t["args"] and t["args"][0].get("k") in ("move", "copy"):
                org = org or dom.Origins(b)
                a0 = org.op_term(t["args"][0])
                if a0.endswith(".text") and "FlatEx" in (b.get("impl_self_ty") or "") + b["path"] and _mut_arg(b, t["args"][0]):
                    writers.append((p, "mut-call:" + (mir.callee_path(t) or "?"), a0, t["span"]))
    for (p, kind, term, span) in writers:
        if p == builder["path"] and kind == "init" and re.match(r"^std::string::ToString::to_string\(param:\w+\)$|^std::borrow::ToOwned::to_owned\(param:\w+\)$|^std::convert::From::from\(param:\w+\)$", term):
            chk.ok("R12.1", "builder stores the text parameter", term, loc(span))
        elif p.endswith("FlatEx::<T, OF, LMF>::new") and kind == "init" and re.match(r"^param:\w+$", term):
            chk.ok("R12.1", "FlatEx::new stores its text parameter", term, loc(span))
        else:
            chk.violation("R12.1", "text-writer:%s:%s" % (p, kind.split(":")[0]), "%s writes the flat expression's text: %s %s" % (p, kind, term[:100]), loc(span))
    chk.floor("R12.1", "text writers seen", len(writers), 2)
    for ty, fld in (("flat::FlatEx", "FlatEx"), ("deep::DeepEx", "DeepEx")):
        up = fb.find_bodies(lambda b, fld=fld: b["kind"] == "AssocFn" and b.get("name") == "unparse" and (fld + "<") in (b.get("impl_self_ty") or ""))
        if len(up) != 1:
            chk.violation("R12.1", "anchor:unparse:%s" % fld, "unparse of %s not found" % fld)
            continue
        org = dom.Origins(up[0])
        rets = [org.rv_term(st["rv"]) for _, _, st in mir.iter_stmts(up[0], mir.normal_blocks(up[0])) if st["k"] == "assign" and st["place"]["local"] == 0]
        rets += ["%s(%s)" % (mir.callee_path(t), ", ".join(org.op_term(a) for a in t["args"])) for _, t in mir.calls(up[0]) if t["dest"]["local"] == 0]
        if rets and all(re.match(r"^(std::string::String::as_str\(|std::ops::Deref::deref\()?param:self\.text\)?$", r) for r in rets):
            chk.ok("R12.1", "%s::unparse returns the stored text" % fld, rets[0], loc(up[0]["span"]))
        else:
            chk.violation("R12.1", "unparse:%s" % fld, "%s::unparse does not return the stored text unchanged: %s" % (fld, rets), loc(up[0]["span"]))
        disp = fb.find_bodies(lambda b, fld=fld: b["kind"] == "AssocFn" and b.get("name") == "fmt" and (b.get("impl_trait_path") or "") == "std::fmt::Display" and (fld + "<") in (b.get("impl_self_ty") or ""))
        if len(disp) == 1:
            names = [mir.callee_path(t) for _, t in mir.calls(disp[0])]
            flagged = sorted({n for n in names if n and n.startswith("std::fmt::Formatter") and n.rsplit("::", 1)[-1] in (
                "pad", "pad_integral", "width", "precision", "fill", "align", "alternate", "sign_plus", "sign_minus", "sign_aware_zero_pad", "options")})
            if flagged:
                chk.violation("R12.1", "display-flags:%s" % fld, "Display of %s lets the width / precision / fill of the format specification change the printed expression (%s): `{:.3}` truncates it to something that does not parse back" % (
                    fld, ", ".join(x.rsplit("::", 1)[-1] for x in flagged)), loc(disp[0]["span"]))
            elif "expression::Express::unparse" in names:
                chk.ok("R12.1", "Display of %s prints unparse()" % fld, "", loc(disp[0]["span"]))
            else:
                chk.violation("R12.1", "display:%s" % fld, "Display of %s does not print unparse()" % fld, loc(disp[0]["span"]))
        else:
            chk.violation("R12.1", "anchor:display:%s" % fld, "Display impl of %s not found" % fld)

    # ---- R12.2
    fd = fb.find_bodies(lambda b: b["kind"] == "AssocFn" and b.get("name") == "from_deepex" and "FlatEx<" in (b.get("impl_self_ty") or ""))
    if len(fd) == 1:
        org = dom.Origins(fd[0])
        ctor = [t for _, t in mir.calls(fd[0]) if (mir.callee_path(t) or "").endswith("FlatEx::<T, OF, LMF>::new")]
        term = None
        if ctor:
            newb = fb.bodies.get(mir.callee_path(ctor[0]))
            for i in range(1, newb["arg_count"] + 1):
                if newb["locals"][i]["ty"] == "std::string::String":
                    term = org.op_term(ctor[0]["args"][i - 1])
        if term and re.match(r"^std::string::ToString::to_string\(expression::Express::unparse\(param:deepex\)\)$", term):
            chk.ok("R12.2", "from_deepex stores deepex.unparse()", term, loc(fd[0]["span"]))
        else:
            chk.violation("R12.2", "from_deepex-text", "from_deepex does not store the deep expression's printed text: %s" % (term or "?")[:120], loc(fd[0]["span"]))
    else:
        chk.violation("R12.2", "anchor:from_deepex", "FlatEx::from_deepex not found")
    dw = 0
    for p, b in fb.bodies.items():
        if b.get("impl_derived"):
            continue
        org = None
        for bi, si, st in mir.iter_stmts(b, mir.normal_blocks(b)):
            if st["k"] != "assign":
                continue
            rv, pl = st["rv"], st["place"]
            term = None
            if rv["k"] == "aggregate" and rv.get("agg") == "adt" and rv["adt"].endswith("deep::DeepEx") and "text" in rv["fields"]:
                org = org or dom.Origins(b)
                term = org.op_term(rv["ops"][rv["fields"].index("text")])
                kind = "init"
            elif pl["proj"] and any(e["k"] == "field" and e["name"] == "text" and (e.get("owner") or "").endswith("deep::DeepEx") for e in pl["proj"]):
                org = org or dom.Origins(b)
                term = org.rv_term(rv)
                kind = "assign"
            if term is None:
                continue
            dw += 1
            good = False
            if kind == "init" and p.endswith("DeepEx::<'a, T, OF, LM>::new") and (re.match(r"^std::string::ToString::to_string\('.*'\)$", term) or
                                                                              re.match(r"^std::string::String::new\(\)$|^std::default::Default::default\(\)$|^std::convert::From::from\('.*'\)$", term)):
                good = True   # placeholder literals, overwritten by compile() right after construction
            if re.match(r"^expression::deep::detail::unparse_raw\(", term) and (p.endswith("::compile") or p.endswith("::new")):
                good = True
            if good:
                chk.ok("R12.2", "DeepEx.text written in %s" % p.split("::")[-1], term[:80], loc(st["span"]))
            else:
                chk.violation("R12.2", "deep-text-writer:%s" % p, "%s writes the deep expression's text from %s" % (p, term[:100]), loc(st["span"]))
    chk.floor("R12.2", "deep text writers", dw, 3)

    # ---- R12.4 deep printer: what each node kind prints
    chk.rule("R12.4", "deep printer: number = its Debug form; variable = `{name}`; nested expression = the printer applied to that expression's own nodes, operators and unary composition, in parentheses iff it has no unary operator")
    from analysis.interp import Interp as _I, Policy as _Pol, Sym as _S, App as _A, Variant as _V, Tup as _T, Const as _C, show as _show
    from analysis import rel as _rel
    ur = fb.find_bodies(lambda b: b["kind"] == "Fn" and b["path"].endswith("deep::detail::unparse_raw"))
    if len(ur) != 1:
        chk.violation("R12.4", "anchor", "deep::detail::unparse_raw not found")
    else:
        NODE = "expression::deep::DeepNode"
        # the per-node closure: takes &DeepNode, returns String
        ncl = [fb.bodies[c] for c in fb.closures_of(ur[0]["path"]) if fb.bodies[c]["arg_count"] == 2 and "DeepNode<" in fb.bodies[c]["locals"][2]["ty"]
               and fb.bodies[c]["locals"][0]["ty"] == "std::string::String"]
        if not ncl:
            # ... or a private function the printer calls for each node
            callees = {mir.callee_path(t) for _, t in mir.calls(ur[0])} | {mir.callee_path(t) for c in fb.closures_of(ur[0]["path"]) for _, t in mir.calls(fb.bodies[c])}
            ncl = [fb.bodies[c] for c in callees if c in fb.bodies and fb.bodies[c]["kind"] == "Fn" and fb.bodies[c]["locals"][0]["ty"] == "std::string::String"
                   and any("DeepNode<" in fb.bodies[c]["locals"][i]["ty"] and "[" not in fb.bodies[c]["locals"][i]["ty"] for i in range(1, fb.bodies[c]["arg_count"] + 1)) and c != ur[0]["path"]]
        if len(ncl) != 1:
            chk.unrecognised("R12.4", "node-printer", "per-node closure of the deep printer not found (%d candidates)" % len(ncl), loc(ur[0]["span"]))
        else:
            cb = ncl[0]

            def nargs(node):
                if cb["kind"] == "Closure":
                    return [_S("env"), node]
                return [node if ("DeepNode<" in cb["locals"][i]["ty"] and "[" not in cb["locals"][i]["ty"]) else _S("a%d" % i) for i in range(1, cb["arg_count"] + 1)]

            def lit(v):
                """printable literal text of a format string and its arguments"""
                v = _rel.canon(v)
                if not (isinstance(v, _A) and v.fn == "std::fmt::format" and isinstance(v.args[0], _A) and v.args[0].fn.endswith("Arguments::<'a>::new")):
                    return None
                fa = v.args[0].args
                s = _show(fa[0])
                text = "".join(ch for ch in re.sub(r"\\x[0-9a-f]{2}", "", s[2:-1] if s.startswith("b") else s) if ch in "{}()")
                args = fa[1].elems if isinstance(fa[1], _T) else [fa[1]]
                return text, [_rel.cstr(a) for a in args]
            probs = []
            ps = [p for p in _I(fb, _Pol()).run(cb, nargs(_V(NODE, "Num", {"0": _S("n")}))) if p.status == "return"]
            r = lit(ps[0].result) if len(ps) == 1 else None
            if r != ("", ["core::fmt::rt::Argument::<'_>::new_debug(n)"]):
                probs.append("a number prints as %s, expected its Debug form alone" % (r,))
            ps = [p for p in _I(fb, _Pol()).run(cb, nargs(_V(NODE, "Var", {"0": _T([_S("i"), _S("name")])}))) if p.status == "return"]
            r = lit(ps[0].result) if len(ps) == 1 else None
            if r != ("{}", ["core::fmt::rt::Argument::<'_>::new_display(name)"]):
                probs.append("a variable prints as %s, expected `{name}`" % (r,))
            ps = [p for p in _I(fb, _Pol()).run(cb, nargs(_V(NODE, "Expr", {"0": _S("e")}))) if p.status == "return"]
            REC = r"%s\(expression::deep::DeepEx::<'a, T, OF, LM>::nodes\((?P<x>.*?)\), expression::deep::DeepEx::<'a, T, OF, LM>::bin_ops\((?P=x)\), expression::deep::DeepEx::<'a, T, OF, LM>::unary_op\((?P=x)\)\)" % re.escape(ur[0]["path"])
            seen_e = set()
            for p in ps:
                F = _rel.Facts(p)
                no_unary = None
                for a_, op_, b_ in F.rel:
                    if op_ in ("==", "!=") and {_rel.const_int(a_), _rel.const_int(b_)} & {0} and "UnaryOp::<T>::len(" in (_rel.cstr(a_) + _rel.cstr(b_)):
                        no_unary = (op_ == "==")
                for tt, lab in F.true:
                    if "is_empty(" in _rel.cstr(tt):
                        no_unary = lab
                res = _rel.canon(p.result)
                l_ = lit(res)
                if l_ is not None:
                    text, args = l_
                    inner = re.match(r"^core::fmt::rt::Argument::<'_>::new_display\((.*)\)$", args[0]).group(1) if len(args) == 1 and args[0].startswith("core::fmt::rt::Argument::<'_>::new_display(") else "?"
                else:
                    text, inner = "", _rel.cstr(res)
                m_ = re.match("^" + REC + "$", inner)
                if not m_ or "e" not in m_.group("x"):
                    probs.append("a nested expression prints %s, expected the printer applied to that expression's own nodes, operators and unary composition" % inner[:120])
                    continue
                if no_unary is None:
                    probs.append("whether a nested expression is put in parentheses does not depend on its having a unary operator")
                elif (text == "()") != no_unary:
                    probs.append("a nested expression %s a unary operator is printed %s parentheses" % ("without" if no_unary else "with", "with" if text == "()" else "without"))
                seen_e.add(no_unary)
            if seen_e != {True, False} and not probs:
                probs.append("nested expression cases seen: %s" % sorted(map(str, seen_e)))
            if probs:
                chk.violation("R12.4", "node-text", "deep printer: %s" % "; ".join(probs[:3]), loc(cb["span"]))
            else:
                chk.ok("R12.4", "deep printer: number Debug, `{name}`, nested expressions re-printed from their own parts", "", loc(cb["span"]))

    # ---- R12.3 serde
    if "serde" not in fb.features:
        chk.note("R12.3 skipped: this build configuration does not enable the serde feature")
        return
    from analysis.interp import Interp, Policy, Sym, App, Variant, show

    class PS(Policy):
        """helpers of the serde module are inlined: where the call sits does not matter"""
        max_depth = 4

        def inline(self, fn, args, interp, path):
            return fn.get("path", "").startswith("expression::serde::")
    ser = fb.find_bodies(lambda b: b["kind"] == "AssocFn" and b.get("name") == "serialize" and (b.get("impl_trait") or "") == "serde::Serialize"
                         and "flat::FlatEx" in (b.get("impl_self_ty") or ""))
    if len(ser) != 1:
        chk.violation("R12.3", "anchor:serialize", "impl Serialize for FlatEx not found (feature serde)")
    else:
        ps = [p for p in Interp(fb, PS()).run(ser[0], [Sym("self_"), Sym("serializer")]) if p.status != "unreachable"]
        good = bool(ps)
        why = ""
        for p in ps:
            calls = [e for e in p.events if e[0] == "call" and e[1] == "serde::Serializer::serialize_str"]
            if p.status != "return" or len(calls) != 1 or show(calls[0][2][1]) != "expression::Express::unparse(self_)" or \
                    not (isinstance(p.result, App) and p.result.fn == "serde::Serializer::serialize_str" and show(p.result.args[1]) == "expression::Express::unparse(self_)"):
                good = False
                why = "%s: %s" % (p.status, show(p.result)[:120] if p.result is not None else p.note)
        if good:
            chk.ok("R12.3", "Serialize emits unparse() as a string", "%d path(s)" % len(ps), loc(ser[0]["span"]))
        else:
            chk.violation("R12.3", "serialize", "serialization does not emit unparse() of the expression unchanged: %s" % why, loc(ser[0]["span"]))
    vis = fb.find_bodies(lambda b: b["kind"] == "AssocFn" and b.get("name") in ("visit_str", "visit_borrowed_str") and "FlatExVisitor" in (b.get("impl_self_ty") or ""))
    nv = 0
    for b in vis:
        ps = [p for p in Interp(fb, PS()).run(b, [Sym("self_"), Sym("text")]) if p.status != "unreachable"]
        ok = bool(ps) and all(p.status == "return" for p in ps)
        n_ok = 0
        for p in ps:
            if p.status != "return":
                continue
            r = p.result
            if isinstance(r, Variant) and r.variant == "Err":
                continue
            # the returned value is (the Ok payload of) parse(text), FlatEx being the Self type of the resolved parse
            n_ok += 1
            parses = [e for e in p.events if e[0] == "call" and e[1] == "expression::Express::parse"]
            if len(parses) != 1 or show(parses[0][2][0]) != "text" or not ((parses[0][5] or {}).get("self_kind") or {}).get("path", "").endswith("flat::FlatEx"):
                ok = False
                continue
            s = show(r)
            if s not in ("Result::Ok{0: .0(as:Ok(expression::Express::parse(text)))}", "Result::Ok{0: ok(expression::Express::parse(text))}") and \
                    not re.match(r"^std::result::Result::<T, E>::map_err\(expression::Express::parse\(text\), closure<\{closure#\d+\}>\)$", s):
                ok = False
        ok = ok and n_ok >= 1
        nv += 1
        if ok:
            chk.ok("R12.3", "%s returns FlatEx::parse of the visited string" % b["name"], "", loc(b["span"]))
        else:
            chk.violation("R12.3", "visitor:%s" % b["name"], "%s does not return the parse of the visited string unchanged: %s" % (b["name"], [show(p.result)[:100] for p in ps][:3]), loc(b["span"]))
    chk.floor("R12.3", "visitor methods", nv, 2)
    text_fresh(chk, fb)


def _mut_arg(body, op):
    defs = mir.local_defs(body).get(op["place"]["local"], [])
    return len(defs) == 1 and defs[0][0] == "stmt" and defs[0][3]["k"] == "ref" and "Mut" in defs[0][3]["borrow"]


# functions that may return a deep expression whose cached text is behind its structure, with the reason why that is harmless
STALE_OK = {
    "reset_vars": "only the indices of variable nodes change; the text prints names",
    "without_latest_unary": "internal to differentiation: the result only enters other expressions as a nested node, and nested nodes are "
                            "printed from their structure (R12.4), never from their cached text",
    "lift_nodes": "called by the refreshing function before it re-derives the text (callers are checked)",
}


def text_fresh(chk, fb, RID="R12.5"):
    """R12.5 (typestate): a function that changes the structure of a deep expression (nodes, binary operators, unary
    composition) re-derives the cached text on every path before it returns.  unparse()/Display return the cached text, so a
    stale text is an expression that prints as something else than it computes."""
    from analysis.callgraph import CallGraph
    OWNER = "expression::deep::DeepEx"
    STRUCT = {"nodes", "bin_ops", "unary_op"}
    chk.rule(RID, "a function that mutates nodes / bin_ops / unary_op of a DeepEx refreshes its cached text (compile, or a write of `text`) on every path to a return; exceptions are listed with reasons")

    def fld(pl, names):
        return any(pr.get("k") == "field" and pr.get("owner") == OWNER and pr.get("name") in names for pr in (pl or {}).get("proj", []))

    def events(b, refreshers, stale_fns=()):
        tr = {}
        for bi in mir.normal_blocks(b):
            ev = []
            blk = b["blocks"][bi]
            for st in blk["stmts"]:
                if st["k"] != "assign":
                    continue
                if fld(st["place"], {"text"}):
                    ev.append("F")
                elif fld(st["place"], STRUCT):
                    ev.append("S")
                rv = st["rv"]
                if rv["k"] == "ref" and rv.get("borrow", "").startswith("Mut") and fld(rv["place"], STRUCT):
                    ev.append("S")
            t = blk["term"]
            if t["k"] == "call":
                cp = mir.callee_path(t) or ""
                if cp in refreshers:
                    ev.append("F")
                elif cp in stale_fns and cp != b["path"] and any("deep::DeepEx<" in ((a.get("place") or {}).get("ty") or "") for a in t.get("args", [])):
                    ev.append("S")
                elif fld(t.get("dest"), STRUCT):
                    ev.append("S")
            tr[bi] = ev
        return tr

    def stale_returns(b, refreshers, stale_fns=(), entry_stale=False):
        tr = events(b, refreshers, stale_fns)
        IN = {bi: False for bi in tr}
        if entry_stale and 0 in IN:
            IN[0] = True        # "does it refresh on every path": the caller hands over an expression whose text is out of date
        OUT = {}
        changed = True
        while changed:
            changed = False
            for bi in sorted(tr):
                s = IN[bi]
                for e in tr[bi]:
                    s = e == "S"
                OUT[bi] = s
                for nx in mir.succs(b, bi):
                    if nx in IN and s and not IN[nx]:
                        IN[nx] = True
                        changed = True
        touched = any("S" in v for v in tr.values())
        refreshes = any("F" in v for v in tr.values())
        return touched, refreshes, [bi for bi in tr if b["blocks"][bi]["term"]["k"] == "return" and OUT.get(bi)]
    cg = CallGraph(fb)

    def own(p):
        return re.sub(r"(::\{closure#\d+\})+$", "", p)
    # fixpoint: a call that hands a DeepEx mutably to a function which may return it stale is itself a structural mutation
    stale_fns = set()
    refreshers = set()
    partial = {}
    for _ in range(8):
        partial.clear()
        new_stale = set()
        new_ref = set()
        for p, b in fb.bodies.items():
            touched, refreshes, stale = stale_returns(b, refreshers, stale_fns)
            if touched and stale and own(p).rsplit("::", 1)[-1] not in STALE_OK:
                new_stale.add(p)
            if refreshes and not stale and b["arg_count"] >= 1 and b["locals"][1]["ty"].startswith("&mut") and "deep::DeepEx<" in b["locals"][1]["ty"]:
                new_ref.add(p)
                # callers rely on it after their own mutations: it has to re-derive the text on every path, not only after its own
                if stale_returns(b, refreshers, stale_fns, entry_stale=True)[2]:
                    partial[p] = b
        if new_stale == stale_fns and new_ref == refreshers:
            break
        stale_fns, refreshers = new_stale, new_ref
    if not refreshers:
        chk.violation(RID, "anchor", "no function that re-derives the cached text of a DeepEx found")
        return
    for p, b in sorted(partial.items()):
        if not [c for c in cg.callers_of(p) if own(c) != own(p)]:
            continue
        bi = stale_returns(b, refreshers, stale_fns, entry_stale=True)[2][0]
        chk.violation(RID, "partial:%s" % own(p).rsplit("::", 1)[-1], "%s is called to re-derive the cached text of a deep expression after a change, but has a path to a return that does not: "
                      "unparse() / Display / serialisation then print an expression that differs from the one that is evaluated" % p, loc(b["blocks"][bi]["term"]["span"]))
    n = 0
    for p, b in sorted(fb.bodies.items()):
        touched, refreshes, stale = stale_returns(b, refreshers, stale_fns)
        if not touched:
            continue
        n += 1
        name = own(p).rsplit("::", 1)[-1]
        if not stale:
            chk.ok(RID, "fresh:%s" % name, "text re-derived on every path", loc(b["span"]))
            continue
        callers = {own(c) for c in cg.callers_of(p)} - {own(p)}
        outside = sorted(c for c in callers if not c.startswith("expression::deep::") and not c.startswith("<expression::deep::"))
        if name in STALE_OK:
            chk.ok(RID, "exception:%s" % name, STALE_OK[name], loc(b["span"]))
        elif callers and not outside and "{closure" not in p and not b.get("public"):
            # a private helper of the module: the mutation is attributed to the call in its callers, which are checked themselves
            chk.ok(RID, "helper:%s" % name, "leaves the text to its callers (%s), which are checked with this call counted as a mutation" % ", ".join(sorted(c.rsplit("::", 1)[-1] for c in callers))[:160], loc(b["span"]))
        else:
            bi = stale[0]
            chk.violation(RID, "stale:%s" % name, "%s changes the structure of a deep expression and can return without re-deriving its cached text: unparse() / Display / serialisation then print an expression that differs from the one that is evaluated" % p,
                          loc(b["blocks"][bi]["term"]["span"]))
    chk.floor(RID, "functions mutating the structure of a DeepEx", n, 5)
