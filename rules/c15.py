"""C15 — Consuming evaluation agrees with borrowing evaluation (structural clauses)."""
import re

from analysis import mir, order
from analysis.facts import loc
from analysis.interp import Interp, Policy, Sym, Variant, Closure, App, Const, show

LEVEL = "other"
TECHNIQUE = "DECIDE: decision table of the per-occurrence take-vs-clone closure extracted by abstract interpretation (relation derived from the comparison), ORIGIN of the marked position and of the value read, scan predicate term"
EXPLANATION = (
    "Decides the per-occurrence bookkeeping of consuming evaluation (eval_vec / eval_iter): (R15.1) for a variable node the value is "
    "CLONED exactly on the path where the number of not-yet-consumed occurrences of that variable is > 1, and MOVED OUT (mem::take) "
    "otherwise - so a variable that occurs once is moved, and a moved-out placeholder can only be read if the count were wrong; both "
    "paths read vars[idx] for the node's own index and pass it through the node's unary operator; (R15.2) on the clone path exactly one "
    "occurrence is marked consumed, and the marked position is the position found by the scan (written by the scan closure), not some "
    "other index; the scan counts entries EQUAL to the node's variable index; (R15.3) the occurrence list holds the variable index of every variable node (only the multiset matters); literal nodes are cloned, never taken from the values. The arity guard of eval_vec / eval_iter is "
    "C04 R04.1. Not decided: equality of the results of the two evaluation styles as values."
)
TRUSTED = ["rustc MIR construction", "exporter faithfulness", "std iterator adaptors visit every element once, in order"]

NODE = "expression::flat::detail::FlatNode"
KIND = "expression::flat::detail::FlatNodeKind"


class _P(Policy):
    max_depth = 4

    def inline(self, fn, args, interp, path):
        return False


def run(ctx):
    chk, fb = ctx.check, ctx.fb
    chk.rule("R15.1", "variable node: clone iff (#remaining occurrences > 1), else mem::take; both read vars[idx] of the node's own index")
    chk.rule("R15.2", "clone path marks exactly one occurrence, at the position the scan found; the scan matches entries equal to the node's index")
    chk.rule("R15.3", "occurrence list = variable index of every variable node (as a multiset); literal nodes clone their number")
    fn = fb.find_bodies(lambda b: b["kind"] == "Fn" and b["arg_count"] == 4 and b["locals"][1]["ty"].startswith("&mut [")
                        and "FlatNode<" in b["locals"][2]["ty"] and "FlatOp<" in b["locals"][3]["ty"])
    if len(fn) != 1:
        chk.violation("R15.1", "anchor", "consuming evaluator not found by role (fn(&mut [T], &[FlatNode], &[FlatOp], &[usize]))")
        return
    b = fn[0]
    cl, _ = order.closures_created(fb, b, [Sym("vars"), Sym("nodes"), Sym("ops"), Sym("prio")])
    per_node = [v for v in cl.values() if any("vars" == show(x) for x in v.caps.values())]
    if len(per_node) != 1:
        chk.unrecognised("R15.1", "closure", "per-node closure capturing the values not found", loc(b["span"]))
        return
    mc = per_node[0]
    occ_name = [k for k, v in mc.caps.items() if show(v) != "vars"]
    if len(occ_name) != 1:
        chk.unrecognised("R15.1", "captures", "per-node closure should capture the values and the occurrence list", loc(b["span"]))
        return
    occ_term = show(mc.caps[occ_name[0]])
    env = Closure(mc.path, {k: Sym("OCC" if k == occ_name[0] else "vars") for k in mc.caps})
    cb = fb.bodies[mc.path]
    # ---- variable node
    node = Variant(NODE, None, {"kind": Variant(KIND, "Var", {"0": Sym("idx")}), "unary_op": Sym("u")})
    ps = Interp(fb, _P()).run(cb, [env, node])
    if any(p.status not in ("return", "unreachable") for p in ps) or len([p for p in ps if p.status == "return"]) != 2:
        chk.unrecognised("R15.1", "shape", "per-node closure: expected exactly a clone path and a take path, got %s" % [(p.status, p.note) for p in ps], loc(cb["span"]))
        return
    COUNT = r"std::iter::Iterator::count\(std::iter::Iterator::filter\(std::iter::Iterator::enumerate\(core::slice::<impl \[T\]>::iter\(OCC\)\), closure<\{closure#\d+\}>\)\)"
    scan_closure = None
    for p in [p for p in ps if p.status == "return"]:
        res = show(p.result)
        clone = re.match(r"^operators::UnaryOp::<T>::apply\(u, index\(vars, idx\)\)$", res)       # Clone::clone is the identity on values
        take = re.match(r"^operators::UnaryOp::<T>::apply\(u, std::mem::take\(index\(vars, idx\)\)\)$", res)
        cloned = any(e[0] == "call" and e[1] == "std::clone::Clone::clone" and show(e[2][0]) == "index(vars, idx)" for e in p.events)
        dec = [(show(d[1]), d[2]) for d in p.decisions]
        rel = None
        for s, l in dec:
            m = re.match(r"^binop:(Gt|Ge|Lt|Le|Eq|Ne)\(%s, (\d+)_usize\)$" % COUNT, s)
            if m:
                op, k = m.group(1), int(m.group(2))
                holds = {"Gt": ">", "Ge": ">=", "Lt": "<", "Le": "<=", "Eq": "==", "Ne": "!="}[op]
                if l is False:
                    holds = {">": "<=", ">=": "<", "<": ">=", "<=": ">", "==": "!=", "!=": "=="}[holds]
                rel = (holds, k)
            else:
                chk.unrecognised("R15.1", "cond", "take/clone decision depends on an unrecognised condition: %s" % s[:140], loc(cb["span"]))
        marks = [e for e in p.events if e[0] == "write_opaque"]
        if clone and cloned:
            # count > 1  (equivalently >= 2)
            if rel in ((">", 1), (">=", 2)):
                chk.ok("R15.1", "clone path taken iff count > 1", "", loc(cb["span"]))
            else:
                chk.violation("R15.1", "clone-condition", "a variable value is cloned under `count %s %s` instead of `count > 1`: an occurrence may read a moved-out placeholder, or a single occurrence is cloned" % (rel or ("?", "?")), loc(cb["span"]))
            if len(marks) == 1 and re.match(r"^std::ops::IndexMut::index_mut\(OCC, mut:std::iter::Iterator::filter\(", show(marks[0][1])) and "usize>::MAX" in show(marks[0][3]):
                chk.ok("R15.2", "clone path marks the occurrence found by the scan", show(marks[0][1])[:80], loc(cb["span"]))
            else:
                chk.violation("R15.2", "mark", "the clone path does not mark exactly the occurrence found by the scan as consumed: %s" % [(show(m_[1])[:90], show(m_[3])[:30]) for m_ in marks], loc(cb["span"]))
            for s, l in dec:
                pass
        elif take:
            if rel in (("<=", 1), ("<", 2)):
                chk.ok("R15.1", "take path taken iff count <= 1", "", loc(cb["span"]))
            else:
                chk.violation("R15.1", "take-condition", "a variable value is moved out under `count %s %s` instead of `count <= 1`" % (rel or ("?", "?")), loc(cb["span"]))
            if marks:
                chk.violation("R15.2", "mark-on-take", "the take path modifies the occurrence list", loc(cb["span"]))
        else:
            chk.violation("R15.1", "value", "a variable node evaluates to %s, expected the node's unary applied to vars[idx] (cloned or taken)" % res[:140], loc(cb["span"]))
        for d in p.decisions:
            for a in _closures(d[1]):
                scan_closure = a
    # scan predicate: entry == idx, remembers its position
    if scan_closure is None:
        chk.unrecognised("R15.2", "scan", "scan closure not found", loc(cb["span"]))
    else:
        sb = fb.bodies.get(scan_closure.path)
        sc = Closure(scan_closure.path, {k: Sym(k) for k in scan_closure.caps})
        sps = Interp(fb, _P()).run(sb, [sc, Sym("entry")]) if sb else []
        good = len([p for p in sps if p.status == "return"]) == 2
        for p in sps:
            if p.status != "return":
                continue
            dec = [(show(d[1]), d[2]) for d in p.decisions]
            eq = [l for s, l in dec if re.match(r"^std::cmp::PartialEq::eq\(\.1\(entry\), idx\)$|^binop:Eq\(\.1\(entry\), idx\)$|^std::cmp::PartialEq::eq\(idx, \.1\(entry\)\)$", s)]
            writes = [e for e in p.events if e[0] == "write_opaque"]
            r = p.result
            if len(eq) != 1:
                good = False
            elif eq[0] is True:
                if not (isinstance(r, Const) and r.bits == 1 and len(writes) == 1 and show(writes[0][3]) == ".0(entry)"):
                    good = False
            else:
                if not (isinstance(r, Const) and r.bits == 0 and not writes):
                    good = False
        if good:
            chk.ok("R15.2", "scan matches entries equal to the node's index and records their position", "", loc(sb["span"]))
        else:
            chk.violation("R15.2", "scan-predicate", "the occurrence scan does not select exactly the entries equal to the node's variable index while recording the matched position", loc(sb["span"]) if sb else None)
    # ---- literal node
    lit = Variant(NODE, None, {"kind": Variant(KIND, "Num", {"0": Sym("n")}), "unary_op": Sym("u")})
    lps = [p for p in Interp(fb, _P()).run(cb, [env, lit]) if p.status == "return"]
    if len(lps) == 1 and show(lps[0].result) == "operators::UnaryOp::<T>::apply(u, n)" and not [e for e in lps[0].events if e[0] == "write_opaque"]:
        chk.ok("R15.3", "literal node evaluates to its (cloned) number", "", loc(cb["span"]))
    else:
        chk.violation("R15.3", "literal", "a literal node does not evaluate to its own number: %s" % [show(p.result)[:80] for p in lps], loc(cb["span"]))
    # ---- occurrence list
    # only the MULTISET of variable indices matters (entries are counted and one equal entry is marked): order-changing adaptors are fine
    core = occ_term
    for _ in range(6):
        m = re.match(r"^std::iter::Iterator::(collect|rev)\((.*)\)$", core)
        if not m:
            break
        core = m.group(2)
    if re.match(r"^std::iter::Iterator::(flat_map|filter_map)\((std::iter::Iterator::rev\()?core::slice::<impl \[T\]>::iter\(nodes\)\)?, closure<\{closure#\d+\}>\)$", core):
        oc = [v for v in cl.values() if v.path != mc.path and not v.caps]
        okc = False
        for v in oc:
            ob = fb.bodies[v.path]
            r1 = [p for p in Interp(fb, _P()).run(ob, [v, node]) if p.status == "return"]
            r2 = [p for p in Interp(fb, _P()).run(ob, [v, lit]) if p.status == "return"]
            if len(r1) == 1 and len(r2) == 1 and show(r1[0].result) == "Option::Some{0: idx}" and show(r2[0].result) == "Option::None":
                okc = True
        if okc:
            chk.ok("R15.3", "occurrence list = the variable indices of all nodes", "", loc(b["span"]))
        else:
            chk.violation("R15.3", "occurrences", "the occurrence list is not the list of the nodes' variable indices", loc(b["span"]))
    else:
        chk.violation("R15.3", "occurrences", "the occurrence list is not collected from the nodes in order: %s" % occ_term[:140], loc(b["span"]))


def _closures(v, out=None, depth=0):
    out = [] if out is None else out
    if depth > 30:
        return out
    if isinstance(v, Closure):
        out.append(v)
    elif isinstance(v, App):
        for a in v.args:
            _closures(a, out, depth + 1)
    return out
