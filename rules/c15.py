"""C15 — Consuming evaluation agrees with borrowing evaluation (structural clauses)."""
import re

from analysis import mir, order, loops
from analysis.facts import loc
from analysis.interp import Interp, Policy, Sym, Variant, Closure, App, Const, Unknown, show

LEVEL = "other"
TECHNIQUE = "DECIDE: decision table of the per-occurrence take-vs-clone step (a closure mapped over the nodes, or the general trip of a loop over the nodes) extracted by abstract interpretation (relation derived from the comparison), ORIGIN of the marked position and of the value read, scan predicate terms"
EXPLANATION = (
    "Decides the per-occurrence bookkeeping of consuming evaluation (eval_vec / eval_iter): (R15.1) for a variable node the value is "
    "CLONED exactly on the path where the number of not-yet-consumed occurrences of that variable is > 1, and MOVED OUT (mem::take) "
    "otherwise - so a variable that occurs once is moved, and a moved-out placeholder can only be read if the count were wrong; both "
    "paths read vars[idx] for the node's own index and pass it through the node's unary operator; (R15.2) on the clone path exactly one "
    "occurrence is marked consumed, and the marked position is a position the scan found (written by the scan closure, or the result of "
    "position/rposition with the same predicate), not some other index; the scan counts entries EQUAL to the node's variable index; "
    "(R15.3) the occurrence list holds the variable index of every variable node (only the multiset matters); literal nodes are cloned, "
    "never taken from the values. The per-node step is recognised as a closure mapped over the nodes or as the body of a loop over the "
    "nodes. The arity guard of the entry points is C04 R04.1. Not decided: equality of the results of the two evaluation styles as values."
)
TRUSTED = ["rustc MIR construction", "exporter faithfulness", "std iterator adaptors visit every element once, in order; position/rposition return an index whose element satisfies the predicate"]

NODE = "expression::flat::detail::FlatNode"
KIND = "expression::flat::detail::FlatNodeKind"


class _P(Policy):
    max_depth = 4

    def inline(self, fn, args, interp, path):
        return False


class _PH(_P):
    root = None

    def inline(self, fn, args, interp, path):
        # a private helper of the evaluator that works on the occurrence list (takes a `&mut [usize]`-like argument)
        cb = interp.callee_body(fn)
        if cb is None or not cb["path"].startswith("expression::flat::detail::") or cb["path"] == self.root or cb.get("public"):
            return False
        return any(re.match(r"^&mut (\[usize\]|smallvec::SmallVec<\[usize;|std::vec::Vec<usize)", cb["locals"][i]["ty"]) for i in range(1, cb["arg_count"] + 1))


class _PW(_PH):
    loop_mode = "widen"


class Step:
    """One evaluation of the per-node step on one path, in normalised vocabulary: vars, OCC, idx, u, n."""

    def __init__(self, kind, decs, value, cloned, marks, closures, span, other_writes=0):
        self.kind, self.decs, self.value, self.cloned, self.marks, self.closures, self.span = kind, decs, value, cloned, marks, closures, span
        self.other_writes = other_writes


def _closures(v, out=None, depth=0):
    out = [] if out is None else out
    if depth > 30:
        return out
    if isinstance(v, Closure):
        out.append(v)
    elif isinstance(v, App):
        for a in v.args:
            _closures(a, out, depth + 1)
    return out


# ---- the two recognised shapes of the per-node step -------------------------------------------------

def closure_form(chk, fb, b):
    """nodes.iter().map(|node| ..).collect(): the step is the closure that captures the values."""
    cl, _ = order.closures_created(fb, b, [Sym("vars"), Sym("nodes"), Sym("ops"), Sym("prio")])
    per_node = [v for v in cl.values() if any("vars" == show(x) for x in v.caps.values())]
    if len(per_node) != 1:
        return None
    mc = per_node[0]
    occ_name = [k for k, v in mc.caps.items() if show(v) != "vars"]
    if len(occ_name) != 1:
        chk.unrecognised("R15.1", "captures", "per-node closure should capture the values and the occurrence list", loc(b["span"]))
        return False
    occ_init = mc.caps[occ_name[0]]
    env = Closure(mc.path, {k: Sym("OCC" if k == occ_name[0] else "vars") for k in mc.caps})
    cb = fb.bodies[mc.path]
    steps = []
    for kind, node in (("Var", Variant(NODE, None, {"kind": Variant(KIND, "Var", {"0": Sym("idx")}), "unary_op": Sym("u")})),
                       ("Num", Variant(NODE, None, {"kind": Variant(KIND, "Num", {"0": Sym("n")}), "unary_op": Sym("u")}))):
        ps = Interp(fb, _PH()).run(cb, [env, node])
        if any(p.status not in ("return", "unreachable") for p in ps):
            chk.unrecognised("R15.1", "shape", "per-node closure: %s" % [(p.status, p.note) for p in ps if p.status not in ("return", "unreachable")][:3], loc(cb["span"]))
            return False
        for p in ps:
            if p.status != "return":
                continue
            decs = [(show(d[1]), d[2], d[1]) for d in p.decisions]
            cloned = any(e[0] == "call" and e[1] == "std::clone::Clone::clone" and show(e[2][0]) == "index(vars, idx)" for e in p.events)
            marks = []
            for e in p.events:
                if e[0] != "write_opaque":
                    continue
                tgt_ = show(e[1])
                # `occ[i] = MAX` through a reference handed to a helper: the target is the indexed element
                ix_ = [x for x in e[2] if x and x[0] == "i"]
                if len(ix_) == 1 and len(e) > 4 and ix_[0][1] in e[4]:
                    tgt_ = "std::ops::IndexMut::index_mut(%s, %s)" % (tgt_, show(e[4][ix_[0][1]]))
                marks.append((tgt_, show(e[3])))
            cls = [c for d in p.decisions for c in _closures(d[1])]
            steps.append(Step(kind, decs, show(p.result), cloned, marks, cls, cb["span"]))
    return steps, occ_init, cl, {}


def loop_form(chk, fb, b):
    """for node in nodes { ..; numbers.push(value) }: the step is the general trip of the loop over the nodes."""
    pol = _PW()
    pol.root = b["path"]
    allp = Interp(fb, pol).run(b, [Sym("vars"), Sym("nodes"), Sym("ops"), Sym("prio")])
    bad = [p for p in allp if p.status == "unrecognised"]
    if bad:
        chk.unrecognised("R15.1", "shape", "consuming evaluator: %s" % bad[0].note, loc(b["span"]))
        return False
    cl = {}
    for p in allp:
        for e in p.events:
            if e[0] == "closure":
                cl.setdefault(e[1].path, e[1])
    # the loops over the nodes: iterator local starts as an in-order iteration over `nodes`; the evaluating one pushes
    # `unary(..)` values (another one may build the occurrence list)
    cands = []
    for p in allp:
        for t in loops.trips(p, b["path"]):
            if t.general:
                continue
            for k, v in t.pre.items():
                if loops.seq_parts(v) == [("src", "nodes", "fwd")] and "enumerate" not in show(v) and not any(c[0] == t.header for c in cands):
                    cands.append((t.header, k, t))
    found = None
    for c in cands:
        for p in allp:
            for t in loops.trips(p, b["path"]):
                if t.header == c[0] and t.general and t.post is not None and any(e[0] == "call" and e[1].rsplit("::", 1)[-1] == "push" and len(e[2]) == 2 and "UnaryOp::<T>::apply(" in show(e[2][1]) for e in t.events):
                    found = found or c
    if not found and cands:
        found = cands[0]
    if not found:
        return None
    H, itl, first = found
    gen = []
    genp = {}
    for p in allp:
        for t in loops.trips(p, b["path"]):
            if t.header == H and t.general and t.post is not None:
                gen.append(t)
                genp[id(t)] = p
    if not gen:
        return None
    unk = {k: show(v) for k, v in gen[0].pre.items() if isinstance(v, Unknown)}
    if itl not in unk:
        return None
    item = ".0(as:Some(std::iter::Iterator::next(%s)))" % unk[itl]
    names = {}
    init = {}
    for k, s in unk.items():
        iv = first.pre.get(k)
        init[k] = iv
        names[s] = "vars" if iv is not None and show(iv) == "vars" else "L%d" % k
    subs = [(".0(as:Var(.kind(%s)))" % item, "idx"), (".0(as:Num(.kind(%s)))" % item, "n"), (".unary_op(%s)" % item, "u"), (item, "node")]

    rootname = b["path"].split("::")[-1]
    other_unknowns = {}

    def norm(s):
        for a, c in subs:
            s = s.replace(a, c)
        for a, c in sorted(names.items(), key=lambda x: -len(x[0])):
            s = s.replace(a, c)
        # state widened by an EARLIER loop of the function (a list built before the node loop and only changed through a
        # reference inside it): named by its local as well
        for m_ in re.finditer(r"⊤\(loop:%s:bb(\d+):_(\d+)\)" % re.escape(rootname), s):
            other_unknowns["L%s" % m_.group(2)] = "loop:%s:bb%s:_%s" % (rootname, m_.group(1), m_.group(2))
        s = re.sub(r"⊤\(loop:%s:bb\d+:_(\d+)\)" % re.escape(rootname), r"L\1", s)
        return s
    steps, seen = [], set()
    occ = None
    counted = False
    for t in gen:
        decs = [(norm(show(d[1])), d[2], d[1]) for d in t.decisions]
        extra_marks = {}
        # an inner counting loop (the scan of the occurrence list written as a loop, possibly in an inlined helper)
        inner = _inner_count(allp, genp[id(t)], t, norm)
        if inner is False:
            chk.unrecognised("R15.1", "shape", "loop over the nodes: an inner loop that is not a count of the entries equal to the node's index", loc(b["span"]))
            return False
        if inner is not None:
            counted = True
            decs = inner["decs"]
            extra_marks = inner["subst"]
        kind = next((l for s, l, _ in decs if s == "discr(.kind(node))"), None)
        if kind not in ("Var", "Num"):
            continue
        pushes = [e for e in t.events if e[0] == "call" and e[1].rsplit("::", 1)[-1] == "push" and len(e[2]) == 2 and isinstance(e[2][0], Unknown)]
        if len(pushes) != 1:
            chk.unrecognised("R15.1", "shape", "loop over the nodes: expected exactly one value pushed per node, found %d" % len(pushes), loc(b["span"]))
            return False
        value = norm(show(pushes[0][2][1]))
        cloned = any(e[0] == "call" and e[1] == "std::clone::Clone::clone" and norm(show(e[2][0])) == "index(vars, idx)" for e in t.events)
        marks = []
        for e in t.events:
            if e[0] != "write_opaque":
                continue
            tgt_ = norm(show(e[1]))
            # `occ[i] = MAX` through a reference: the target is the indexed element
            ix_ = [x for x in e[2] if x and x[0] == "i"]
            if len(ix_) == 1 and len(e) > 4 and ix_[0][1] in e[4]:
                tgt_ = "std::ops::IndexMut::index_mut(%s, %s)" % (tgt_, norm(show(e[4][ix_[0][1]])))
            marks.append((tgt_, norm(show(e[3]))))
        for a_, c_ in extra_marks.items():
            marks = [(m0.replace(a_, c_), m1) for m0, m1 in marks]
        cls = [c for d in t.decisions for c in _closures(d[1])]
        sig = (kind, tuple((s, str(l)) for s, l, _ in decs), value, cloned, tuple(marks))
        if sig in seen:
            continue
        seen.add(sig)
        steps.append(Step(kind, decs, value, cloned, marks, cls, b["span"]))
        for s, l, _ in decs:
            m = re.search(r"iter\((L\d+)\)", s)
            if m:
                occ = occ or m.group(1)
    if occ is None:
        chk.unrecognised("R15.1", "shape", "loop over the nodes: no scan of an occurrence list found", loc(b["span"]))
        return False
    k = int(occ[1:])
    for st in steps:
        st.decs = [(s.replace(occ, "OCC"), l, t) for s, l, t in st.decs]
        st.marks = [(a.replace(occ, "OCC"), c) for a, c in st.marks]
        st.value = st.value.replace(occ, "OCC")
    occ_init = init.get(k)
    if occ_init is None and occ in other_unknowns:
        occ_init = Unknown(other_unknowns[occ])
    occ_ok = _occ_from_loop(allp, b, occ_init) if isinstance(occ_init, Unknown) else None
    return steps, occ_init, cl, {"norm": norm, "pred_checked": counted, "occ_loop": occ_ok}


def _inner_count(allp, p, t, norm):
    """The scan of the occurrence list written as a counting loop inside the node step:
         for (i, v) in occ.iter().enumerate() { if *v == idx { n += 1; found = i } }
    Returns None (no inner loop), False (an inner loop of another kind) or
    {"decs": the step's decisions without the inner loop's own, with n spelled as count(filter(..)), "subst": {found: position term}}."""
    lo, hi = t.index, t.index + 1 + len(t.items)
    inner = [u for u in loops.all_trips(p) if (u.body_path, u.header) != (t.body_path, t.header) and lo < u.index < hi]
    if not inner:
        return None
    keys = {(u.body_path, u.header) for u in inner}
    if len(keys) != 1:
        return False
    bp, H2 = next(iter(keys))

    def next_dec(u):
        for j, (k, x) in enumerate(u.items):
            if k == "d" and isinstance(x[1], App) and x[1].fn == "discr" and isinstance(x[1].args[0], App) and x[1].args[0].fn == "std::iter::Iterator::next":
                return j, x
        return None
    n_key = f_key = None
    src = None
    srcs = []
    pred_ok = True
    FIRSTIDX = r"\.0\(as:Var\(\.kind\(\.0\(as:Some\(std::iter::Iterator::next\((?:std::iter::IntoIterator::into_iter|core::slice::<impl \[T\]>::iter)\(nodes\)\)\)\)\)\)\)"
    for q in allp:
        for u in loops.all_trips(q):
            if (u.body_path, u.header) != (bp, H2):
                continue
            nd = next_dec(u)
            if nd is None:
                if [1 for k, x in u.items if k == "d"]:
                    return False
                continue
            j, x = nd
            X = x[1].args[0].args[0]
            if not u.general:
                if not isinstance(X, Unknown):
                    srcs.append(X)
                continue
            if x[2] != "Some" or u.post is None:
                continue
            item = "(?:\\.1\\()?\\.0\\(as:Some\\(std::iter::Iterator::next\\(%s\\)\\)\\)\\)?" % re.escape(norm(show(X)))
            ds = [y for k, y in u.items[j + 1:] if k == "d"]
            if len(ds) != 1:
                return False
            cs_ = re.sub(FIRSTIDX, "idx", norm(show(ds[0][1])))
            if not (re.match(r"^(?:binop:Eq|std::cmp::PartialEq::eq)\(%s, idx\)$" % item, cs_) or re.match(r"^(?:binop:Eq|std::cmp::PartialEq::eq)\(idx, %s\)$" % item, cs_)):
                pred_ok = False
            changed = {L: v for L, v in u.pre.items() if isinstance(v, Unknown) and L in u.post and u.post[L].key() != v.key()}
            incs = [L for L, v in changed.items() if re.match(r"^binop:Add\(%s, (1_\w+|\w+:1)\)$" % re.escape(show(v)), show(u.post[L]))]
            poss = [L for L, v in changed.items() if re.match(r"^\.0\(\.0\(as:Some\(std::iter::Iterator::next\(", show(u.post[L]))]
            if ds[0][2] is True:
                if len(incs) != 1:
                    return False
                n_key = show(u.pre[incs[0]])
                wtxt = " ".join(show(e[1]) + " " + " ".join(show(v_) for v_ in (e[4].values() if len(e) > 4 else [])) for e in t.events if e[0] == "write_opaque")
                for L in poss:
                    if show(u.pre[L]) in wtxt:
                        f_key = show(u.pre[L])
            else:
                if incs:
                    return False
    def base_of(v_):
        while isinstance(v_, App) and len(v_.args) >= 1 and (len(v_.args) == 1 and v_.fn in (
                "std::iter::IntoIterator::into_iter", "std::iter::Iterator::enumerate", "core::slice::<impl [T]>::iter", "smallvec::SmallVec::<A>::iter", "deref", "std::ops::Deref::deref",
                "std::ops::DerefMut::deref_mut", "smallvec::SmallVec::<A>::as_mut_slice", "smallvec::SmallVec::<A>::as_slice") or
                (v_.fn in ("std::ops::IndexMut::index_mut", "std::ops::Index::index") and len(v_.args) == 2 and show(v_.args[1]).startswith("RangeFull"))):
            v_ = v_.args[0]
        return v_
    # the list as the general node step sees it (the first, not yet widened node step scans the freshly built list)
    for cand in srcs:
        if isinstance(base_of(cand), (Unknown, Sym)):
            src = cand
            break
    if src is None or n_key is None or not pred_ok:
        return False
    base_ = base_of(src)
    occ_term = norm(show(base_))
    enumerated = "Iterator::enumerate(" in show(src)
    count_s = "std::iter::Iterator::count(std::iter::Iterator::filter(%score::slice::<impl [T]>::iter(%s)%s, closure<{closure#0}>))" % (
        "std::iter::Iterator::enumerate(" if enumerated else "", occ_term, ")" if enumerated else "")
    pos_s = "std::iter::Iterator::rposition(core::slice::<impl [T]>::iter(%s), closure<{closure#0}>)" % occ_term
    first_i = min(u.index for u in inner)
    last = max(inner, key=lambda u: u.index)
    nd = next_dec(last)
    if nd is None or nd[1][2] != "None":
        return False        # the step is judged after the whole list has been scanned
    exit_global = last.index + 1 + nd[0]
    exited_at_first_arrival = not last.general and len(inner) == 1
    decs = []
    for j, (k, x) in enumerate(t.items):
        g = t.index + 1 + j
        if k != "d" or (first_i <= g <= exit_global):
            continue
        decs.append((norm(show(x[1])).replace(norm(n_key), count_s), x[2], None))
    if exited_at_first_arrival:
        decs.append(("discr(%s)" % pos_s, "None", None))       # nothing to scan: no occurrence left
    subst = {}
    if f_key is not None:
        subst[norm(f_key)] = ".0(as:Some(%s))" % pos_s
    return {"decs": decs, "subst": subst}


def _occ_from_loop(allp, b, unk):
    """The occurrence list built by `for node in nodes { if let Var(i) = node.kind { list.push(i) } }`: every completed trip of
    that loop pushes the node's variable index iff the node is a variable; the list starts empty; the nodes are visited in order."""
    lu = loops.loop_unknown(unk)
    if lu is None:
        return False
    fn, L, H = lu
    ok_var = ok_other = False
    for p in allp:
        for t in loops.trips(p, b["path"]):
            if t.header != H:
                continue
            if not t.general:
                init = t.pre.get(L)
                # (only the first arrival shows the initial value; later arrivals already carry the widened state)
                if init is not None and "⊤(loop:" not in show(init) and loops.seq_parts(init) != []:
                    return False
                continue
            if t.post is None or L not in t.pre or L not in t.post:
                continue
            it = [k for k, v in t.pre.items() if isinstance(v, Unknown) and any(show(d[1]) == "discr(std::iter::Iterator::next(%s))" % show(v) for d in t.decisions)]
            if len(it) != 1:
                return False
            item = ".0(as:Some(std::iter::Iterator::next(%s)))" % show(t.pre[it[0]])
            kind = next((d[2] for d in t.decisions if show(d[1]) == "discr(.kind(%s))" % item), None)
            post = show(t.post[L])
            if kind == "Var":
                if not re.match(r"^mut:.*::push\(%s, \.0\(as:Var\(\.kind\(%s\)\)\)\)$" % (re.escape(show(t.pre[L])), re.escape(item)), post):
                    return False
                ok_var = True
            else:
                if post != show(t.pre[L]):
                    return False
                ok_other = True
    return ok_var and ok_other


# ---- predicates ----------------------------------------------------------------------------------------

CL = r"closure<\{closure#\d+\}>"
ITER = r"(?:core::slice::<impl \[T\]>::iter|smallvec::SmallVec::<A>::iter|std::iter::IntoIterator::into_iter)\(OCC\)"
COUNT = r"std::iter::Iterator::count\(std::iter::Iterator::filter\((?:std::iter::Iterator::enumerate\()?%s\)?, %s\)\)" % (ITER, CL)
FINDMUT = r"std::iter::(?:DoubleEndedIterator::rfind|Iterator::find)\((?:core::slice::<impl \[T\]>::iter_mut|smallvec::SmallVec::<A>::iter_mut)\(OCC\), %s\)" % CL
POS = r"std::iter::(?:Iterator::position|Iterator::rposition|DoubleEndedIterator::rposition)\(%s, %s\)" % (ITER, CL)


def check_predicate(fb, c, norm):
    """(selects exactly the entries equal to idx, records the position of a match in a captured variable)"""
    sb = fb.bodies.get(c.path)
    if sb is None:
        return False, False
    env = {}
    for k, v in c.caps.items():
        s = show(v)
        s = norm(s) if norm else s
        env[k] = Sym("idx") if s == "idx" else Sym("cap_" + k)
    if not any(isinstance(v, Sym) and v.name == "idx" for v in env.values()):
        # closure form: the capture is named after the binding; accept the single non-mutable capture as the index
        if len(env) >= 1 and "idx" in c.caps:
            env["idx"] = Sym("idx")
        else:
            return False, False
    sps = Interp(fb, _P()).run(sb, [Closure(c.path, env), Sym("entry")])
    rets = [p for p in sps if p.status == "return"]
    E = r"(?:\.1\(entry\)|entry)"
    EQ = r"^(?:std::cmp::PartialEq::eq|binop:Eq)\((?:%s, idx|idx, %s)\)$" % (E, E)
    if len(rets) == 1 and len(sps) == 1 and not rets[0].decisions and re.match(EQ, show(rets[0].result)) and not [e for e in rets[0].events if e[0] == "write_opaque"]:
        return True, False      # the predicate is the comparison itself
    if len(rets) != 2 or any(p.status not in ("return", "unreachable") for p in sps):
        return False, False
    good, records = True, False
    for p in rets:
        dec = [(show(d[1]), d[2]) for d in p.decisions]
        eq = [l for s, l in dec if re.match(EQ, s)]
        writes = [e for e in p.events if e[0] == "write_opaque"]
        r = p.result
        if len(eq) != 1 or len(dec) != 1:
            good = False
        elif eq[0] is True:
            if not (isinstance(r, Const) and r.bits == 1):
                good = False
            if len(writes) == 1 and show(writes[0][3]) == ".0(entry)":
                records = True
            elif writes:
                good = False
        else:
            if not (isinstance(r, Const) and r.bits == 0 and not writes):
                good = False
    return good, records


def run(ctx):
    chk, fb = ctx.check, ctx.fb
    chk.rule("R15.1", "variable node: clone iff (#remaining occurrences > 1), else mem::take; both read vars[idx] of the node's own index")
    chk.rule("R15.2", "clone path marks exactly one occurrence, at a position the scan found; the scan matches entries equal to the node's index")
    chk.rule("R15.3", "occurrence list = variable index of every variable node (as a multiset); literal nodes clone their number")
    fn = fb.find_bodies(lambda b: b["kind"] == "Fn" and b["arg_count"] == 4 and b["locals"][1]["ty"].startswith("&mut [")
                        and "FlatNode<" in b["locals"][2]["ty"] and "FlatOp<" in b["locals"][3]["ty"])
    if len(fn) != 1:
        chk.violation("R15.1", "anchor", "consuming evaluator not found by role (fn(&mut [T], &[FlatNode], &[FlatOp], &[usize]))")
        return
    b = fn[0]
    got = closure_form(chk, fb, b)
    if got is None:
        got = loop_form(chk, fb, b)
    if got is None:
        chk.unrecognised("R15.1", "closure", "per-node step not found (neither a closure capturing the values mapped over the nodes nor a loop over the nodes pushing one value per node)", loc(b["span"]))
        return
    if got is False:
        return
    steps, occ_init, cl, extra = got
    norm = extra.get("norm")
    var_steps = [s for s in steps if s.kind == "Var"]
    lit_steps = [s for s in steps if s.kind == "Num"]
    if not var_steps or not lit_steps:
        chk.unrecognised("R15.1", "shape", "per-node step: no path for a %s node" % ("variable" if not var_steps else "literal"), loc(b["span"]))
        return
    n_clone = n_take = 0
    count_closures, pos_closures, mark_via = [], [], None
    for st in var_steps:
        clone = re.match(r"^operators::UnaryOp::<T>::apply\(u, index\(vars, idx\)\)$", st.value)       # Clone::clone is the identity on values
        take = re.match(r"^operators::UnaryOp::<T>::apply\(u, std::mem::take\(index\(vars, idx\)\)\)$", st.value)
        rel, none_found = None, False
        for s, l, t in st.decs:
            if s == "discr(.kind(node))" or re.match(r"^discr\(std::iter::Iterator::next\(L\d+\)\)$", s):
                continue
            m = re.match(r"^binop:(Gt|Ge|Lt|Le|Eq|Ne)\(%s, (\d+)_(?:usize|isize|[iu]32|[iu]64|[iu]128)\)$" % COUNT, s)
            mp = re.match(r"^discr\(%s\)$" % POS, s)
            if m:
                op, k = m.group(1), int(m.group(2))
                holds = {"Gt": ">", "Ge": ">=", "Lt": "<", "Le": "<=", "Eq": "==", "Ne": "!="}[op]
                if l is False:
                    holds = {">": "<=", ">=": "<", "<": ">=", "<=": ">", "==": "!=", "!=": "=="}[holds]
                rel = (holds, k)
                count_closures.extend(_closures(t))
            elif mp:
                pos_closures.extend(_closures(t))
                if l in ("None", "otherwise") and l != "Some":
                    none_found = True       # no entry satisfies the predicate: the count is 0
            elif re.match(r"^discr\(%s\)$" % FINDMUT, s):
                # `if let Some(e) = occ.iter_mut().rfind(pred) { *e = MAX }`: a search for an entry to strike out
                pos_closures.extend(_closures(t))
                if l != "Some":
                    none_found = True
            else:
                chk.unrecognised("R15.1", "cond", "take/clone decision depends on an unrecognised condition: %s" % s[:140], loc(st.span))
        if clone and st.cloned and none_found and rel in ((">", 1), (">=", 2)):
            # more than one entry satisfies the predicate, and a search with the same predicate (checked below: both are
            # `entry == idx`) finds none: not a path of the program
            continue
        if clone and st.cloned:
            n_clone += 1
            # count > 1  (equivalently >= 2)
            if rel in ((">", 1), (">=", 2)) and not none_found:
                chk.ok("R15.1", "clone path taken iff count > 1", "", loc(st.span))
            else:
                chk.violation("R15.1", "clone-condition", "a variable value is cloned under `count %s %s` instead of `count > 1`: an occurrence may read a moved-out placeholder, or a single occurrence is cloned" % (rel or ("?", "?")), loc(st.span))
            ok_mark = False
            if len(st.marks) == 1 and "usize>::MAX" in st.marks[0][1]:
                tgt = st.marks[0][0]
                if re.match(r"^std::ops::IndexMut::index_mut\(OCC, mut:std::iter::Iterator::filter\(", tgt):
                    ok_mark, mark_via = True, "scan"
                elif re.match(r"^std::ops::IndexMut::index_mut\(OCC, \.0\(as:Some\(%s\)\)\)$" % POS, tgt):
                    ok_mark, mark_via = True, "position"
                elif re.match(r"^\.0\(as:Some\(%s\)\)$" % FINDMUT, tgt):
                    ok_mark, mark_via = True, "position"     # the entry the search handed out (by mutable reference)
            if ok_mark:
                chk.ok("R15.2", "clone path marks the occurrence found by the scan", st.marks[0][0][:80], loc(st.span))
            else:
                chk.violation("R15.2", "mark", "the clone path does not mark exactly the occurrence found by the scan as consumed: %s" % [(a[:90], c[:30]) for a, c in st.marks], loc(st.span))
        elif take:
            n_take += 1
            if rel in (("<=", 1), ("<", 2)) or none_found:
                chk.ok("R15.1", "take path taken iff count <= 1", "", loc(st.span))
            else:
                chk.violation("R15.1", "take-condition", "a variable value is moved out under `count %s %s` instead of `count <= 1`" % (rel or ("?", "?")), loc(st.span))
            if st.marks:
                chk.violation("R15.2", "mark-on-take", "the take path modifies the occurrence list", loc(st.span))
        else:
            chk.violation("R15.1", "value", "a variable node evaluates to %s, expected the node's unary applied to vars[idx] (cloned or taken)" % st.value[:140], loc(st.span))
    if n_clone == 0 or n_take == 0:
        chk.unrecognised("R15.1", "shape", "per-node step: expected a clone path and a take path, got %d / %d" % (n_clone, n_take), loc(b["span"]))
        return
    # scan predicates: entry == idx; the one the mark relies on records / returns the matched position
    if not count_closures and extra.get("pred_checked"):
        # the scan is a counting loop: its predicate (entry == node's index) and its accumulators were checked with the loop
        if mark_via in ("position", None):
            chk.ok("R15.2", "scan (a counting loop) matches entries equal to the node's index and remembers the last match", "", loc(b["span"]))
        else:
            chk.violation("R15.2", "scan-predicate", "the marked position does not come from the counting loop", loc(b["span"]))
    elif not count_closures:
        chk.unrecognised("R15.2", "scan", "scan closure not found", loc(b["span"]))
    else:
        allc = {c.path: c for c in count_closures + pos_closures}
        good, recs = True, False
        for c in allc.values():
            g, r = check_predicate(fb, c, norm)
            good = good and g
            if c.path in {x.path for x in count_closures}:
                recs = recs or r
        if mark_via == "scan" and not recs:
            good = False
        if mark_via == "position" and not pos_closures:
            good = False
        sb = fb.bodies.get(count_closures[0].path)
        if good:
            chk.ok("R15.2", "scan matches entries equal to the node's index and records their position", "", loc(sb["span"]) if sb else None)
        else:
            chk.violation("R15.2", "scan-predicate", "the occurrence scan does not select exactly the entries equal to the node's variable index while recording the matched position", loc(sb["span"]) if sb else None)
    # ---- literal node
    if len(lit_steps) == 1 and lit_steps[0].value == "operators::UnaryOp::<T>::apply(u, n)" and not lit_steps[0].marks:
        chk.ok("R15.3", "literal node evaluates to its (cloned) number", "", loc(lit_steps[0].span))
    else:
        chk.violation("R15.3", "literal", "a literal node does not evaluate to its own number: %s" % [s.value[:80] for s in lit_steps], loc(b["span"]))
    # ---- occurrence list
    # only the MULTISET of variable indices matters (entries are counted and one equal entry is marked): order-changing adaptors are fine
    occ_term = show(occ_init) if occ_init is not None else "?"
    mh = re.match(r"^(expression::flat::detail::\w+)\(nodes\)$", occ_term)
    if mh and mh.group(1) in fb.bodies and not fb.bodies[mh.group(1)].get("public") and fb.bodies[mh.group(1)]["arg_count"] == 1:
        # the list is built by a private helper that is handed the nodes: read the helper
        hb = fb.bodies[mh.group(1)]
        hr = [p for p in Interp(fb, _P()).run(hb, [Sym("nodes")]) if p.status != "unreachable"]
        if len(hr) == 1 and hr[0].status == "return":
            occ_term = show(hr[0].result)
            cl = order.closures_created(fb, hb, [Sym("nodes")])[0]
    core = occ_term
    for _ in range(6):
        m = re.match(r"^std::iter::Iterator::(collect|rev)\((.*)\)$", core)
        if not m:
            break
        core = m.group(2)
    node = Variant(NODE, None, {"kind": Variant(KIND, "Var", {"0": Sym("idx")}), "unary_op": Sym("u")})
    lit = Variant(NODE, None, {"kind": Variant(KIND, "Num", {"0": Sym("n")}), "unary_op": Sym("u")})
    if extra.get("occ_loop"):
        chk.ok("R15.3", "occurrence list = the variable indices of all nodes (built by a loop over the nodes)", "", loc(b["span"]))
    elif re.match(r"^std::iter::Iterator::(flat_map|filter_map)\((std::iter::Iterator::rev\()?core::slice::<impl \[T\]>::iter\(nodes\)\)?, closure<\{closure#\d+\}>\)$", core):
        oc = [v for v in cl.values() if not v.caps]
        okc = False
        for v in oc:
            ob = fb.bodies[v.path]
            if ob["arg_count"] != 2:
                continue
            r1 = [p for p in Interp(fb, _P()).run(ob, [v, node]) if p.status == "return"]
            r2 = [p for p in Interp(fb, _P()).run(ob, [v, lit]) if p.status == "return"]
            if len(r1) == 1 and len(r2) == 1 and show(r1[0].result) == "Option::Some{0: idx}" and show(r2[0].result) == "Option::None":
                okc = True
        if okc:
            chk.ok("R15.3", "occurrence list = the variable indices of all nodes", "", loc(b["span"]))
        else:
            chk.violation("R15.3", "occurrences", "the occurrence list is not the list of the nodes' variable indices", loc(b["span"]))
    else:
        chk.violation("R15.3", "occurrences", "the occurrence list is not collected from the nodes in order: %s" % occ_term[:140], loc(b["span"]))

    moved_not_cloned(chk, fb, b)


def moved_not_cloned(chk, fb, b, RID="R15.4"):
    """R15.4: once the per-node step has produced the operand values (moved or cloned according to R15.1) the reduction engine
    must not clone them again: a value that occurs once would be cloned after all."""
    from analysis.callgraph import CallGraph
    chk.rule(RID, "the reduction engine behind the consuming evaluator (eval_numbers, eval_binary) never clones an operand value: operands are moved out of the number vector")
    cg = CallGraph(fb)
    red = [p for p in fb.bodies if p == "expression::eval_binary" or p.endswith("::eval_binary")]
    if len(red) != 1:
        chk.violation(RID, "anchor", "eval_binary not found")
        return
    red = red[0]
    # functions on a call chain consuming evaluator -> .. -> eval_binary
    reach_red = set()
    for p in fb.bodies:
        if "{closure" in p:
            continue
        if p == red or red in cg.reachable([p]):
            reach_red.add(p)
    engine = {p for p in cg.reachable([b["path"]]) if p in reach_red and p != b["path"]}
    engine.add(red)
    n = 0
    for p in sorted(engine):
        bd = fb.bodies.get(p)
        if bd is None:
            continue
        gen = {g for g in ("T",)}
        for bi, t in mir.calls(bd):
            cp = mir.callee_path(t) or ""
            if not cp.endswith("Clone::clone") or not t["args"]:
                continue
            ty = (t["args"][0].get("place") or {}).get("ty") or t["args"][0].get("ty") or ""
            if ty.strip() in ("&T", "&mut T"):
                chk.violation(RID, "clone:%s" % p, "%s clones an operand value (%s): a variable that occurs once is cloned after all instead of being moved through the reduction" % (p, ty), loc(t["span"]))
        takes = sum(1 for bi, t in mir.calls(bd) if (mir.callee_path(t) or "").endswith(("mem::take", "mem::replace", "mem::swap")))
        n += takes
    chk.floor(RID, "operands moved out (mem::take / replace / swap) in the reduction engine", n, 2)
    chk.ok(RID, "no operand clone in the reduction engine", ", ".join(sorted(engine)), loc(fb.bodies[red]["span"]))
