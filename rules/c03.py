"""C03 — Flat and deep expression forms are interchangeable (structural clauses)."""
import re

from analysis import mir, dom, typestate
from analysis.facts import loc

LEVEL = "other"
TECHNIQUE = "TYPESTATE on the returned operator listings (sort in natural order, then dedup, nothing after); ORIGIN of the variable list through both conversions; CONST relation for the deep-to-flat nesting step"
EXPLANATION = (
    "Decides: (R03.1) each of binary_reprs / unary_reprs / operator_reprs of both expression forms returns a vector on which a "
    "natural-order sort followed by dedup are the last two mutating events on every path - necessary for 'sorted, duplicate-free "
    "operator listings' (dedup before sort, or no sort, has counterexamples such as x+y*z+w*v); (R03.2) both conversions carry the "
    "variable list over verbatim: from_deepex stores an element-wise copy of the deep expression's list, to_deepex passes the flat "
    "list to the converter, which installs exactly that list on the expression it returns; (R03.3) flattening a deep expression "
    "raises priorities by a constant >= 100 per nesting level (priorities range over 0..=99). "
    "Not decided: value agreement of the two builders and the two converters (four independent algorithms over all programs)."
)
TRUSTED = ["rustc MIR construction", "exporter faithfulness", "std: sort_unstable/sort order by Ord; dedup removes consecutive duplicates"]

LISTINGS = ("binary_reprs", "unary_reprs", "operator_reprs")


def run(ctx):
    chk, fb = ctx.check, ctx.fb
    chk.rule("R03.1", "operator listings: returned vector is sort(natural) -> dedup -> return, no other mutation after the sort")
    chk.rule("R03.2", "from_deepex / to_deepex copy the variable list verbatim")
    chk.rule("R03.4", "flat -> deep restores each operator's ORIGINAL priority from the operator table (flat priorities are depth-scaled)")
    chk.rule("R03.3", "deep -> flat nesting step is a constant >= 100")
    fns = fb.find_bodies(lambda b: b["kind"] == "AssocFn" and b.get("name") in LISTINGS and (b.get("impl_trait_path") or "").endswith("expression::Express"))
    n = 0
    for b in fns:
        org = dom.Origins(b)
        short = "%s::%s" % ("FlatEx" if "FlatEx" in (b.get("impl_self_ty") or "") else "DeepEx", b["name"])
        rets = []
        for bi, si, st in mir.iter_stmts(b, mir.normal_blocks(b)):
            if st["k"] == "assign" and st["place"]["local"] == 0 and not st["place"]["proj"]:
                rets.append((bi, org.rv_term(st["rv"]), st["span"]))
        if len(rets) != 1 or not re.match(r"^var:\S+$", rets[0][1]):
            chk.unrecognised("R03.1", "ret:%s" % short, "listing does not return a single local vector: %s" % [r[1][:60] for r in rets], loc(b["span"]))
            continue
        n += 1
        rb, me, rspan = rets[0]
        events = []
        for bi, t in mir.calls(b):
            if not t["args"]:
                continue
            a0 = org.op_term(t["args"][0])
            a0 = re.sub(r"^std::ops::DerefMut::deref_mut\((.*)\)$", r"\1", a0)
            if a0 != me:
                continue
            nm = t["func"].get("name")
            cp = mir.callee_path(t) or ""
            if nm in ("deref_mut", "deref", "len", "is_empty", "iter", "as_slice"):
                continue
            events.append((bi, nm, cp, t))
        dom_ = mir.dominators(b)
        sorts = [e for e in events if e[1] in ("sort", "sort_unstable") and re.search(r"slice::<impl \[T\]>::sort(_unstable)?$", e[2])]
        dedups = [e for e in events if e[1] == "dedup"]
        bad = None
        if not sorts:
            bad = "the listing is never sorted in natural order"
        elif not dedups:
            bad = "the listing is never de-duplicated"
        else:
            s, d = sorts[-1], dedups[-1]
            if not (s[0] in dom_.get(d[0], ()) and d[0] in dom_.get(rb, ())):
                bad = "sort / dedup do not dominate the return in that order"
            elif s[0] == d[0]:
                bad = "sort and dedup in one block (unexpected)"
            else:
                after_sort = mir.reach_from(b, s[0]) - {s[0]}
                for e in events:
                    if e is d or e is s:
                        continue
                    if e[0] in after_sort:
                        bad = "the listing is modified by %s after it was sorted" % e[1]
                if d[0] not in after_sort:
                    bad = "dedup happens before the sort: non-adjacent duplicates survive"
        if bad:
            chk.violation("R03.1", "listing:%s" % short, "%s: %s" % (short, bad), loc(rspan))
        else:
            chk.ok("R03.1", "listing:%s" % short, "sort -> dedup -> return", loc(rspan))
            chk.sample({"listing": b["path"], "events": [e[1] for e in events]})
    chk.floor("R03.1", "listing functions", n, 6)

    # ---- R03.2
    fd = fb.find_bodies(lambda b: b["kind"] == "AssocFn" and b.get("name") == "from_deepex" and "FlatEx<" in (b.get("impl_self_ty") or ""))
    if len(fd) != 1:
        chk.violation("R03.2", "anchor:from_deepex", "FlatEx::from_deepex not found")
    else:
        b = fd[0]
        org = dom.Origins(b)
        ctor = [t for _, t in mir.calls(b) if (mir.callee_path(t) or "").endswith("FlatEx::<T, OF, LMF>::new")]
        agg = [st for _, _, st in mir.iter_stmts(b, mir.normal_blocks(b)) if st["k"] == "assign" and st["rv"]["k"] == "aggregate" and (st["rv"].get("adt") or "").endswith("flat::FlatEx")]
        term = None
        if len(ctor) == 1:
            # the SmallVec<[String; _]> argument
            newb = fb.bodies.get(mir.callee_path(ctor[0]))
            idx = None
            if newb:
                for i in range(1, newb["arg_count"] + 1):
                    if newb["locals"][i].get("name") == "var_names":
                        idx = i - 1
            if idx is not None:
                term = org.op_term(ctor[0]["args"][idx])
        elif len(agg) == 1:
            term = org.op_term(agg[0]["rv"]["ops"][agg[0]["rv"]["fields"].index("var_names")])
        eng = typestate.SortedNames(fb)
        if term is None:
            chk.unrecognised("R03.2", "from_deepex", "cannot find the variable list handed to the flat constructor", loc(b["span"]))
        else:
            r = eng.classify(b, term)
            same = re.search(r"expression::Express::var_names\(param:deepex\)|param:deepex\.var_names", term)
            if r.ok and r.kind == "COPY" and same:
                chk.ok("R03.2", "from_deepex copies the deep expression's variable list", term[:100], loc(b["span"]))
            else:
                chk.violation("R03.2", "from_deepex", "from_deepex does not store an element-wise copy of the converted expression's variable list: %s (%s)" % (term[:120], r.why), loc(b["span"]))
    td = fb.find_bodies(lambda b: b["kind"] == "AssocFn" and b.get("name") == "to_deepex" and "FlatEx<" in (b.get("impl_self_ty") or ""))
    conv = fb.find_bodies(lambda b: b["kind"] == "Fn" and b["path"].endswith("flat::detail::flatex_to_deepex"))
    if len(td) != 1 or len(conv) != 1:
        chk.violation("R03.2", "anchor:to_deepex", "FlatEx::to_deepex / flatex_to_deepex not found")
    else:
        b, c = td[0], conv[0]
        org = dom.Origins(b)
        calls = [t for _, t in mir.calls(b) if mir.callee_path(t) == c["path"]]
        vidx = None
        for i in range(1, c["arg_count"] + 1):
            if "String" in c["locals"][i]["ty"]:
                vidx = i
        if len(calls) == 1 and vidx is not None and org.op_term(calls[0]["args"][vidx - 1]) == "param:self.var_names":
            chk.ok("R03.2", "to_deepex hands its own variable list to the converter", "", loc(b["span"]))
        else:
            chk.violation("R03.2", "to_deepex", "to_deepex does not pass the flat expression's variable list to the converter", loc(b["span"]))
        corg = dom.Origins(c)
        pname = corg.name(vidx) if vidx else None
        rv = [t for _, t in mir.calls(c) if (mir.callee_path(t) or "").endswith("::reset_vars")]
        rets = [corg.rv_term(st["rv"]) for _, _, st in mir.iter_stmts(c, mir.normal_blocks(c))
                if st["k"] == "assign" and st["place"]["local"] == 0 and not st["place"]["proj"] and st["rv"]["k"] == "aggregate" and st["rv"].get("variant") == "Ok"]
        good = False
        for t in rv:
            recv = corg.op_term(t["args"][0])
            lst = corg.op_term(t["args"][1])
            if re.match(r"^(std::clone::Clone::clone\()?param:%s\)?$" % re.escape(pname or "?"), lst) and any(recv in r for r in rets):
                good = True
        # ... and on EVERY path that returns an expression
        if good:
            from analysis.interp import Interp, Policy, Sym, App, Variant, show as _show

            class PC(Policy):
                loop_mode = "widen"
                max_depth = 3
                try_mode = "ok_only"

                def inline(self, fn, args, interp, path):
                    return False

                def inline_closure(self, cp, args, interp, path):
                    return False
            cnames = [c["locals"][i].get("name") or "a%d" % i for i in range(1, c["arg_count"] + 1)]
            for p in Interp(fb, PC()).run(c, [Sym(n) for n in cnames]):
                if p.status != "return" or not (isinstance(p.result, Variant) and p.result.variant == "Ok"):
                    continue
                v = p.result.fields.get("0")
                inst = False
                for _ in range(12):
                    if not (isinstance(v, App) and v.fn.startswith("mut:") and v.args):
                        break
                    if v.fn.endswith("::reset_vars") and len(v.args) == 2 and _show(v.args[1]) in (pname, "std::clone::Clone::clone(%s)" % pname):
                        inst = True
                        break
                    v = v.args[0]
                if not inst:
                    good = False
                    chk.violation("R03.2", "converter-path", "flatex_to_deepex has a path that returns an expression without installing the passed variable list on it (variables that do not occur in a node are lost): %s" % _show(p.result)[:140], loc(c["span"]))
                    break
            if not good:
                pass
        if good:
            chk.ok("R03.2", "converter installs exactly the passed list on the returned expression", "", loc(c["span"]))
        elif not any(o["rule"] == "R03.2" and o["name"] == "converter-path" for o in chk.obligations):
            chk.violation("R03.2", "converter", "flatex_to_deepex does not install the passed variable list on the expression it returns", loc(c["span"]))

    # ---- R03.4 original priorities
    if len(conv) == 1:
        c = conv[0]
        corg = dom.Origins(c)
        nb = 0
        for bi, si, st in mir.iter_stmts(c, mir.normal_blocks(c)):
            if st["k"] == "assign" and st["rv"]["k"] == "aggregate" and (st["rv"].get("adt") or "").endswith("operators::BinOp") and "prio" in st["rv"]["fields"]:
                nb += 1
                term = corg.expand(corg.op_term(st["rv"]["ops"][st["rv"]["fields"].index("prio")]))
                flatp = None
                for i in range(1, c["arg_count"] + 1):
                    if "FlatOp<" in c["locals"][i]["ty"]:
                        flatp = "param:%s" % corg.name(i)
                from_table = "expression::flat::detail::collect_reprs(" in term or "operators::MakeOperators::make()" in term
                # the mapping closure must read the table entry's own priority
                reads_prio = False
                for cp in fb.closures_of(c["path"]):
                    if cp.split("::")[-1] + "{" in term or cp in term:
                        cb = fb.bodies[cp]
                        if any((mir.callee_path(tt) or "").endswith("Operator::<'a, T>::bin") for _, tt in mir.calls(cb)):
                            reads_prio = True
                if from_table and reads_prio:
                    chk.ok("R03.4", "priority restored from the operator table", term[:100], loc(st["span"]))
                elif flatp and flatp in term:
                    chk.violation("R03.4", "prio-from-flat", "the deep expression's operator priority is derived from the flat (depth-scaled) priority instead of the operator table: %s" % term[:160], loc(st["span"]))
                else:
                    chk.unrecognised("R03.4", "prio-origin", "origin of the restored priority not recognised: %s" % term[:160], loc(st["span"]))
        chk.floor("R03.4", "rebuilt operators", nb, 1)

    # ---- R03.3
    fv = fb.find_bodies(lambda b: b["kind"] == "Fn" and b["path"].endswith("flat::flatten_vecs"))
    if len(fv) != 1:
        chk.violation("R03.3", "anchor", "flatten_vecs not found")
    else:
        b = fv[0]
        org = dom.Origins(b)
        steps = []
        for _, t in mir.calls(b):
            if mir.callee_path(t) == b["path"]:
                steps.append((org.op_term(t["args"][1]), t["span"]))
        if not steps:
            chk.unrecognised("R03.3", "no-recursion", "flatten_vecs does not recurse into nested expressions", loc(b["span"]))
        for term, span in steps:
            m = re.match(r"^Add\(param:(\w+), (-?\d+)_i64\)$", term) or re.match(r"^Add\((-?\d+)_i64, param:(\w+)\)$", term)
            k = None
            if m:
                k = int([g for g in m.groups() if re.match(r"^-?\d+$", g)][0])
            if k is None:
                chk.unrecognised("R03.3", "step", "nesting offset is not `offset + constant`: %s" % term, loc(span))
            elif k >= 100:
                chk.ok("R03.3", "deep->flat nesting step %d" % k, term, loc(span))
                chk.sample({"flatten_step": k})
            else:
                chk.violation("R03.3", "too-small", "deep->flat nesting step %d < 100: an operator of an inner group can lose against an outer one with priority up to 99" % k, loc(span))

    unary_kept(chk, fb)
    converter_step(chk, fb)
    outer_unary_placement(chk, fb)


def unary_kept(chk, fb, RID="R03.5"):
    """R03.5: flat -> deep, per node.  A flat node carries its own unary composition (a literal's is applied when the
    expression is compiled, but expressions built by operate_unary / differentiation / substitution are not compiled
    again).  The converter may hand back the bare node only on a path where that composition is known to be empty;
    otherwise the node has to be wrapped into an expression carrying exactly that composition."""
    from analysis import rel
    from analysis.interp import Interp, Policy, Sym, Variant, show
    chk.rule(RID, "flat -> deep: a node is returned bare only if its unary composition is empty, otherwise wrapped with exactly that composition - for every node kind")
    cb = fb.find_bodies(lambda b: b["path"].endswith("flat::detail::convert_node"))
    if len(cb) != 1:
        chk.violation(RID, "anchor", "flat::detail::convert_node not found")
        return
    b = cb[0]

    class P(Policy):
        loop_mode = "widen"
        max_depth = 3

        def inline_closure(self, closure_path, args, interp, path):
            return False
    names = [b["locals"][i].get("name") or "a%d" % i for i in range(1, b["arg_count"] + 1)]
    node = next((n for i, n in enumerate(names, 1) if "FlatNode<" in b["locals"][i]["ty"]), None)
    if node is None:
        chk.unrecognised(RID, "shape", "convert_node has no FlatNode parameter", loc(b["span"]))
        return
    UOP = ".unary_op(%s)" % node
    allp = Interp(fb, P()).run(b, [Sym(n) for n in names])
    kinds = set()
    n = 0
    for p in allp:
        if p.status in ("unreachable", "loop-pruned"):
            continue
        if p.status != "return":
            if p.status == "unrecognised":
                chk.unrecognised(RID, "shape", "convert_node: %s" % p.note, loc(b["span"]))
            continue
        n += 1
        r = p.result
        kind = next((x[2] for k, x in p.trace if k == "d" and x[0] == "switch" and show(x[1]) == "discr(.kind(%s))" % node), "?")
        kinds.add(kind)
        txt = show(r)
        if isinstance(r, Variant) and (r.variant or "").endswith("Expr"):
            if "op: %s" % UOP in txt or "op: std::clone::Clone::clone(%s)" % UOP in txt:
                chk.ok(RID, "%s node wrapped with its own composition" % kind, txt[:120], loc(b["span"]))
            else:
                chk.violation(RID, "wrapped:%s" % kind, "convert_node wraps a %s node into an expression whose unary composition is not the node's own: %s" % (kind, txt[:200]), loc(b["span"]))
            continue
        F = rel.Facts(p)
        empty = False
        for a, op, c in F.rel:
            sa, sc = show(a), show(c)
            if UOP in sa and "len(" in sa and ((op == "<=" and sc.startswith("0_")) or (op == "==" and sc.startswith("0_"))):
                empty = True
            if UOP in sc and "len(" in sc and op == "==" and sa.startswith("0_"):
                empty = True
        for t, v in F.true:
            if v and UOP in show(t) and "is_empty(" in show(t):
                empty = True
        if empty:
            chk.ok(RID, "%s node returned bare under `composition is empty`" % kind, "", loc(b["span"]))
        else:
            chk.violation(RID, "bare:%s" % kind, "convert_node returns a %s node without its unary operators on a path that does not establish that the node's unary composition is empty: converting a flat expression whose %s node carries unary operators (operate_unary, derivatives, substitution results are not compiled again) changes its value" % (
                kind, kind), loc(b["span"]))
    chk.floor(RID, "node kinds converted", len(kinds - {"?"}), 2)


def converter_step(chk, fb, RID="R03.6"):
    """R03.6: flat -> deep, per operator.  Every step of the converter's reduction loop (the loop that asks the number tracker for
    its two operands) wraps the two operand nodes into DeepEx::new(.., the operator, the operator's OWN unary composition taken
    from the flat operator) and stores that expression at the left operand's place.  A step that combines or stores anything
    else (folding two literals on the spot, say) loses the unary composition the flat operator carries for its group."""
    from analysis import rel, loops
    from analysis.interp import Interp, Policy, Sym, show
    chk.rule(RID, "flat -> deep: every reduction step builds DeepEx::new([left, right], operator, the flat operator's own unary composition) and stores it at the left operand")
    cb = fb.find_bodies(lambda b: b["path"].endswith("flat::detail::flatex_to_deepex"))
    if len(cb) != 1:
        chk.violation(RID, "anchor", "flat::detail::flatex_to_deepex not found")
        return
    b = cb[0]

    class P(Policy):
        loop_mode = "widen"
        max_depth = 3
        try_mode = "ok_only"

        def inline(self, fn, args, interp, path):
            return False

        def inline_closure(self, cp, args, interp, path):
            return False
    names = [b["locals"][i].get("name") or "a%d" % i for i in range(1, b["arg_count"] + 1)]
    allp = Interp(fb, P()).run(b, [Sym(n) for n in names])
    if any(p.status == "unrecognised" for p in allp):
        chk.unrecognised(RID, "shape", "flatex_to_deepex: %s" % next(p.note for p in allp if p.status == "unrecognised"), loc(b["span"]))
        return
    n = 0
    seen = set()
    for p in allp:
        for t in loops.trips(p, b["path"], 0):
            if not t.general or t.post is None:
                continue
            calls = [e for e in t.events if e[0] == "call"]
            if not any(e[1].endswith("NumberTracker::get_previous") for e in calls):
                continue
            sig = tuple((rel.cstr(d[1])[:100], str(d[2])) for d in t.decisions)
            if sig in seen:
                continue
            seen.add(sig)
            n += 1
            news = [e for e in calls if re.search(r"deep::DeepEx::<.*>::new$", e[1]) and len(e[2]) == 3]
            takes = [rel.cstr(e[2][0]) for e in calls if e[1] == "std::mem::take" and e[2]]
            own = [x for x in takes if re.match(r"^\.unary_op\(std::ops::IndexMut::index_mut\(", x) and "Iterator::next(" in x]
            good_new = len(news) == 1 and len(own) == 1 and ("op: std::mem::take(%s)" % own[0]) in rel.cstr(news[0][2][2])
            stores = [e for e in t.events if e[0] == "write_opaque" and rel.cstr(e[3]).startswith("DeepNode::")]
            good_store = len(stores) == 1 and re.match(r"^DeepNode::Expr\{0: (ok\()?expression::deep::DeepEx::<.*?>::new\(", rel.cstr(stores[0][3])) is not None
            if not good_new:
                chk.violation(RID, "step-unary", "a reduction step of the flat -> deep converter does not build exactly one DeepEx::new(.., the operator's own unary composition): %d new / unary taken from %s" % (len(news), own or takes[:2]), loc(b["span"]))
            elif not good_store:
                chk.violation(RID, "step-store", "a reduction step of the flat -> deep converter stores %s instead of the expression it built" % [rel.cstr(e[3])[:80] for e in stores][:2], loc(b["span"]))
            else:
                chk.ok(RID, "reduction step %d" % n, "", loc(b["span"]))
    chk.floor(RID, "reduction steps (general trips) analysed", n, 1)


def outer_unary_placement(chk, fb, RID="R03.7"):
    """R03.7: deep -> flat.  The unary composition of a (sub-)expression is applied AFTER everything inside it: in flatten_vecs it is
    appended-after onto the unary composition of the flat node / of the operator applied last - receiver = the flat element's
    own composition, argument = the deep expression's.  The other way round applies the inner operators last."""
    chk.rule(RID, "deep -> flat: the expression's own unary composition is composed onto the flat element's (`flat.unary_op.append_after(deep.unary_op)`), never the other way round")
    fv = fb.find_bodies(lambda b: b["kind"] == "Fn" and b["path"].endswith("flat::flatten_vecs"))
    if len(fv) != 1:
        chk.violation(RID, "anchor", "flat::flatten_vecs not found")
        return
    b = fv[0]
    org = dom.Origins(b)
    dparam = None
    for i in range(1, b["arg_count"] + 1):
        if "deep::DeepEx<" in b["locals"][i]["ty"]:
            dparam = org.name(i)
    n = 0
    for bi, t in mir.calls(b):
        cp = mir.callee_path(t) or ""
        if not (cp.endswith("UnaryOp::<T>::append_after") or cp.endswith("UnaryOp::<T>::append_after_iter")) or len(t["args"]) != 2:
            continue
        n += 1
        recv, other = (org.expand_named(org.op_term(a)) for a in t["args"])
        own = r"::unary_op\(param:%s\)" % re.escape(dparam or "?")
        if re.search(own, other) and not re.search(own, recv):
            chk.ok(RID, "outer unary composed onto the flat element (call %d)" % n, recv[-60:], loc(t["span"]))
        else:
            chk.violation(RID, "placement", "flatten_vecs composes %s after %s: the unary operators of the expression itself have to be appended after those of its flat node / last operator" % (
                other[:80], recv[:80]), loc(t["span"]))
    chk.floor(RID, "compositions of the outer unary operator in flatten_vecs", n, 1)
