"""C16 — Value-typed arithmetic follows the documented typing and error rules.

DECIDE over variant tags: every operator function of ValOpsFactory::make is interpreted
abstractly for every combination of operand *kinds* (Array, Int, Float, Bool, Error, None);
value-dependent tests fork.  The set of possible result kinds must lie inside the documented
typing / error-propagation table.  Exhaustive over the abstract domain, hence a statement
about all operand values.
"""
import json
import os

from analysis import tables, panics, guards
from analysis.facts import loc
from analysis.interp import Interp, Policy, Sym, Variant, Closure, Const, App, show
from rules import c17

LEVEL = "other"
TECHNIQUE = "abstract interpretation of every Val operator over the finite domain of operand kinds (variant tags), compared with a documented kind table; identity-flow check for if/else; unchecked-integer-arithmetic scan; commutative-flag whitelist"
EXPLANATION = (
    "Decides the kind/propagation clauses of C16 for ALL operand values: for each of the binary operators x 36 kind pairs "
    "and each unary operator x 6 kinds the abstract interpreter enumerates every path of the operator function (crate-local "
    "callees inlined, value-dependent branches forked) and the set of result kinds must be inside the documented table "
    "(int op int stays int or error; int meets float -> float for + - * / min max; comparisons -> bool for every pair; "
    "an error operand yields error for arithmetic, bitwise, power, vector and unary operators; casts). `if`/`else` are "
    "checked by identity of the returned operand. 'Never wrapped' is decided as: no unchecked integer operation on the "
    "integer parameter (shared with C17). The commutative flag may only sit on associative-commutative operators. "
    "Not decided: numeric values, float promotion arithmetic, comparison outcomes across kinds."
)
TRUSTED = ["rustc MIR construction", "exporter faithfulness", "num-traits checked_* return None exactly on overflow",
           "spec: kind table written from Val / ValOpsFactory documentation and the property text"]

TAGS = ["Array", "Int", "Float", "Bool", "Error", "None"]
VAL = "value::Val"

ARITH = {"+", "-", "*", "/", "min", "max"}
INTONLY = {"%", "|", "&", "XOR", "<<", ">>"}
CMP = {"==", "!=", "<", ">", "<=", ">="}
VEC = {"dot", "cross", "."}
LOGIC = {"&&", "||"}
FLOAT_UNARY = {"sin", "cos", "tan", "asin", "acos", "atan", "sinh", "cosh", "tanh", "asinh", "acosh", "atanh", "floor", "ceil",
               "trunc", "fract", "exp", "sqrt", "cbrt", "round", "ln", "log10", "log2", "log"}
INT_UNARY = {"swap_bytes", "to_le", "to_be"}
# operators flagged commutative must be associative-commutative (or regrouping must be unobservable)
AC_WHITELIST = {
    "+": "addition", "*": "multiplication", "|": "bitwise or", "&": "bitwise and", "XOR": "bitwise xor",
    "&&": "boolean and (documented for booleans)", "||": "boolean or (documented for booleans)",
    "dot": "commutative; every chain `a dot b dot c` is ill-typed (Float dot Array = Error) under every grouping, so regrouping is unobservable",
}


def expected_binary(op, ta, tb):
    """Allowed result kinds, or None when the documentation does not constrain the case."""
    err = "Error" in (ta, tb)
    if op in CMP:
        return {"Bool"}
    if op in ("if", "else"):
        return None
    if op in LOGIC:
        return {"Bool"} if (ta, tb) == ("Bool", "Bool") else None
    if err:
        return {"Error"}
    num = {"Int", "Float"}
    if op in ARITH:
        if (ta, tb) == ("Int", "Int"):
            return {"Int", "Error"}
        if ta in num and tb in num:
            return {"Float", "Error"} if (op == "/" and tb == "Int") else {"Float"}
        if ta in num | {"Array"} and tb in num | {"Array"}:
            return {"Array", "Error"} if (op == "/" and tb == "Int") else {"Array"}
        return {"Error"}
    if op in INTONLY:
        return {"Int", "Error"} if (ta, tb) == ("Int", "Int") else {"Error"}
    if op == "^":
        if (ta, tb) == ("Int", "Int"):
            return {"Int", "Error"}
        if (ta, tb) == ("Float", "Float"):
            return {"Float"}
        if (ta, tb) == ("Float", "Int"):
            return {"Float", "Error"}
        return {"Error"}
    if op == "dot":
        return {"Float", "Error"} if (ta, tb) == ("Array", "Array") else {"Error"}
    if op == "cross":
        return {"Array", "Error"} if (ta, tb) == ("Array", "Array") else {"Error"}
    if op == ".":
        return {"Float", "Error"} if (ta, tb) == ("Array", "Int") else {"Error"}
    if op == "atan2":
        sc = {"Int", "Float", "Bool"}
        return {"Float"} if ta in sc and tb in sc else {"Error"}
    return None


def required_binary(op, ta, tb):
    """Kinds that MUST be among the possible results (an over-approximation that does not even contain
    the error kind means the documented error can never be reported)."""
    if (ta, tb) == ("Int", "Int") and op in ("+", "-", "*", "/", "%", "^", "<<", ">>"):
        return {"Int", "Error"}
    if (ta, tb) == ("Float", "Int") and op == "^":
        return {"Float", "Error"}
    return set()


def required_unary(op, t):
    if t == "Int" and op in ("fact", "abs", "-"):
        return {"Int", "Error"}
    if t == "Float" and op == "to_int":
        return {"Int", "Error"}
    return set()


def expected_unary(op, t):
    if t == "Error":
        return {"Error"}
    if op in FLOAT_UNARY:
        return {"Float"} if t == "Float" else {"Error"}
    if op in INT_UNARY:
        return {"Int"} if t == "Int" else {"Error"}
    if op == "abs":
        return {"Float"} if t == "Float" else ({"Int", "Error"} if t == "Int" else {"Error"})
    if op == "signum":
        return {"Float"} if t == "Float" else ({"Int"} if t == "Int" else {"Error"})
    if op == "fact":
        return {"Int", "Error"} if t == "Int" else {"Error"}
    if op == "-":
        return {"Int": {"Int", "Error"}, "Float": {"Float"}, "Array": {"Array"}}.get(t, {"Error"})
    if op == "+":
        return {t}
    if op == "to_int":
        return {"Int": {"Int"}, "Bool": {"Int"}, "Float": {"Int", "Error"}}.get(t, {"Error"})
    if op == "to_float":
        return {"Float"} if t in ("Int", "Float", "Bool") else {"Error"}
    if op == "length":
        return {"Float", "Error"} if t == "Array" else {"Error"}
    return None


def float_params(fb, body):
    b = fb.bodies.get(body.get("root"), body) if body["kind"] == "Closure" else body
    return {p.split(":")[0].strip() for p in b.get("predicates", []) if ": num::Float" in p}


class _Inline(Policy):
    max_depth = 6
    max_paths = 3000
    loop_mode = "widen"     # the result *kind* of a loop does not depend on how often it runs

    def inline(self, fn, args, interp, path):
        return True

    def model(self, fn, args, interp, path, term):
        # trusted fact (also the basis of the C17 audit class): NumCast::from into a float type is
        # total — num-traits implements it with an `as` cast and always returns Some.
        if fn["path"] == "num::NumCast::from" and fn.get("crate") == "num_traits":
            frame = path.frames[-1]
            if fn.get("args") and fn["args"][0] in float_params(interp.fb, frame.body):
                return Variant("std::option::Option", "Some", {"0": App("num::NumCast::from", [interp._snap(path, a) for a in args])})
        return None


def val_of(tag, name):
    return Variant(VAL, tag, {} if tag == "None" else {"0": Sym(name)})


def run_target(fb, target, args):
    body = tables.target_body(fb, target)
    if body is None:
        return None, "no body for %s" % tables.target_name(target)
    a = ([Sym("env")] if isinstance(target, Closure) else []) + args
    if body["arg_count"] != len(a):
        return None, "arity mismatch"
    ps = Interp(fb, _Inline()).run(body, a)
    return ps, None


def result_kinds(ps):
    """(set of tags, problems)"""
    tags, probs = set(), []
    for p in ps:
        if p.status in ("unreachable", "loop-pruned"):
            continue
        if p.status != "return":
            probs.append("%s: %s" % (p.status, p.note))
            continue
        r = p.result
        if isinstance(r, Variant) and r.adt.endswith(VAL) and r.variant:
            tags.add(r.variant)
        else:
            probs.append("result kind not determined: %s" % show(r)[:100])
    return tags, probs


def run(ctx):
    chk, fb = ctx.check, ctx.fb
    chk.rule("R16.1", "kind table: for every operator and every combination of operand kinds, the possible result kinds are inside the documented set")
    chk.rule("R16.2", "`if(v,c)` returns v itself for true, None for false, Error for error/none/array conditions; `else(r,v)` returns v itself iff r is None, otherwise r itself")
    chk.rule("R16.3", "no unchecked integer operation on the integer parameter in any function reachable from the table (never wrapped)")
    chk.rule("R16.4", "is_commutative is set only on associative-commutative operators")
    make, tab, roots, R = c17.val_group(fb)
    nb = nu = ncases = 0
    for ent in tab:
        r = ent["repr"]
        if r is None:
            chk.unrecognised("R16.1", "entry@nonliteral", "operator name is not a literal", ent["loc"])
            continue
        if ent["apply"] is not None:
            nb += 1
            bad = False
            for ta in TAGS:
                for tb in TAGS:
                    ncases += 1
                    ps, err = run_target(fb, ent["apply"], [val_of(ta, "a"), val_of(tb, "b")])
                    if err:
                        chk.unrecognised("R16.1", "bin:%s" % r, err, ent["loc"])
                        bad = True
                        break
                    tags, probs = result_kinds(ps)
                    exp = expected_binary(r, ta, tb)
                    if probs and exp is not None:
                        chk.unrecognised("R16.1", "bin:%s:%s,%s" % (r, ta, tb), "; ".join(probs[:2]), ent["loc"])
                        bad = True
                        continue
                    req = required_binary(r, ta, tb)
                    if exp is not None and not (tags and tags <= exp):
                        chk.violation("R16.1", "bin:%s:%s,%s" % (r, ta, tb),
                                      "`%s %s %s` can yield kind(s) %s, documented: %s" % (ta, r, tb, sorted(tags), sorted(exp)), ent["loc"])
                        bad = True
                    elif not probs and not req <= tags:
                        chk.violation("R16.1", "bin:%s:%s,%s:missing" % (r, ta, tb),
                                      "`%s %s %s` can only yield kind(s) %s: the documented %s outcome (overflow / out-of-range reported as an error value) is unreachable" % (
                                          ta, r, tb, sorted(tags), sorted(req - tags)), ent["loc"])
                        bad = True
                    elif ncases % 97 == 0:
                        chk.sample({"op": r, "operands": [ta, tb], "result_kinds": sorted(tags), "documented": sorted(exp) if exp else None})
                if bad and err:
                    break
            if not bad:
                chk.ok("R16.1", "binary %s: 36 kind pairs" % r, "", ent["loc"])
        if ent["unary"] is not None:
            nu += 1
            bad = False
            for t in TAGS:
                ncases += 1
                ps, err = run_target(fb, ent["unary"], [val_of(t, "a")])
                if err:
                    chk.unrecognised("R16.1", "un:%s" % r, err, ent["loc"])
                    bad = True
                    break
                tags, probs = result_kinds(ps)
                exp = expected_unary(r, t)
                if probs and exp is not None:
                    chk.unrecognised("R16.1", "un:%s:%s" % (r, t), "; ".join(probs[:2]), ent["loc"])
                    bad = True
                    continue
                req = required_unary(r, t)
                if exp is not None and not (tags and tags <= exp):
                    chk.violation("R16.1", "un:%s:%s" % (r, t), "`%s(%s)` can yield kind(s) %s, documented: %s" % (r, t, sorted(tags), sorted(exp)), ent["loc"])
                    bad = True
                elif not probs and not req <= tags:
                    chk.violation("R16.1", "un:%s:%s:missing" % (r, t), "`%s(%s)` can only yield kind(s) %s: the documented %s outcome is unreachable" % (
                        r, t, sorted(tags), sorted(req - tags)), ent["loc"])
                    bad = True
            if not bad:
                chk.ok("R16.1", "unary %s: 6 kinds" % r, "", ent["loc"])
    chk.counts["abstract_cases"] = ncases
    chk.floor("R16.1", "binary entries", nb, 27)
    chk.floor("R16.1", "unary entries", nu, 35)

    # ---- R16.2 if / else by identity
    ents = {e["repr"]: e for e in tab}
    if "if" not in ents or "else" not in ents or ents["if"]["apply"] is None or ents["else"]["apply"] is None:
        chk.violation("R16.2", "anchor", "operators `if`/`else` not found in the table")
    else:
        v = Sym("v")

        def results(op, a, b):
            ps, err = run_target(fb, ents[op]["apply"], [a, b])
            if err:
                return None
            return [p.result for p in ps if p.status == "return"], [p for p in ps if p.status not in ("return", "unreachable")]

        def cond(tag, payload=None):
            return Variant(VAL, tag, {} if tag == "None" else {"0": payload if payload is not None else Sym("c")})
        cases = [
            ("if:true", "if", v, cond("Bool", Const("bool", 1)), lambda rs: all(x == v for x in rs)),
            ("if:false", "if", v, cond("Bool", Const("bool", 0)), lambda rs: all(isinstance(x, Variant) and x.variant == "None" for x in rs)),
            ("if:cond-error", "if", v, cond("Error"), lambda rs: all(isinstance(x, Variant) and x.variant == "Error" for x in rs)),
            ("if:cond-none", "if", v, cond("None"), lambda rs: all(isinstance(x, Variant) and x.variant == "Error" for x in rs)),
            ("if:cond-array", "if", v, cond("Array"), lambda rs: all(isinstance(x, Variant) and x.variant == "Error" for x in rs)),
            ("if:cond-int", "if", v, cond("Int"), lambda rs: all(x == v or (isinstance(x, Variant) and x.variant == "None") for x in rs)),
            ("else:none", "else", cond("None"), v, lambda rs: all(x == v for x in rs)),
        ]
        for t in ("Array", "Int", "Float", "Bool", "Error"):
            r0 = cond(t, Sym("r"))
            cases.append(("else:%s" % t, "else", r0, v, (lambda r0: lambda rs: all(x == r0 for x in rs))(r0)))
        for name, op, a, b, pred in cases:
            res = results(op, a, b)
            if res is None or res[1] or not res[0]:
                chk.unrecognised("R16.2", name, "operator function shape not recognised", ents[op]["loc"])
            elif pred(res[0]):
                chk.ok("R16.2", name, ", ".join(show(x)[:40] for x in res[0]), ents[op]["loc"])
            else:
                chk.violation("R16.2", name, "%s(%s, %s) returns %s" % (op, show(a), show(b), [show(x)[:60] for x in res[0]]), ents[op]["loc"])

    scalar_values(chk, fb, tab)

    # ---- R16.6 cross-kind comparison structure
    chk.rule("R16.6", "Val equality / ordering: same-kind operands compare their payloads; int vs float compares in float after promoting the int (both orders); every other kind pair is false / unordered")
    import re as _re
    for trait, meth, same_fn, other in (("std::cmp::PartialEq", "eq", "std::cmp::PartialEq::eq", "false"),
                                         ("std::cmp::PartialOrd", "partial_cmp", "std::cmp::PartialOrd::partial_cmp", "None")):
        bs = fb.find_bodies(lambda b, trait=trait, meth=meth: b["kind"] == "AssocFn" and b.get("name") == meth and b.get("impl_trait_path") == trait
                            and (b.get("impl_self_kind") or {}).get("path", "").endswith(VAL))
        if len(bs) != 1:
            chk.violation("R16.6", "anchor:%s" % meth, "impl %s for Val not found" % trait)
            continue
        ncmp = 0
        good = True
        for ta in TAGS:
            for tb in TAGS:
                ps = Interp(fb, _Inline()).run(bs[0], [val_of(ta, "a"), val_of(tb, "b")])
                ps = [p for p in ps if p.status != "unreachable"]
                ncmp += 1
                if len(ps) != 1 or ps[0].status != "return":
                    chk.unrecognised("R16.6", "%s:%s,%s" % (meth, ta, tb), "comparison is not straight-line for this kind pair", loc(bs[0]["span"]))
                    good = False
                    continue
                s_ = show(ps[0].result)
                if ta == tb and ta in ("Float", "Int") or (ta, tb) == ("Bool", "Bool") and meth == "eq":
                    want = r"^%s\(a, b\)$" % _re.escape(same_fn)
                elif (ta, tb) == ("Float", "Int"):
                    want = r"^%s\(a, num::NumCast::from\(b\)\)$" % _re.escape(same_fn)
                elif (ta, tb) == ("Int", "Float"):
                    want = r"^%s\(num::NumCast::from\(a\), b\)$" % _re.escape(same_fn)
                else:
                    want = r"^false$|^bool:0$" if other == "false" else r"^Option::None$"
                if _re.match(want, s_):
                    continue
                good = False
                chk.violation("R16.6", "%s:%s,%s" % (meth, ta, tb), "Val::%s for (%s, %s) computes %s; documented: %s" % (
                    meth, ta, tb, s_[:120], "payload comparison" if ta == tb else ("comparison in float after promoting the int" if {ta, tb} == {"Int", "Float"} else other)), loc(bs[0]["span"]))
        if good:
            chk.ok("R16.6", "Val::%s: %d kind pairs" % (meth, ncmp), "", loc(bs[0]["span"]))

    # ---- R16.3 never wrapped
    classes = json.load(open(c17.AUDIT))["val"]
    pop = [s for s in panics.population(fb, R) if s["kind"] == "intarith"]
    panics.audit(fb, chk, "R16.3", "val", pop, classes, guards.GUARDS)
    chk.ok("R16.3", "unchecked integer arithmetic scan", "%d functions, %d generic integer-op sites (all range-guarded shifts)" % (len(R), len(pop)))

    # ---- R16.4 flags
    nflag = 0
    for ent in tab:
        if ent["apply"] is None:
            continue
        if ent["is_commutative"] is None:
            chk.unrecognised("R16.4", "flag:%s" % ent["repr"], "is_commutative is not a literal", ent["loc"])
        elif ent["is_commutative"]:
            nflag += 1
            if ent["repr"] in AC_WHITELIST:
                chk.ok("R16.4", "flag:%s" % ent["repr"], AC_WHITELIST[ent["repr"]], ent["loc"])
            else:
                chk.violation("R16.4", "flag:%s" % ent["repr"],
                              "operator %r is flagged commutative but is not associative-commutative: its literal operands may be regrouped visibly" % ent["repr"], ent["loc"])
    chk.counts["commutative_flags"] = nflag
    # the flag must actually be consumed by the ordering code, otherwise this lint is vacuous (stated, not failed)
    readers = []
    for p, b in fb.bodies.items():
        for blk in b["blocks"]:
            for st in blk["stmts"]:
                if st["k"] == "assign" and st["rv"]["k"] == "use" and st["rv"]["op"].get("k") in ("copy", "move"):
                    if any(e.get("name") == "is_commutative" for e in st["rv"]["op"]["place"]["proj"]) and not b.get("impl_derived"):
                        readers.append(p)
    chk.note("is_commutative is read by: %s" % sorted(set(readers)))


# ---- R16.7 -----------------------------------------------------------------------------------------------
# what the documentation promises for two scalar operands, as (integer primitive(s), float primitive(s), argument order):
# the integer case is the checked primitive (an overflow is reported), a float meets an int after promoting the int
SCALAR = {
    "+": (("num::CheckedAdd::checked_add",), ("std::ops::Add::add",), "any"),
    "-": (("num::CheckedSub::checked_sub",), ("std::ops::Sub::sub",), "ab"),
    "*": (("num::CheckedMul::checked_mul",), ("std::ops::Mul::mul",), "any"),
    "/": (("num::CheckedDiv::checked_div",), ("std::ops::Div::div",), "ab"),
    "min": (("std::cmp::Ord::min", "std::cmp::min"), ("num::Float::min",), "any"),
    "max": (("std::cmp::Ord::max", "std::cmp::max"), ("num::Float::max",), "any"),
    "|": (("std::ops::BitOr::bitor",), None, "any"),
    "&": (("std::ops::BitAnd::bitand",), None, "any"),
    "XOR": (("std::ops::BitXor::bitxor",), None, "any"),
    "atan2": (None, ("num::Float::atan2",), "ab"),
}


def _strip(v):
    """payload without the wrappers that do not change the value: `.0(as:Some(x))` (the success of a checked primitive) and
    the promotion NumCast::from(x)"""
    while isinstance(v, App):
        if v.fn == ".0" and len(v.args) == 1 and isinstance(v.args[0], App) and v.args[0].fn == "as:Some" and len(v.args[0].args) == 1:
            v = v.args[0].args[0]
        elif v.fn == "num::NumCast::from" and len(v.args) == 1:
            v = v.args[0]
        else:
            break
    return v


def _deep_show(v):
    v = _strip(v)
    if isinstance(v, App):
        return "%s(%s)" % (v.fn, ", ".join(_deep_show(x) for x in v.args))
    return show(v)


def _rem_forms():
    """the integer remainder of (a, b): the primitive itself, or a - (a / b) * b spelled with checked or plain primitives"""
    out = {"num::CheckedRem::checked_rem(a, b)", "std::ops::Rem::rem(a, b)"}
    for sub in ("num::CheckedSub::checked_sub", "std::ops::Sub::sub"):
        for mul in ("num::CheckedMul::checked_mul", "std::ops::Mul::mul"):
            for div in ("num::CheckedDiv::checked_div", "std::ops::Div::div"):
                q = "%s(a, b)" % div
                out.add("%s(a, %s(%s, b))" % (sub, mul, q))
                out.add("%s(a, %s(b, %s))" % (sub, mul, q))
    return out


def remainder_value(chk, fb, tab, RID):
    forms = _rem_forms()
    n = 0
    for ent in tab:
        if ent["apply"] is None or ent["repr"] != "%":
            continue
        ps, err = run_target(fb, ent["apply"], [val_of("Int", "a"), val_of("Int", "b")])
        if err:
            chk.unrecognised(RID, "val:%", err, ent["loc"])
            continue
        bad, seen = False, 0
        for p in ps:
            if p.status != "return" or not isinstance(p.result, Variant) or p.result.variant in ("Error", None):
                continue
            seen += 1
            pay = p.result.fields.get("0")
            if p.result.variant != "Int" or pay is None or _deep_show(pay) not in forms:
                bad = True
                chk.violation(RID, "val:%:Int,Int", "`Int %% Int` returns %s; documented: the remainder a - (a / b) * b of the two operands in this order, on every path that is not an error" % show(p.result)[:140], ent["loc"])
        n += 1
        if seen == 0:
            chk.violation(RID, "val:%:none", "`Int % Int` never returns a value", ent["loc"])
        elif not bad:
            chk.ok(RID, "scalar value of %", "%d value paths" % seen, ent["loc"])
    chk.floor(RID, "remainder operator", n, 1)


def scalar_values(chk, fb, tab, RID="R16.7"):
    chk.rule(RID, "scalar operands: + - * / min max | & XOR atan2 return exactly the primitive of their name applied to the two operands (checked for integers, after promotion for int with float), in the documented order; int % int returns the remainder a - (a / b) * b on every non-error path")
    n = 0
    for ent in tab:
        r = ent["repr"]
        if ent["apply"] is None or r not in SCALAR:
            continue
        ints, floats, order = SCALAR[r]
        bad = False
        for ta, tb in (("Int", "Int"), ("Float", "Float"), ("Int", "Float"), ("Float", "Int")):
            prims = ints if (ta, tb) == ("Int", "Int") else floats
            if r == "atan2":
                prims = floats
            if prims is None:
                continue
            ps, err = run_target(fb, ent["apply"], [val_of(ta, "a"), val_of(tb, "b")])
            if err:
                chk.unrecognised(RID, "val:%s" % r, err, ent["loc"])
                bad = True
                break
            for p in ps:
                if p.status != "return" or not isinstance(p.result, Variant) or p.result.variant in ("Error", None):
                    continue
                pay = _strip(p.result.fields.get("0")) if p.result.fields.get("0") is not None else None
                ok = False
                if isinstance(pay, App) and pay.fn in prims and len(pay.args) == 2:
                    args = [show(_strip(x)) for x in pay.args]
                    ok = args == ["a", "b"] or (order == "any" and args == ["b", "a"])
                if not ok:
                    bad = True
                    chk.violation(RID, "val:%s:%s,%s" % (r, ta, tb), "`%s %s %s` returns %s; documented: %s of the two operands%s" % (
                        ta, r, tb, show(p.result)[:120], " / ".join(x.rsplit("::", 1)[-1] for x in prims), "" if order == "any" else " in this order"), ent["loc"])
        n += 1
        if not bad:
            chk.ok(RID, "scalar value of %s" % r, "", ent["loc"])
    chk.floor(RID, "operators with a documented scalar primitive", n, 10)
    remainder_value(chk, fb, tab, RID)
