"""C18 — Derivatives of value-typed and piecewise expressions (rule-shape clauses)."""
import re

from analysis import deriv, tables, mir
from analysis.facts import loc
from analysis.interp import Interp, Policy, Sym, Variant, Const, App, show
from rules import c05

LEVEL = "other"
TECHNIQUE = "TERM extraction of the comparison / if / else derivative rules from MIR and shape comparison; WHO: single generic rule table; DECIDE: variant tag produced by the numeric-constant conversions of Val"
EXPLANATION = (
    "Decides for the value type: (R18.1) the rules keyed > < != == <= >= return val = op(a,b) and der = op(a,b) with op the "
    "rule's own key (a condition is kept untouched), and the rules keyed `if` / `else` return val = op(a,b), der = op(da,db) "
    "with their own key (branch-wise differentiation), so together with C16 R16.2 the derivative of `f if c else g` is "
    "`f' if c else g'`; (R18.2) arithmetic and elementary rules are the SAME generic table as for floats (one constructor, "
    "generic in the data type; checked by C05), no Val-specific rule exists; (R18.3) every numeric constant of a rule enters "
    "through T::from(<f32 literal>) or the neutral elements, and Val's From<f32> yields the Float kind, From<u8> the Int kind. "
    "Not decided: evaluation of the resulting Val expressions (values are C16's territory)."
)
TRUSTED = ["rustc MIR construction", "exporter faithfulness", "C05 (same table), C16 (if/else selection by identity)"]

KEEP = [">", "<", "!=", "==", "<=", ">="]
PER_OPERAND = ["if", "else"]


def run(ctx):
    chk, fb = ctx.check, ctx.fb
    chk.rule("R18.1", "comparison rules: val = key(a,b), der = key(a,b); if/else rules: val = key(a,b), der = key(da,db)")
    chk.rule("R18.2", "one generic derivative table (no other constructor of PartialDerivative)")
    chk.rule("R18.4", "conditions and branches reach their rules as (operand, recursive derivative of that operand): a comparison in parentheses is kept as a value by its own rule, never short-cut to zero")
    from rules import c05 as _c05
    _c05.operand_pairs(chk, fb, "R18.4")
    chk.rule("R18.3", "numeric constants enter via T::from(<f32 literal>) / one / zero; Val::from(f32) is Float, Val::from(u8) is Int")
    body, tab, meta = c05.extract_all(chk, fb, "R18.1")
    n = 0
    for key in KEEP + PER_OPERAND:
        jid = "bin:%s" % key
        m = meta.get(jid)
        if m is None:
            chk.violation("R18.1", "missing:%s" % key, "no derivative rule keyed %r: differentiating piecewise expressions fails" % key, loc(body["span"]))
            continue
        if "error" in m:
            chk.unrecognised("R18.1", "rule:%s" % key, m["error"], m["entry"]["loc"])
            continue
        n += 1
        val, der = m["ast"]["val"], m["ast"]["der"]
        want_val = ["opbin", key, ["sym", "a"], ["sym", "b"]]
        want_der = want_val if key in KEEP else ["opbin", key, ["sym", "da"], ["sym", "db"]]
        if val == want_val and der == want_der:
            chk.ok("R18.1", "rule:%s" % key, "val=%s der=%s" % (val, der), m["entry"]["loc"])
            chk.sample({"rule": key, "val": val, "der": der})
        else:
            chk.violation("R18.1", "rule:%s" % key, "rule for %r has val=%s der=%s, expected val=%s der=%s" % (key, val, der, want_val, want_der), m["entry"]["loc"])
        if m["entry"]["unary"] is not None:
            chk.violation("R18.1", "unary:%s" % key, "%r must not have an outer (unary) derivative" % key, m["entry"]["loc"])
    chk.floor("R18.1", "value-type rules", n, 8)

    # ---- R18.2 single generic table
    ctors = []
    for p, b in fb.bodies.items():
        for bi, si, st in mir.iter_stmts(b, mir.normal_blocks(b)):
            if st["k"] == "assign" and st["rv"]["k"] == "aggregate" and (st["rv"].get("adt") or "").endswith("partial::PartialDerivative"):
                ctors.append(b["root"] if b["kind"] == "Closure" else p)
    ctors = sorted(set(ctors))
    if ctors == [body["path"]]:
        gen = [p for p in body.get("predicates", []) if "DiffDataType" in p]
        if gen:
            chk.ok("R18.2", "single generic table", "%s, %s" % (body["path"], gen[0]), loc(body["span"]))
        else:
            chk.violation("R18.2", "not-generic", "the derivative table is not generic over DiffDataType", loc(body["span"]))
    else:
        chk.violation("R18.2", "ctors", "PartialDerivative is constructed in %s: a type-specific table would bypass the checked rules" % ctors, loc(body["span"]))

    # ---- R18.3 constants
    nconst = 0
    for jid, m in meta.items():
        for c in m.get("consts", []):
            nconst += 1
            if c[0] == "from" and c[1] not in ("f32",):
                chk.violation("R18.3", "const:%s" % jid, "numeric constant of rule %s enters as %s, not as an f32 literal through From<f32>" % (jid, c[1]), m["entry"]["loc"])
            elif c[0] == "from" and len(c) > 3 and c[3] in (0.0, 1.0):
                # From<f32> forces the Float kind of Val; the neutral elements must stay kind-neutral (Int for Val),
                # otherwise e.g. the exponent n-1 of the power rule turns an integer exponent into a float
                chk.violation("R18.3", "neutral-const:%s" % jid, "rule %s builds the neutral element %s from a float literal instead of NeutralElts::zero()/one(): for Val this is Float(%s), so integer operands stop being treated as integers (x^3 -> x^(3-1.0))" % (
                    jid, c[3], c[3]), m["entry"]["loc"])
    chk.floor("R18.3", "numeric constants in rules", nconst, 20)
    for src, want in (("f32", "Float"), ("u8", "Int")):
        bs = fb.find_bodies(lambda b, src=src: b["kind"] == "AssocFn" and b.get("name") == "from" and (b.get("impl_self_ty") or "").startswith("value::Val<")
                            and (b.get("impl_trait") or "").endswith("From<%s>" % src))
        if len(bs) != 1:
            chk.violation("R18.3", "anchor:from-%s" % src, "impl From<%s> for Val not found" % src)
            continue
        ps = Interp(fb, Policy()).run(bs[0], [Sym("x")])
        tags = {p.result.variant for p in ps if p.status == "return" and isinstance(p.result, Variant)}
        bad = [p for p in ps if p.status not in ("return", "unreachable", "diverge")]
        if tags == {want} and not bad:
            chk.ok("R18.3", "Val::from(%s) is %s" % (src, want), "", loc(bs[0]["span"]))
        else:
            chk.violation("R18.3", "from-%s" % src, "Val::from(%s) yields kind(s) %s, documented %s" % (src, sorted(tags), want), loc(bs[0]["span"]))
