"""C14 — Operands are tracked correctly for every application order and size (structural clauses of tracker and reducer)."""
import re

from analysis import mir, rel, loops
from analysis.facts import loc
from analysis.interp import Interp, Policy, Sym, App, Const, Variant, Tup, Closure, Unknown, show
from analysis.dispatch import subterms

LEVEL = "other"
TECHNIQUE = ("TERM extraction of the tracker's bit formulas from MIR and exhaustive comparison of the extracted terms with the specification "
             "(distance to the next unconsumed operand) over all run-structured tracker states at the native width - a truth table over "
             "terms, no exmex code is run; loop summaries (general trip) for the cross-word carry loops and for the reduction loops; "
             "capacity relation of the tracker chosen per expression size")
EXPLANATION = (
    "Decided for every chain length and application order: (R14.1) both reduction loops (eval_binary; the flat->deep converter) take, for the "
    "visited operator i, the operand at i - get_previous(i) and the operand at i + consume_next(i), apply operator i to (left, right) in this "
    "order, store the result at the left position, and return position 0 at the end; (R14.2) consume_next(i) = get_next(i) and marks exactly "
    "position i + get_next(i); (R14.3) the tracker handed to a reduction loop has at least one bit per operand (single word only under a "
    "dominating `len <= bits of a word` test, otherwise 1 + len / BITS words), zero-initialised; (R14.4) one-word tracker: the extracted terms of "
    "get_previous / get_next / ignore equal `number of consumed positions directly below and including i`, `1 + number of consumed positions "
    "directly above i`, `set bit i` on every state in which position 0 is unconsumed and a free position exists above i (all states a "
    "reduction can reach), enumerated over all runs at width 64; (R14.5) multi-word tracker: word index i / BITS, bit i % BITS, the one-word "
    "answer is cut at the word boundary, the carry loop is entered exactly when the answer reaches the boundary, walks the lower words "
    "downwards (resp. the higher words upwards, skipping the own word), adds a full word and continues on an all-ones word, adds the leading "
    "(resp. trailing) ones and stops otherwise; ignore sets bit i % BITS of word i / BITS; capacity = words * BITS. "
    "Not decided: the induction that ties these steps together into `every operand is consumed exactly once` for arbitrary schedules (it "
    "follows from R14.1-R14.5 and the visiting order being a permutation of the operators, which is C01's sort; the argument itself is not "
    "mechanised here)."
)
TRUSTED = ["rustc MIR construction", "exporter faithfulness", "std: rotate_right / leading_ones / trailing_ones / Iterator::rev / skip semantics (modelled in the term evaluator)", "64-bit usize (the target of this build)"]

W = 64
MASK = (1 << W) - 1
TR = "expression::number_tracker::NumberTracker::"


class _P(Policy):
    """free helper functions of the tracker module (e.g. a word/bit split) are inlined; trait methods stay calls"""
    loop_mode = "widen"
    max_depth = 3

    def inline(self, fn, args, interp, path):
        b = interp.callee_body(fn)
        return b is not None and b.get("kind") == "Fn" and fn.get("path", "").startswith("expression::number_tracker::")


class EvalError(Exception):
    pass


def ev(v, env):
    """Evaluate a closed term over 64-bit words."""
    v = rel.canon(v)
    if isinstance(v, Sym):
        if v.name in env:
            return env[v.name]
        raise EvalError("free symbol %s" % v.name)
    if isinstance(v, Const):
        c = rel.const_int(v)
        if c is None:
            raise EvalError("constant %s" % show(v))
        return c
    if isinstance(v, App):
        f = v.fn
        a = [ev(x, env) for x in v.args] if not f.startswith("cast:") else [ev(v.args[0], env)]
        if f.startswith("cast:IntToInt"):
            return a[0]
        if f in ("binop:Add", "binop:AddUnchecked"):
            return a[0] + a[1]
        if f == "binop:Sub":
            return a[0] - a[1]
        if f == "binop:Mul":
            return a[0] * a[1]
        if f == "binop:Div":
            return a[0] // a[1]
        if f == "binop:Rem":
            return a[0] % a[1]
        if f == "binop:BitOr":
            return (a[0] | a[1]) & MASK
        if f == "binop:BitAnd":
            return a[0] & a[1]
        if f == "binop:Shl":
            return (a[0] << (a[1] % W)) & MASK
        if f == "binop:Shr":
            return (a[0] & MASK) >> (a[1] % W)
        if f == "unop:Not":
            return (~a[0]) & MASK
        if f == "std::cmp::Ord::min":
            return min(a)
        if f == "std::cmp::Ord::max":
            return max(a)
        if f.endswith("::rotate_right"):
            r = a[1] % W
            x = a[0] & MASK
            return ((x >> r) | (x << (W - r))) & MASK
        if f.endswith("::rotate_left"):
            r = a[1] % W
            x = a[0] & MASK
            return ((x << r) | (x >> (W - r))) & MASK
        if f.endswith("::leading_ones"):
            n = 0
            while n < W and (a[0] >> (W - 1 - n)) & 1:
                n += 1
            return n
        if f.endswith("::trailing_ones"):
            n = 0
            while n < W and (a[0] >> n) & 1:
                n += 1
            return n
        if f.endswith("::leading_zeros"):
            n = 0
            while n < W and not (a[0] >> (W - 1 - n)) & 1:
                n += 1
            return n
        if f.endswith("::trailing_zeros"):
            n = 0
            while n < W and not (a[0] >> n) & 1:
                n += 1
            return n
        if f.endswith("::count_ones"):
            return bin(a[0] & MASK).count("1")
    raise EvalError("term outside the evaluator's vocabulary: %s" % show(v)[:80])


def ref_prev(state, i):
    n = 0
    while i - n >= 0 and (state >> (i - n)) & 1:
        n += 1
    return n


def ref_next(state, i):
    n = 1
    while i + n < W and (state >> (i + n)) & 1:
        n += 1
    return n


def states():
    """all tracker states made of up to two runs of consumed positions, position 0 free (plus the empty state)"""
    out = {0}
    for lo in range(1, W):
        for hi in range(lo, W):
            run = ((1 << (hi - lo + 1)) - 1) << lo
            out.add(run)
    some = sorted(out)
    extra = set()
    for a in some[::37]:
        for b in some[::53]:
            extra.add(a | b)
    return sorted(out | extra)


def single_path_term(fb, body, nargs):
    ps = [p for p in Interp(fb, _P()).run(body, [Sym("a%d" % i) for i in range(nargs)]) if p.status != "unreachable"]
    if len(ps) != 1 or ps[0].status != "return":
        return None, None
    return ps[0].result, ps[0]


def impl_body(fb, self_ty, name):
    bs = [b for p, b in fb.bodies.items() if p == "<%s as expression::number_tracker::NumberTracker>::%s" % (self_ty, name)]
    return bs[0] if len(bs) == 1 else None


def _strip_views(v):
    v = rel.canon(v)
    while isinstance(v, App) and v.args and (
            (len(v.args) == 1 and (v.fn.endswith("::as_mut_slice") or v.fn.endswith("::as_slice") or v.fn in ("deref", "std::ops::Deref::deref", "std::ops::DerefMut::deref_mut")))
            or (len(v.args) == 2 and v.fn in ("std::ops::IndexMut::index_mut", "std::ops::Index::index") and "RangeFull" in rel.cstr(v.args[1]))):
        v = rel.canon(v.args[0])
    while isinstance(v, App) and v.fn.startswith("mut:") and v.args:
        v = rel.canon(v.args[0])
    return v


def _is_len_of(t, nums):
    t = rel.canon(t)
    return isinstance(t, App) and t.fn.endswith("::len") and len(t.args) == 1 and _strip_views(t.args[0]).key() == _strip_views(nums).key()


_FB = None


def _words_for(trk, nums):
    """tracker = from_elem(0, 1 + len(nums) / 64), for the very numbers handed to the reducer"""
    trk = _strip_views(trk)
    # a private constructor shared by the evaluators (`make_tracker(n)`): judged by what it returns for n
    if isinstance(trk, App) and _FB is not None and trk.fn in _FB.bodies and len(trk.args) == 1 and _FB.bodies[trk.fn]["arg_count"] == 1:
        hb = _FB.bodies[trk.fn]
        hps = [p for p in Interp(_FB, Policy()).run(hb, [trk.args[0]]) if p.status != "unreachable"]
        if len(hps) == 1 and hps[0].status == "return":
            trk = _strip_views(hps[0].result)
    if not (isinstance(trk, App) and trk.fn.endswith("::from_elem") and len(trk.args) == 2 and rel.const_int(trk.args[0]) == 0):
        return False
    n = rel.canon(trk.args[1])
    if not (isinstance(n, App) and n.fn == "binop:Add" and len(n.args) == 2):
        return False
    for a, b in (n.args, n.args[::-1]):
        if rel.const_int(a) == 1 and isinstance(b, App) and b.fn == "binop:Div" and len(b.args) == 2:
            d = rel.canon(b.args[1])
            while isinstance(d, App) and d.fn.startswith("cast:") and d.args:
                d = rel.canon(d.args[0])
            if rel.const_int(d) == W and _is_len_of(b.args[0], nums):
                return True
    return False


def _bitnorm(v, depth=0):
    """equal spellings of the word arithmetic: x & 63 == x % 64 (64 is a power of two), (!w).leading_zeros() == w.leading_ones(),
    (!w).trailing_zeros() == w.trailing_ones(), iter(xs[k + 1..]) == iter(xs[k..]).skip(1)"""
    if depth > 60:
        return v
    if isinstance(v, App):
        args = [_bitnorm(a, depth + 1) for a in v.args]
        if v.fn == "binop:BitAnd" and len(args) == 2:
            for x, m in (args, args[::-1]):
                c = rel.const_int(m)
                if c is not None and c > 0 and (c & (c + 1)) == 0 and c + 1 == 64:
                    return App("binop:Rem", [x, Const("usize", 64)])
        if v.fn.endswith("::leading_zeros") or v.fn.endswith("::trailing_zeros"):
            if len(args) == 1 and isinstance(args[0], App) and args[0].fn == "unop:Not" and len(args[0].args) == 1:
                return App(v.fn.replace("leading_zeros", "leading_ones").replace("trailing_zeros", "trailing_ones"), [args[0].args[0]])
        if v.fn == "std::iter::IntoIterator::into_iter" and len(args) == 1 and isinstance(args[0], App) and args[0].fn == "std::ops::Index::index" \
                and len(args[0].args) == 2 and isinstance(args[0].args[1], Variant) and "Range" in args[0].args[1].adt:
            # `for w in &xs[a..]` iterates the sub-slice like `xs[a..].iter()`
            return App(v.fn, [_bitnorm(App("core::slice::<impl [T]>::iter", [args[0]]), depth + 1)])
        if v.fn == "core::slice::<impl [T]>::iter" and len(args) == 1 and isinstance(args[0], App) and args[0].fn == "std::ops::Index::index" and len(args[0].args) == 2:
            r = args[0].args[1]
            if isinstance(r, Variant) and r.adt.endswith("RangeFrom"):
                st = rel.canon(r.fields.get("start"))
                if isinstance(st, App) and st.fn == "binop:Add" and len(st.args) == 2 and rel.const_int(st.args[1]) == 1:
                    inner = App("core::slice::<impl [T]>::iter", [App("std::ops::Index::index", [args[0].args[0], Variant(r.adt, r.variant, {"start": st.args[0]})])])
                    return App("std::iter::Iterator::skip", [inner, Const("usize", 1, text="1_usize")])
        return App(v.fn, args, info=getattr(v, "info", None)) if hasattr(v, "info") else App(v.fn, args)
    if isinstance(v, Variant):
        return Variant(v.adt, v.variant, {k: _bitnorm(x, depth + 1) for k, x in v.fields.items()})
    if isinstance(v, Tup):
        return Tup([_bitnorm(x, depth + 1) for x in v.elems], v.kind)
    return v


def run(ctx):
    global _FB
    chk, fb = ctx.check, ctx.fb
    _FB = fb
    chk.rule("R14.1", "reduction step: operator i on (operand at i - get_previous(i), operand at i + consume_next(i)), in this order, result stored left; position 0 returned")
    chk.rule("R14.2", "consume_next(i) = get_next(i), marking position i + get_next(i)")
    chk.rule("R14.3", "tracker capacity >= number of operands at every reduction (one word only under `len <= word bits`), zero-initialised")
    chk.rule("R14.4", "one-word tracker: extracted bit formulas equal the specification on every reachable run-structured state (width 64)")
    chk.rule("R14.5", "multi-word tracker: word/bit split, boundary cut, carry loop entered exactly at the boundary, full word => continue, partial word => add and stop")
    # ---------------- R14.4 one-word formulas ----------------------------------------------------
    gp, gn, ig, ml = (impl_body(fb, "usize", n) for n in ("get_previous", "get_next", "ignore", "max_len"))
    if not all((gp, gn, ig, ml)):
        chk.violation("R14.4", "anchor", "NumberTracker for usize: get_previous/get_next/ignore/max_len not found")
        return
    st = states()
    chk.counts["tracker_states"] = len(st)
    for name, body, ref in (("get_previous", gp, ref_prev), ("get_next", gn, ref_next)):
        term, _ = single_path_term(fb, body, 2)
        if term is None:
            chk.unrecognised("R14.4", "shape:%s" % name, "usize::%s is not a single closed term" % name, loc(body["span"]))
            continue
        bad = None
        n = 0
        try:
            for s in st:
                for i in range(W):
                    if name == "get_next" and not any(not (s >> j) & 1 for j in range(i + 1, W)):
                        continue        # no free position above i: the reducer never asks
                    n += 1
                    got = ev(term, {"a0": s, "a1": i})
                    if got != ref(s, i):
                        bad = (s, i, got, ref(s, i))
                        break
                if bad:
                    break
        except EvalError as e:
            chk.unrecognised("R14.4", "term:%s" % name, "usize::%s: %s" % (name, e), loc(body["span"]))
            continue
        if bad:
            chk.violation("R14.4", "formula:%s" % name, "usize::%s = %s gives %d for tracker state %#x at position %d, the specification gives %d" % (
                name, show(term)[:120], bad[2], bad[0], bad[1], bad[3]), loc(body["span"]))
        else:
            chk.ok("R14.4", "usize::%s equals the specification" % name, "%d (state, position) pairs; term %s" % (n, show(term)[:100]), loc(body["span"]))
            chk.sample({"fn": "usize::" + name, "term": show(term), "pairs": n})
    # ignore: the written value
    ps = [p for p in Interp(fb, _P()).run(ig, [Sym("a0"), Sym("a1")]) if p.status == "return"]
    wr = [e for p in ps for e in p.events if e[0] == "write_opaque"]
    if len(ps) == 1 and len(wr) == 1 and show(wr[0][1]) == "a0":
        try:
            bad = None
            for s in st[::7]:
                for i in range(W):
                    if ev(wr[0][3], {"a0": s, "a1": i}) != (s | (1 << i)):
                        bad = (s, i)
            if bad:
                chk.violation("R14.4", "formula:ignore", "usize::ignore writes %s: not `set bit i` (state %#x, i=%d)" % (show(wr[0][3])[:80], bad[0], bad[1]), loc(ig["span"]))
            else:
                chk.ok("R14.4", "usize::ignore sets bit i", show(wr[0][3])[:80], loc(ig["span"]))
        except EvalError as e:
            chk.unrecognised("R14.4", "term:ignore", str(e), loc(ig["span"]))
    else:
        chk.unrecognised("R14.4", "shape:ignore", "usize::ignore is not one write to *self", loc(ig["span"]))
    t_ml, _ = single_path_term(fb, ml, 1)
    if t_ml is not None and rel.const_int(t_ml) == W:
        chk.ok("R14.4", "usize::max_len = 64", "", loc(ml["span"]))
    else:
        chk.violation("R14.4", "capacity:usize", "usize::max_len is %s, a word tracks 64 operands" % (show(t_ml) if t_ml is not None else "?"), loc(ml["span"]))

    # ---------------- R14.2 consume_next ------------------------------------------------------------
    cn = [b for p, b in fb.bodies.items() if p == TR + "consume_next"]
    if len(cn) != 1:
        chk.violation("R14.2", "anchor", "NumberTracker::consume_next (default method) not found")
    else:
        ps = [p for p in Interp(fb, _P()).run(cn[0], [Sym("a0"), Sym("a1")]) if p.status != "unreachable"]
        good = len(ps) == 1 and ps[0].status == "return" and show(ps[0].result) == TR + "get_next(a0, a1)"
        if good:
            ign = [e for e in ps[0].events if e[0] == "call" and e[1] == TR + "ignore"]
            good = len(ign) == 1 and show(ign[0][2][0]) == "a0" and rel.cstr(ign[0][2][1]) in (
                "binop:Add(a1, %sget_next(a0, a1))" % TR, "binop:Add(%sget_next(a0, a1), a1)" % TR)
        if good:
            chk.ok("R14.2", "consume_next = get_next, marking i + get_next(i)", "", loc(cn[0]["span"]))
        else:
            chk.violation("R14.2", "consume", "consume_next does not return get_next(i) after marking exactly position i + get_next(i): %s" % [show(p.result)[:80] for p in ps][:2], loc(cn[0]["span"]))

    # ---------------- R14.5 multi-word ------------------------------------------------------------------
    def cs(v):
        return rel.cstr(_bitnorm(rel.canon(v)))
    mw = {n: impl_body(fb, "[usize]", n) for n in ("get_previous", "get_next", "ignore", "max_len")}
    if not all(mw.values()):
        chk.violation("R14.5", "anchor", "NumberTracker for [usize] not found")
    else:
        SEG = "binop:Div(a1, usize:64)"
        BIT = "binop:Rem(a1, usize:64)"
        for name, ones_fn, cut, src_rx in (
                ("get_previous", "leading_ones", "binop:Add(%s, 1_usize)" % BIT,
                 r"^std::iter::IntoIterator::into_iter\(std::iter::Iterator::rev\(core::slice::<impl \[T\]>::iter\(std::ops::Index::index\(a0, RangeTo\{end: %s\}\)\)\)\)$" % re.escape(SEG)),
                ("get_next", "trailing_ones", "binop:Sub(usize:64, %s)" % BIT,
                 r"^std::iter::IntoIterator::into_iter\(std::iter::Iterator::skip\(core::slice::<impl \[T\]>::iter\(std::ops::Index::index\(a0, RangeFrom\{start: %s\}\)\), 1_usize\)\)$" % re.escape(SEG))):
            b = mw[name]
            allp = [p for p in Interp(fb, _P()).run(b, [Sym("a0"), Sym("a1")]) if p.status != "unreachable"]
            where = loc(b["span"])
            if any(p.status not in ("return", "loop-pruned") for p in allp):
                chk.unrecognised("R14.5", "shape:%s" % name, "%s" % [(p.status, p.note) for p in allp][:2], where)
                continue
            base = "std::cmp::Ord::min(%s%s(index(a0, %s), %s), %s)" % (TR, name, SEG, BIT, cut)
            problems = []
            rets = [p for p in allp if p.status == "return"]
            entered = False
            for p in rets:
                F = rel.Facts(p)
                at_boundary = None
                for a, op, bb in F.rel:
                    if {cs(a), cs(bb)} == {base, cut}:
                        at_boundary = (op == "==")
                hd = [x for k, x in p.trace if k == "e" and x[0] == "loophead"]
                r = cs(p.result)
                if at_boundary is None:
                    problems.append("a return does not depend on `own-word answer == distance to the word boundary` (%s)" % r[:80])
                elif at_boundary is False:
                    if r != base or hd:
                        problems.append("below the word boundary the answer is %s, expected the own word's answer cut at the boundary" % r[:100])
                else:
                    entered = True
                    if not hd:
                        problems.append("at the word boundary the neighbouring words are not consulted")
                        continue
                    first = [t for t in loops.trips(p, b["path"], 0)][0]
                    srcs = [cs(v) for v in first.pre.values()]
                    if not any(re.match(src_rx, s) for s in srcs):
                        problems.append("the carry loop does not walk %s" % ("the lower words downwards" if name == "get_previous" else "the higher words upwards, skipping the own word"))
                    if not any(s == base for s in srcs):
                        problems.append("the carry loop does not start from the own word's answer")
            # general trips of the carry loop
            seen = {"full": 0, "partial": 0}
            for p in allp:
                for t in loops.trips(p, b["path"], 0):
                    if not t.general:
                        continue
                    F = rel.Facts(type("P", (), {"decisions": t.decisions})())
                    full = None
                    word = None
                    for a, op, bb in F.rel:
                        for x, y in ((a, bb), (bb, a)):
                            if rel.const_int(y) == MASK and "Iterator::next(" in cs(x):
                                full, word = (op == "=="), x
                    if full is None:
                        continue
                    acc = [L for L, v in t.pre.items() if isinstance(v, Unknown)]
                    if full:
                        if t.post is None:
                            problems.append("an all-ones word ends the carry loop")
                            continue
                        inc = [L for L in acc if L in t.post and cs(t.post[L]) in ("binop:Add(%s, 64_usize)" % cs(t.pre[L]), "binop:Add(%s, usize:64)" % cs(t.pre[L]))]
                        if len(inc) != 1:
                            problems.append("an all-ones word does not add a full word (64) to the distance")
                        seen["full"] += 1
                    else:
                        if t.post is not None:
                            problems.append("a word that is not all ones does not end the carry loop")
                            continue
                        if p.status == "return":
                            r = _bitnorm(rel.canon(p.result))
                            inc_ = r.args[1] if isinstance(r, App) and r.fn == "binop:Add" and len(r.args) == 2 else None
                            while isinstance(inc_, App) and inc_.fn.startswith("cast:IntToInt") and inc_.args:
                                inc_ = rel.canon(inc_.args[0])
                            good = inc_ is not None and isinstance(r.args[0], Unknown) and \
                                cs(inc_) == "core::num::<impl usize>::%s(%s)" % (ones_fn, cs(word))
                            if not good:
                                problems.append("a partially consumed word contributes %s, expected its %s" % (cs(r)[:80], ones_fn))
                            seen["partial"] += 1
            if entered and not (seen["full"] and seen["partial"]):
                problems.append("carry loop trips seen: %s" % seen)
            if not entered:
                problems.append("the carry loop is never entered")
            if problems:
                chk.violation("R14.5", "carry:%s" % name, "[usize]::%s: %s" % (name, "; ".join(sorted(set(problems))[:3])), where)
            else:
                chk.ok("R14.5", "[usize]::%s: boundary cut, carry loop, full/partial words" % name, str(seen), where)
        # ignore / max_len
        ps = [p for p in Interp(fb, _P()).run(mw["ignore"], [Sym("a0"), Sym("a1")]) if p.status == "return"]
        wr = [e for p in ps for e in p.events if e[0] == "write_opaque"]
        want = "binop:BitOr(index(a0, %s), binop:Shl(1_usize, %s))" % (SEG, BIT)
        if len(ps) == 1 and len(wr) == 1 and cs(wr[0][3]) == want and show(wr[0][1]) == "a0":
            # the written element is the one that was read
            chk.ok("R14.5", "[usize]::ignore sets bit i % 64 of word i / 64", "", loc(mw["ignore"]["span"]))
        else:
            chk.violation("R14.5", "ignore", "[usize]::ignore writes %s, expected word i/64 |= 1 << (i %% 64)" % [cs(w[3])[:100] for w in wr], loc(mw["ignore"]["span"]))
        t_ml, _ = single_path_term(fb, mw["max_len"], 1)
        if t_ml is not None and cs(t_ml) in ("binop:Mul(core::slice::<impl [T]>::len(a0), usize:64)", "binop:Mul(usize:64, core::slice::<impl [T]>::len(a0))"):
            chk.ok("R14.5", "[usize]::max_len = words * 64", "", loc(mw["max_len"]["span"]))
        else:
            chk.violation("R14.5", "capacity:[usize]", "[usize]::max_len is %s" % (show(t_ml)[:80] if t_ml is not None else "?"), loc(mw["max_len"]["span"]))

    # ---------------- R14.1 reduction loops --------------------------------------------------------
    users = [b for p, b in fb.bodies.items() if any((mir.callee_path(t) or "") == TR + "consume_next" for _, t in mir.calls(b))]
    nred = 0
    for b in users:
        where = loc(b["span"])
        args = [Sym("p%d" % i) for i in range(1, b["arg_count"] + 1)]
        allp = [p for p in Interp(fb, _P()).run(b, args) if p.status != "unreachable"]
        gen = []
        for p in allp:
            for t in loops.trips(p, b["path"], 0):
                if t.general and t.post is not None and any(e[0] == "call" and e[1] == TR + "consume_next" for e in t.events):
                    gen.append((t, p))
        if not gen:
            chk.unrecognised("R14.1", "loop:%s" % b["path"], "no completed general trip calling consume_next", where)
            continue
        nred += 1
        ok = True
        for t, p in gen:
            gpv = [e for e in t.events if e[0] == "call" and e[1] == TR + "get_previous"]
            cnx = [e for e in t.events if e[0] == "call" and e[1] == TR + "consume_next"]
            if len(gpv) != 1 or len(cnx) != 1 or rel.cstr(gpv[0][2][1]) != rel.cstr(cnx[0][2][1]) or "Iterator::next(" not in rel.cstr(gpv[0][2][1]):
                chk.violation("R14.1", "positions:%s" % b["path"], "%s: get_previous / consume_next are not both asked for the visited operator" % b["path"], where)
                ok = False
                break
            idx_t = rel.canon(gpv[0][2][1])
            idx = rel.cstr(idx_t)

            def is_left(x):
                x = rel.canon(x)
                return isinstance(x, App) and x.fn == "binop:Sub" and rel.cstr(x.args[0]) == idx and isinstance(x.args[1], App) and x.args[1].fn == TR + "get_previous" \
                    and rel.cstr(x.args[1].args[1]) == idx

            def is_right(x):
                x = rel.canon(x)
                if not (isinstance(x, App) and x.fn == "binop:Add" and len(x.args) == 2):
                    return False
                for u, v in (x.args, x.args[::-1]):
                    if rel.cstr(u) == idx and isinstance(v, App) and v.fn == TR + "consume_next" and rel.cstr(v.args[1]) == idx:
                        return True
                return False

            def positions(v):
                """index positions occurring in a term, outermost first"""
                out = []
                for s in subterms(rel.canon(v)):
                    if isinstance(s, App) and s.fn in ("index", "std::ops::Index::index", "std::ops::IndexMut::index_mut") and len(s.args) == 2:
                        out.append(rel.canon(s.args[1]))
                return out

            def side(v):
                ps_ = positions(v)
                if any(is_left(x) for x in ps_) and not any(is_right(x) for x in ps_):
                    return "left"
                if any(is_right(x) for x in ps_) and not any(is_left(x) for x in ps_):
                    return "right"
                return None
            pair = None      # (side of first operand, side of second operand)
            opi = None
            for e in t.events:
                if e[0] == "call" and e[1].endswith("::apply") and len(e[2]) == 3:
                    pair = (side(e[2][1]), side(e[2][2]))
                    opi = positions(e[2][0])
                if e[0] == "write_opaque" and isinstance(rel.canon(e[3]), Tup) and len(rel.canon(e[3]).elems) == 2 and all(
                        isinstance(x, App) and x.fn == "std::mem::replace" for x in rel.canon(e[3]).elems):
                    el = rel.canon(e[3]).elems
                    pair = (side(el[0].args[0]), side(el[1].args[0]))
            if opi is None:
                # converter: the operator is looked up in the operator lists by the visited index
                news = [e for e in t.events if e[0] == "call" and e[1].endswith("DeepEx::<'a, T, OF, LM>::new")]
                opi = [x for e in news for a in e[2][1:] for x in positions(a)]
            if pair is None:
                chk.unrecognised("R14.1", "apply:%s" % b["path"], "%s: the application of the visited operator to the two located operands was not found" % b["path"], where)
                ok = False
                break
            if pair != ("left", "right"):
                chk.violation("R14.1", "operands:%s" % b["path"], "%s applies the operator to (%s, %s) operands: expected (operand at i - get_previous(i), operand at i + consume_next(i)) in this order" % (
                    b["path"], pair[0], pair[1]), where)
                ok = False
                break
            if not opi or not all(rel.cstr(x) == idx for x in opi):
                chk.violation("R14.1", "operator:%s" % b["path"], "%s does not take the visited operator (positions used: %s)" % (b["path"], [rel.cstr(x)[:60] for x in opi][:3]), where)
                ok = False
                break
            # the result is stored at the left operand's position
            stored = None
            for e in t.events:
                if e[0] != "write_opaque":
                    continue
                val = rel.cstr(e[3])
                if not ("::apply(" in val or "DeepNode::Expr" in val):
                    continue
                ps_ = positions(e[1])
                for k in (e[2] or ()):
                    if isinstance(k, tuple) and len(k) == 2 and k[0] == "i" and k[1] in t.post:
                        ps_.append(rel.canon(t.post[k[1]]))
                stored = "left" if ps_ and is_left(ps_[-1]) else ("right" if ps_ and is_right(ps_[-1]) else "?")
            if stored != "left":
                chk.violation("R14.1", "store:%s" % b["path"], "%s stores the result at the %s position, expected the left operand's position" % (b["path"], stored), where)
                ok = False
                break
        # a tracker that is created locally must have a bit per operand of the reduced vector (R14.3)
        if ok:
            t0, p0 = gen[0]
            trk_v = rel.canon([e for e in t0.events if e[0] == "call" and e[1] == TR + "get_previous"][0][2][0])
            lu = loops.loop_unknown(trk_v)
            firsts = [u for u in loops.trips(p0, b["path"], 0) if u.header == t0.header]
            if lu is not None and firsts and lu[1] in firsts[0].pre and not isinstance(_strip_views(firsts[0].pre[lu[1]]), Sym):
                T0 = firsts[0].pre[lu[1]]
                # the reduced vector: the one whose elements at the two positions are taken
                vecs = set()
                for e in t0.events:
                    if e[0] == "call" and e[1] in ("std::mem::replace", "std::mem::take") and e[2]:
                        tgt = rel.canon(e[2][0])
                        if isinstance(tgt, App) and tgt.fn.endswith("index_mut"):
                            r0 = tgt.args[0]
                            while isinstance(r0, App) and r0.fn.startswith("mut:") and r0.args:
                                r0 = rel.canon(r0.args[0])
                            l2 = loops.loop_unknown(r0)
                            if l2 is not None and l2[1] in firsts[0].pre:
                                vecs.add(l2[1])
                good_cap = len(vecs) == 1 and _words_for(T0, firsts[0].pre[next(iter(vecs))])
                if good_cap:
                    chk.ok("R14.3", "%s: local tracker has 1 + len/64 zeroed words for the reduced vector" % b["path"].split("::")[-1], "", where)
                else:
                    chk.violation("R14.3", "capacity:%s" % b["path"], "%s reduces a vector with a locally created tracker %s that is not 1 + len(vector)/64 zeroed words" % (b["path"], rel.cstr(T0)[:100]), where)
        if ok:
            chk.ok("R14.1", "%s: operator i on (i - get_previous(i), i + consume_next(i)), result stored left" % b["path"].split("::")[-1], "%d general trips" % len(gen), where)
    if nred < 2:
        chk.violation("R14.1", "floor", "only %d reduction loop(s) using the tracker analysed, expected eval_binary and the flat->deep converter" % nred)

    # ---------------- R14.3 capacity ---------------------------------------------------------------------
    eb = [p for p, b in fb.bodies.items() if p.endswith("expression::eval_binary")]
    ncall = 0
    for p_, b in fb.bodies.items():
        sites = [(bi, t) for bi, t in mir.calls(b) if eb and mir.callee_path(t) == eb[0]]
        if not sites:
            continue
        args = [Sym("p%d" % i) for i in range(1, b["arg_count"] + 1)]
        for p in Interp(fb, _P()).run(b, args):
            if p.status != "return":
                continue
            for e in p.events:
                if e[0] == "call" and e[1] == eb[0]:
                    ncall += 1
                    nums, trk = rel.canon(e[2][0]), rel.canon(e[2][3])
                    s_tr = rel.cstr(trk)
                    lens = [rel.cstr(a) for a, op, bb in rel.Facts(p).rel for a in (a, bb) if "::len(" in rel.cstr(a)]
                    F = rel.Facts(p)
                    if rel.const_int(trk) == 0:
                        # single word: a dominating `len <= 64`
                        def word_bits(x):
                            x = rel.canon(x)
                            if rel.const_int(x) is not None:
                                return rel.const_int(x)
                            if isinstance(x, App) and x.fn.endswith("::max_len") and len(x.args) == 1 and rel.const_int(x.args[0]) == 0:
                                return W        # usize::max_len, R14.4
                            return None
                        okc = False
                        for a, op, bb in F.rel:
                            if _is_len_of(a, nums) and word_bits(bb) is not None:
                                if (op == "<=" and word_bits(bb) <= W) or (op == "<" and word_bits(bb) <= W + 1):
                                    okc = True
                        if okc:
                            chk.ok("R14.3", "%s: one-word tracker only under len <= 64" % p_.split("::")[-1], "", loc(e[3]))
                        else:
                            chk.violation("R14.3", "capacity:%s" % p_, "%s evaluates with a one-word tracker without a dominating `number of operands <= 64` test" % p_, loc(e[3]))
                    elif _words_for(trk, nums):
                        chk.ok("R14.3", "%s: 1 + len/64 zeroed words for the numbers that are reduced" % p_.split("::")[-1], "", loc(e[3]))
                    else:
                        chk.violation("R14.3", "capacity:%s" % p_, "%s: tracker %s is neither a guarded single zero word nor 1 + len/64 zeroed words" % (p_, s_tr[:120]), loc(e[3]))
    if ncall < 2:
        chk.violation("R14.3", "floor", "only %d call(s) of eval_binary analysed" % ncall)
