"""C13 — Operator names match exactly; signs disambiguate by the token on the left."""
import itertools
import re

from analysis import mir, order
from analysis.facts import loc
from analysis.interp import Interp, Policy, Sym, App, Const, Closure, Variant, Tup, Unknown, show

LEVEL = "other"
TECHNIQUE = "DECIDE: complete decision tables of the operator-match predicate and of the unary/binary disambiguation extracted by abstract interpretation and compared with the documented boolean functions; ORDER: direction/key of the operator-list sort feeding a first-match search; relation between the two identifier regexes"
EXPLANATION = (
    "Decides, for every text, offset and operator table: (R13.1) the predicate that selects an operator at an offset is exactly "
    "`slice available AND name equal AND (has a binary role OR match ends the text OR the match extended by the next character is "
    "not an identifier)`; (R13.2) the operator list is sorted by name in descending order before the first-match search, which "
    "puts every name before each of its proper prefixes (log10, log2 before log; <= before <); (R13.3) an operator with both roles "
    "is binary iff the token on its left is a number, a variable or a closing parenthesis, a binary-only operator after an operator "
    "is an error, everything else is unary; (R13.4) the look-ahead regex is the variable regex anchored at the end. "
    "Not decided: the number recogniser (arithmetic over character counts), brace tokenisation, the regex engine."
)
TRUSTED = ["regex crate", "std: str::get, slice sort, Iterator::find return the first match", "rustc MIR construction", "exporter faithfulness"]

OPT = "std::option::Option"
TOK = "parser::ParsedToken"


class _P(Policy):
    max_depth = 5

    def inline(self, fn, args, interp, path):
        return fn["name"] in ("eq", "ne")


class _NoInline(Policy):
    """Helpers of the parser module are inlined (a predicate may be moved into a function); the rule's vocabulary
    (next_char_boundary, Operator accessors) stays opaque."""
    max_depth = 5

    def inline(self, fn, args, interp, path):
        return fn.get("path", "").startswith("parser::") and fn.get("name") not in ("next_char_boundary", "tokenize_and_analyze",
                                                                                  "is_operator_binary", "find_parsed_token")


def run(ctx):
    chk, fb = ctx.check, ctx.fb
    # independent of the tokenizer's shape: decided first, so that an unrecognised tokenizer cannot hide them
    number_literal(chk, fb)
    boundary_helper(chk, fb)
    chk.rule("R13.1", "operator match predicate = available AND equal AND (binary OR at_end OR NOT identifier-continued)")
    chk.rule("R13.2", "operator list sorted by name descending before a first-match search")
    chk.rule("R13.3", "is_operator_binary: both roles -> binary iff left in {Num, Var, ')'}; binary-only -> Err after Op else binary; otherwise unary")
    chk.rule("R13.5", "a variable token is named by exactly the matched identifier, resp. exactly the text between the braces")
    chk.rule("R13.4", "exact-match look-ahead regex = variable-name regex + '$', both anchored at the start")

    # ---------------- R13.3 ------------------------------------------------------
    iob = fb.one_body(lambda b: b["kind"] == "Fn" and b["path"].endswith("parser::is_operator_binary"), "is_operator_binary")

    def tok(v, payload=None):
        return Variant(TOK, v, {"0": payload if payload is not None else Sym("x")})
    lefts = {
        "none": Variant(OPT, "None", {}),
        "Num": Variant(OPT, "Some", {"0": tok("Num")}),
        "Var": Variant(OPT, "Some", {"0": tok("Var")}),
        "(": Variant(OPT, "Some", {"0": tok("Paren", Variant("parser::Paren", "Open", {}))}),
        ")": Variant(OPT, "Some", {"0": tok("Paren", Variant("parser::Paren", "Close", {}))}),
        "Op": Variant(OPT, "Some", {"0": tok("Op")}),
    }
    ncase = 0
    for lname, lv in lefts.items():
        ps = Interp(fb, _P()).run(iob, [Sym("op"), lv])
        seen = {}
        for p in ps:
            if p.status != "return":
                chk.unrecognised("R13.3", "shape:%s" % lname, "%s %s" % (p.status, p.note), loc(iob["span"]))
                continue
            hb = hu = None
            bad = False
            for d in p.decisions:
                s = show(d[1])
                if re.search(r"::has_bin\(op\)$", s):
                    hb = d[2]
                elif re.search(r"::has_unary\(op\)$", s):
                    hu = d[2]
                else:
                    chk.unrecognised("R13.3", "cond:%s" % lname, "decision on an unrecognised condition %s" % s[:120], loc(d[3]))
                    bad = True
            if bad:
                continue
            r = p.result
            out = None
            if isinstance(r, Variant) and r.variant == "Ok":
                v = r.fields.get("0")
                if isinstance(v, Const) and v.bits is not None:
                    out = bool(v.bits)
                else:
                    out = "?" + show(v)[:80]
            elif isinstance(r, Variant) and r.variant == "Err":
                out = "Err"
            for hbv in ([hb] if hb is not None else [True, False]):
                for huv in ([hu] if hu is not None else [True, False]):
                    seen[(hbv, huv)] = out
        for (hbv, huv), out in sorted(seen.items()):
            ncase += 1
            if hbv and huv:
                exp = lname in ("Num", "Var", ")")
            elif hbv and not huv:
                exp = "Err" if lname == "Op" else True
            else:
                exp = False
            key = "case:has_bin=%s,has_unary=%s,left=%s" % (hbv, huv, lname)
            if out == exp:
                chk.ok("R13.3", key, "-> %s" % out, loc(iob["span"]))
                if ncase % 5 == 0:
                    chk.sample({"has_bin": hbv, "has_unary": huv, "left": lname, "is_binary": out})
            else:
                chk.violation("R13.3", key, "operator with has_bin=%s, has_unary=%s after %s is classified %s, documented: %s" % (hbv, huv, lname, out, exp), loc(iob["span"]))
    chk.floor("R13.3", "abstract cases", ncase, 24)

    # ---------------- tokenizer closures ------------------------------------------
    tk = fb.one_body(lambda b: b["kind"] == "Fn" and b["path"].endswith("parser::tokenize_and_analyze"), "tokenize_and_analyze")
    closures, tkpaths = order.closures_created(fb, tk, [Sym("text"), Sym("ops_in"), Sym("is_numeric")])
    # the code that searches the operator list: a closure of the tokenizer that captures the sorted list and calls Iterator::find,
    # or a private function of the parser that is handed the list
    finder = None
    fbody, fargs = None, None
    for cp, cv in closures.items():
        b = fb.bodies[cp]
        if any(mir.callee_path(t) == "std::iter::Iterator::find" for _, t in mir.calls(b)):
            finder = cv
            fbody, fargs = b, [cv, Sym("off")]
    if finder is None:
        for p_ in tkpaths:
            for e in p_.events:
                if e[0] != "call" or not e[1].startswith("parser::") or e[1] not in fb.bodies or fbody is not None:
                    continue
                hb = fb.bodies[e[1]]
                if hb["arg_count"] != len(e[2]) or not any(mir.callee_path(t) == "std::iter::Iterator::find" for _, t in mir.calls(hb)):
                    continue
                if not any(re.match(r"^&('\w+ )?str$", hb["locals"][i_]["ty"]) for i_ in range(1, hb["arg_count"] + 1)) or \
                        not any("operators::Operator<" in hb["locals"][i_]["ty"] for i_ in range(1, hb["arg_count"] + 1)):
                    continue        # the operator search looks at the text and at the operator list
                args_ = []
                for i_, a_ in enumerate(e[2], 1):
                    ty_ = hb["locals"][i_]["ty"]
                    args_.append(Sym("text") if re.match(r"^&('\w+ )?str$", ty_) else Sym("off") if ty_ == "usize" else a_)
                fbody, fargs = hb, args_
    if fbody is None:
        chk.violation("R13.2", "anchor:finder", "no closure / private function searching the operator list with Iterator::find in the tokenizer")
        return
    fspan = loc(fbody["span"])
    ps = [p_ for p_ in Interp(fb, _NoInline()).run(fbody, fargs) if p_.status != "unreachable"]
    if len(ps) != 1 or ps[0].status != "return":
        chk.unrecognised("R13.2", "finder", "operator search is not a single find(..)", fspan)
        return
    res = ps[0].result
    if not (isinstance(res, App) and res.fn == "std::iter::Iterator::find" and len(res.args) == 2):
        chk.unrecognised("R13.2", "finder", "operator search result is not Iterator::find(list, predicate): %s" % show(res)[:120], fspan)
        return
    src, pred = res.args
    # the sorted list may come out of a private helper (`let ops = sort_ops(ops_in)`): look through it
    for _ in range(3):
        inner = src.args[0] if isinstance(src, App) and src.fn == "core::slice::<impl [T]>::iter" and len(src.args) == 1 else None
        hb = fb.bodies.get(inner.fn) if isinstance(inner, App) else None
        if hb is None or hb["arg_count"] != len(inner.args):
            break
        hps = [p for p in Interp(fb, _NoInline()).run(hb, list(inner.args)) if p.status != "unreachable"]
        if len(hps) != 1 or hps[0].status != "return":
            break
        src = App(src.fn, [hps[0].result])
    s_src = show(src)
    m = re.match(r"^core::slice::<impl \[T\]>::iter\(mut:(core|std)::slice::<impl \[T\]>::(sort\w*)\((.*)\)\)$", s_src)
    if not m:
        chk.violation("R13.2", "unsorted", "the list searched for operators is not the result of a sort: %s" % s_src[:160], fspan)
    else:
        meth = m.group(2)
        comp = None
        if isinstance(src, App) and src.args and isinstance(src.args[0], App):
            for a in src.args[0].args:
                if isinstance(a, Closure):
                    comp = a
        if meth in ("sort", "sort_unstable"):
            chk.violation("R13.2", "direction", "operator list sorted ascending (natural order): a name would be tried before its longer extensions", loc(tk["span"]))
        elif comp is None:
            chk.unrecognised("R13.2", "comparator", "cannot find the comparator of %s" % meth, loc(tk["span"]))
        else:
            c = order.comparator(fb, comp)
            if "error" in c:
                chk.unrecognised("R13.2", "comparator", c["error"], loc(fb.bodies[comp.path]["span"]))
            elif not re.search(r"Operator::<'a, T>::repr\(", c["key"]):
                chk.violation("R13.2", "key", "operator list is not sorted by operator name: key %s" % c["key"][:100], loc(fb.bodies[comp.path]["span"]))
            elif c["direction"] != "desc":
                chk.violation("R13.2", "direction", "operator list sorted by name ascending: `log` would be matched before `log10`, `<` before `<=`", loc(fb.bodies[comp.path]["span"]))
            else:
                chk.ok("R13.2", "operator list sorted by name, descending (%s)" % meth, c["key"][:80], loc(fb.bodies[comp.path]["span"]))
                chk.sample({"sort": meth, "key": c["key"], "direction": "desc"})

    # ---------------- R13.1 predicate decision table --------------------------------
    if not isinstance(pred, Closure) or pred.path not in fb.bodies:
        chk.unrecognised("R13.1", "predicate", "find predicate is not a local closure", loc(tk["span"]))
        return
    pb = fb.bodies[pred.path]
    ps = Interp(fb, _NoInline()).run(pb, [pred, Tup([Sym("idx"), Sym("op")])])
    REPR = r"operators::Operator::<'a, T>::repr\(op\)"
    END = r"binop:Add\(off, core::str::<impl str>::len\(%s\)\)" % REPR
    GET = r"core::str::<impl str>::get\(text, Range\{start: off, end: %s\}\)" % END
    atoms = ["AVAIL", "EQ", "BIN", "END", "CONT"]

    def classify(cond, label):
        s = show(cond)
        if re.match(r"^discr\(%s\)$" % GET, s):
            return "AVAIL", label == "Some"
        if re.match(r"^std::cmp::PartialEq::eq\(%s, \.0\(as:Some\(%s\)\)\)$" % (REPR, GET), s) or \
                re.match(r"^std::cmp::PartialEq::eq\(\.0\(as:Some\(%s\)\), %s\)$" % (GET, REPR), s):
            return "EQ", label is True
        if re.match(r"^std::cmp::PartialEq::ne\(%s, \.0\(as:Some\(%s\)\)\)$" % (REPR, GET), s) or \
                re.match(r"^std::cmp::PartialEq::ne\(\.0\(as:Some\(%s\)\), %s\)$" % (GET, REPR), s):
            return "EQ", label is False
        if re.match(r"^operators::Operator::<'a, T>::has_bin\(op\)$", s):
            return "BIN", label is True
        if re.match(r"^binop:Ge\(%s, core::str::<impl str>::len\(text\)\)$" % END, s):
            return "END", label is True
        if re.match(r"^binop:Lt\(%s, core::str::<impl str>::len\(text\)\)$" % END, s):
            return "END", label is False
        return None

    def ref(a):
        return a["AVAIL"] and a["EQ"] and (a["BIN"] or a["END"] or not a["CONT"])
    CONT_RX = re.compile(
        r"^regex::Regex::is_match\(.*RE_VAR_NAME_EXACT.*, std::ops::Index::index\(text, Range\{start: off, end: binop:Add\(%s, parser::next_char_boundary\(text, %s\)\)\}\)\)$" % (END, END))
    ok_all = True
    npaths = 0
    for p in ps:
        if p.status == "unreachable":
            continue
        if p.status != "return":
            chk.unrecognised("R13.1", "shape", "%s %s" % (p.status, p.note), loc(pb["span"]))
            ok_all = False
            continue
        npaths += 1
        assign = {}
        bad = False
        for d in p.decisions:
            c = classify(d[1], d[2])
            if c is None:
                chk.unrecognised("R13.1", "cond", "operator match depends on an unrecognised condition: %s" % show(d[1])[:160], loc(d[3]))
                bad = True
                break
            assign[c[0]] = c[1]
        if bad:
            ok_all = False
            continue
        r = p.result
        if isinstance(r, Const) and r.bits is not None:
            out = lambda a, v=bool(r.bits): v
        elif isinstance(r, App) and r.fn == "unop:Not" and CONT_RX.match(show(r.args[0])):
            out = lambda a: not a["CONT"]
        elif isinstance(r, App) and CONT_RX.match(show(r)):
            out = lambda a: a["CONT"]
        else:
            chk.unrecognised("R13.1", "result", "match result not recognised: %s" % show(r)[:200], loc(pb["span"]))
            ok_all = False
            continue
        free = [x for x in atoms if x not in assign]
        for vals in itertools.product([False, True], repeat=len(free)):
            full = dict(assign)
            full.update(zip(free, vals))
            if ref(full) != out(full):
                chk.violation("R13.1", "table", "operator match differs from the documented rule: with %s the predicate yields %s, documented %s" % (
                    full, out(full), ref(full)), loc(pb["span"]))
                ok_all = False
                break
    if ok_all and npaths >= 4:
        chk.ok("R13.1", "operator match decision table equals the reference (%d paths)" % npaths, "", loc(pb["span"]))
        chk.sample({"predicate": pred.path, "paths": npaths, "rule": "AVAIL & EQ & (BIN | END | !CONT)"})
    elif ok_all:
        chk.unrecognised("R13.1", "paths", "only %d paths through the match predicate" % npaths, loc(pb["span"]))

    # ---------------- R13.4 regexes -----------------------------------------------------
    pats = {}
    for p, b in fb.bodies.items():
        # the initialiser of the static regex: lazy_static's `__static_ref_initialize`, or the closure of a LazyLock / OnceLock
        if "parser::" in p and "RE_VAR_NAME" in p and "is_literal" not in p:
            for _, t in mir.calls(b):
                if mir.callee_path(t) == "regex::Regex::new" and t["args"]:
                    c = mir.trace_const(b, t["args"][0])
                    if c is not None and c.get("str") is not None:
                        nm = "EXACT" if "RE_VAR_NAME_EXACT" in p else "NAME"
                        pats[nm] = (c["str"], loc(t["span"]))
    if set(pats) != {"EXACT", "NAME"}:
        chk.violation("R13.4", "anchor", "variable-name regexes not found (%s)" % sorted(pats))
    else:
        n, e = pats["NAME"][0], pats["EXACT"][0]
        if n.startswith("^") and e == n + "$":
            chk.ok("R13.4", "look-ahead regex is the variable regex anchored at the end", "%r / %r" % (n, e), pats["EXACT"][1])
        else:
            chk.violation("R13.4", "regex-relation", "look-ahead regex %r is not the variable regex %r anchored at both ends: identifiers and operator names would be delimited differently" % (e, n), pats["EXACT"][1])

    # ---- R13.5 variable names are taken verbatim
    from analysis import dom as _dom
    org = _dom.Origins(tk)
    nvar = 0
    for bi, si, st in mir.iter_stmts(tk, mir.normal_blocks(tk)):
        if st["k"] == "assign" and st["rv"]["k"] == "aggregate" and st["rv"].get("variant") == "Var" and (st["rv"].get("adt") or "").endswith("ParsedToken"):
            term = org.op_term(st["rv"]["ops"][0])
            nvar += 1
            # the scan moved into a private function that is handed the rest of the text and returns (name, length): read the
            # name from the function's own return value, with the rest of the text put in for its parameter
            mh_ = re.match(r"^(parser::\w+)\((std::ops::Index::index\(param:\w+, std::ops::RangeFrom::RangeFrom\{.*\}\))\)\.(\d)$", term)
            hb_ = fb.bodies.get(mh_.group(1)) if mh_ else None
            if hb_ is not None and hb_["kind"] == "Fn" and not hb_.get("public") and hb_["arg_count"] == 1 and hb_["locals"][1]["ty"] == "&str":
                ht_ = _dom.Origins(hb_).def_term(0) or ""
                if ht_.startswith("tuple{") and ht_.endswith("}"):
                    parts_, depth_, cur_ = [], 0, ""
                    for ch_ in ht_[6:-1]:
                        if ch_ in "({[":
                            depth_ += 1
                        elif ch_ in ")}]":
                            depth_ -= 1
                        if ch_ == "," and depth_ == 0:
                            parts_.append(cur_.strip())
                            cur_ = ""
                        else:
                            cur_ += ch_
                    parts_.append(cur_.strip())
                    if int(mh_.group(3)) < len(parts_):
                        term = parts_[int(mh_.group(3))].replace("param:%s" % hb_["locals"][1].get("name"), mh_.group(2))
            # the rest of the text from the current position (the start offset itself is not decided here)
            tm = _dom.parse_term(term)

            def is_rest(x):
                return isinstance(x, tuple) and x[0] == "std::ops::Index::index" and len(x[1]) == 2 and isinstance(x[1][0], str) and x[1][0].startswith("param:") \
                    and _dom.unparse_term(x[1][1]).startswith("std::ops::RangeFrom::RangeFrom{")

            def brace_end(n, rest):
                """accepted spellings of `offset of the closing brace in rest (or its end)`"""
                # (temporaries of one and the same definition may be rendered under different names at depth)
                anon = lambda z: re.sub(r"var:[\w#]+", "var:*", z)
                s, r = anon(_dom.unparse_term(n)), re.escape(anon(_dom.unparse_term(rest)))
                if re.match(r"^std::iter::Iterator::sum\(std::iter::Iterator::map\(std::iter::Iterator::take_while\(core::str::<impl str>::chars\(%s\), .*\)\)$" % r, s):
                    return True
                if re.match(r"^std::option::Option::<T>::unwrap_or\(core::str::<impl str>::find\(%s, '\}'\), core::str::<impl str>::len\(%s\)\)$" % (r, r), s):
                    return True
                return False
            bare = brace = False
            if isinstance(tm, tuple) and tm[0] == "regex::Match::<'h>::as_str" and len(tm[1]) == 1:
                m_ = re.match(r"^\(regex::Regex::find\((.*RE_VAR_NAME\}?\)*), (std::ops::Index::index\(.*\))\) as Some\)\.0$", _dom.unparse_term(tm[1][0]))
                if m_ and "RE_VAR_NAME_EXACT" not in m_.group(1) and is_rest(_dom.parse_term(m_.group(2))):
                    bare = True
            if isinstance(tm, tuple) and tm[0] == "std::ops::Index::index" and len(tm[1]) == 2 and is_rest(tm[1][0]):
                m_ = re.match(r"^std::ops::Range::Range\{1_usize, (.*)\}$", _dom.unparse_term(tm[1][1]))
                if m_ and brace_end(_dom.parse_term(m_.group(1)), tm[1][0]):
                    brace = True
            if bare:
                chk.ok("R13.5", "bare variable = the regex match", "", loc(st["span"]))
            elif brace:
                chk.ok("R13.5", "braced variable = text between the braces", "", loc(st["span"]))
            else:
                chk.violation("R13.5", "var-name:%d" % nvar, "a variable token is not named by exactly the matched text: %s" % term[:200], loc(st["span"]))
    chk.floor("R13.5", "variable token sites", nvar, 2)


def number_literal(chk, fb, RID="R13.6"):
    """R13.6: the default number literal.  The documented grammar: the longest prefix of ASCII digits and dots is a number if it
    has at least one digit-or-dot... precisely: n = length of the prefix of characters that are ASCII digits or '.', d = number of
    dots in it; literal iff (n > 1 and d < 2) or (n == 1 and d == 0); the literal is exactly that prefix.  NumberMatcher (the
    default literal matcher) returns exactly this function's answer."""
    from analysis import rel
    chk.rule(RID, "number literal: prefix of ASCII digits and dots of length n with d dots is a literal iff (n > 1 and d < 2) or (n == 1 and d == 0), and is exactly text[0..n]; NumberMatcher::is_literal returns it unchanged")

    class P(Policy):
        max_depth = 3

        def inline(self, fn, args, interp, path):
            return False

        def inline_closure(self, cp, args, interp, path):
            return False
    nt = fb.find_bodies(lambda b: b["kind"] == "Fn" and b["path"] == "parser::is_numeric_text")
    if len(nt) != 1:
        chk.violation(RID, "anchor", "parser::is_numeric_text not found")
        return
    b = nt[0]
    where = loc(b["span"])
    ps = [p for p in Interp(fb, P()).run(b, [Sym("text")]) if p.status != "unreachable"]
    loop_form = None
    if any(p.status == "unrecognised" and "revisited" in (p.note or "") for p in ps):
        # the prefix scan written as a loop over the characters with two counters
        loop_form = _numeric_loop(fb, b)
        if isinstance(loop_form, str):
            chk.unrecognised(RID, "shape", "is_numeric_text: the scan loop is not `count the leading ASCII digits / dots, count the dots`: %s" % loop_form, where)
            return
        ps = loop_form["paths"]
    if any(p.status != "return" for p in ps):
        chk.unrecognised(RID, "shape", "is_numeric_text: %s" % [(p.status, p.note) for p in ps if p.status != "return"][:2], where)
        return

    def ref(n, d):
        return (n > 1 and d < 2) or (n == 1 and d == 0)
    GRID = [(n, d) for n in range(0, 6) for d in range(0, 6) if d <= n]
    covered = set()
    pred = None
    bad = None
    for p in ps:
        F = rel.Facts(p)
        for e in p.events:
            if e[0] == "closure":
                pred = pred or e[1]
        r = p.result
        some = isinstance(r, Variant) and r.variant == "Some"
        if some:
            pay = rel.cstr(r.fields.get("0"))
            if loop_form is not None:
                if pay != "std::ops::Index::index(text, Range{start: 0_usize, end: %s})" % loop_form["N"]:
                    bad = bad or ("the literal is not text[0..n]: %s" % pay[:140])
            elif not re.match(r"^std::ops::Index::index\(text, Range\{start: 0_usize, end: std::iter::Iterator::count\(std::iter::Iterator::take_while\(core::str::<impl str>::chars\(text\), closure<\{closure#\d+\}>\)\)\}\)$", pay):
                bad = bad or ("the literal is not text[0..n]: %s" % pay[:140])
        elif not (isinstance(r, Variant) and r.variant == "None"):
            bad = bad or ("result is %s" % show(r)[:80])
            continue

        def val(t, n, d):
            c = rel.const_int(t)
            if c is not None:
                return c
            s = rel.cstr(t)
            if loop_form is not None:
                return n if s == loop_form["N"] else d if s == loop_form["D"] else None
            if s.startswith("std::iter::Iterator::count(std::iter::Iterator::take_while("):
                return n
            if s.startswith("mut:std::iter::Iterator::take_while(0_"):
                return d
            return None
        grid_here = GRID
        if loop_form is not None and id(p) in loop_form["concrete"]:
            grid_here = [(0, 0)]        # the scan ended before any character was counted
        for n, d in grid_here:
            sat = True
            for a, op, c in F.rel:
                if loop_form is not None and ("Iterator::next(" in rel.cstr(a) or "Iterator::next(" in rel.cstr(c)):
                    continue        # a decision about a single character inside the scan loop (judged with the loop)
                x, y = val(a, n, d), val(c, n, d)
                if x is None or y is None:
                    bad = bad or ("a decision compares an unrecognised quantity: %s %s %s" % (rel.cstr(a)[:60], op, rel.cstr(c)[:60]))
                    continue
                if not {"<": x < y, "<=": x <= y, "==": x == y, "!=": x != y}[op]:
                    sat = False
            if sat:
                covered.add((n, d))
                if some != ref(n, d):
                    bad = bad or ("a prefix of %d digit/dot characters with %d dot(s) is %s as a number, documented: %s" % (n, d, "accepted" if some else "rejected", "accepted" if ref(n, d) else "rejected"))
    if not bad and covered != set(GRID):
        bad = "decision table incomplete: %s not covered" % sorted(set(GRID) - covered)[:4]
    # the prefix predicate: digit or dot, dots counted
    okp = False
    if loop_form is not None:
        okp = True      # checked with the loop
    elif pred is not None and pred.path in fb.bodies:
        env = Closure(pred.path, {k: Sym("DOTS") for k in pred.caps})
        qs = [q for q in Interp(fb, P()).run(fb.bodies[pred.path], [env, Sym("c")]) if q.status != "unreachable"]
        okp = bool(qs) and all(q.status == "return" for q in qs)
        for q in qs:
            if q.status != "return":
                continue
            isdot = isdig = None
            for d in q.decisions:
                s = show(d[1])
                if re.match(r"^binop:Eq\(c, '\.'\)$|^binop:Eq\('\.', c\)$", s):
                    isdot = bool(d[2])
                elif s == "std::char::methods::<impl char>::is_ascii_digit(c)":
                    isdig = bool(d[2])
                else:
                    okp = False
            res = q.result
            rs = show(res)
            wr = [(show(w[1]), show(w[3])) for w in q.events if w[0] == "write_opaque"]
            for vd in ([isdot] if isdot is not None else [True, False]):
                for vg in ([isdig] if isdig is not None else [True, False]):
                    if rs in ("true", "bool:1"):
                        out = True
                    elif rs in ("false", "bool:0"):
                        out = False
                    elif re.match(r"^binop:Eq\(c, '\.'\)$", rs):
                        out = vd
                    elif rs == "std::char::methods::<impl char>::is_ascii_digit(c)":
                        out = vg
                    else:
                        okp = False
                        continue
                    if out != (vd or vg):
                        okp = False
            if isdot is None:
                okp = False
            elif isdot and wr != [("DOTS", "binop:Add(DOTS, 1_i32)")] and not (len(wr) == 1 and wr[0][0] == "DOTS" and re.match(r"^binop:Add\(DOTS, 1_\w+\)$", wr[0][1])):
                okp = False
            elif not isdot and wr:
                okp = False
    if bad:
        chk.violation(RID, "grammar", "is_numeric_text: %s" % bad, where)
    elif not okp:
        chk.violation(RID, "prefix", "is_numeric_text: the scanned prefix is not `ASCII digit or '.'` with the dots counted once each", where)
    else:
        chk.ok(RID, "number literal grammar", "%d (n, d) cases" % len(GRID), where)
    # the default matcher is this function
    nm = fb.find_bodies(lambda b: b["kind"] == "AssocFn" and b.get("name") == "is_literal" and "NumberMatcher" in (b.get("impl_self_ty") or ""))
    if len(nm) != 1:
        chk.violation(RID, "anchor:matcher", "NumberMatcher::is_literal not found")
        return
    qs = [q for q in Interp(fb, P()).run(nm[0], [Sym("text")]) if q.status != "unreachable"]
    if len(qs) == 1 and qs[0].status == "return" and show(qs[0].result) == "parser::is_numeric_text(text)":
        chk.ok(RID, "NumberMatcher::is_literal = is_numeric_text", "", loc(nm[0]["span"]))
    else:
        chk.violation(RID, "matcher", "NumberMatcher::is_literal does not return is_numeric_text(text) unchanged: %s" % [show(q.result)[:100] if q.result is not None else q.status for q in qs][:3], loc(nm[0]["span"]))


def _numeric_loop(fb, b):
    """is_numeric_text with an explicit loop: `for c in text.chars() { if c == '.' { d += 1 } else if !c.is_ascii_digit() { break } n += 1 }`.
    Every completed trip has counted a digit or a dot (n + 1; d + 1 exactly for a dot), every trip that leaves the loop saw neither;
    both counters start at 0.  Returns {"paths", "N", "D", "concrete"} or a reason."""
    from analysis import rel, loops

    class PW(Policy):
        loop_mode = "widen"
        max_depth = 3

        def inline(self, fn, args, interp, path):
            return False

        def inline_closure(self, cp, args, interp, path):
            return False
    allp = Interp(fb, PW()).run(b, [Sym("text")])
    if any(p.status not in ("return", "loop-pruned", "unreachable") for p in allp):
        return "shape"
    H = it = None
    init = {}
    for p in allp:
        for t in loops.trips(p, b["path"], 0):
            if t.general:
                continue
            for k, v in t.pre.items():
                if rel.cstr(v) in ("std::iter::IntoIterator::into_iter(core::str::<impl str>::chars(text))", "core::str::<impl str>::chars(text)"):
                    H, it = t.header, k
                    init = t.pre
    if H is None:
        return "no loop over text.chars()"
    N = D = None
    for p in allp:
        for t in loops.trips(p, b["path"], 0):
            if t.header != H or not t.general:
                continue
            X = rel.cstr(t.pre[it])
            item = ".0(as:Some(std::iter::Iterator::next(%s)))" % X
            isdot = isdig = None
            ended = False
            for d in t.decisions:
                s = rel.cstr(d[1])
                if s == "discr(std::iter::Iterator::next(%s))" % X:
                    ended = d[2] == "None"
                elif s in ("binop:Eq(%s, '.')" % item, "binop:Eq('.', %s)" % item):
                    isdot = bool(d[2])
                elif s == "std::char::methods::<impl char>::is_ascii_digit(%s)" % item:
                    isdig = bool(d[2])
                elif X in s or item in s:
                    return "a step of the scan depends on %s" % s[:80]
            if ended:
                continue
            counted = isdot is True or isdig is True
            if t.post is None:
                # leaves the loop inside the trip (break): the character is neither a digit nor a dot
                if counted or isdot is None or isdig is None:
                    return "the scan stops at a character that is a digit or a dot (or without looking at it)"
                continue
            if not counted:
                return "a character that is neither a digit nor a dot is counted"
            inc = [L for L, v in t.pre.items() if isinstance(v, Unknown) and L in t.post and rel.cstr(t.post[L]) in ("binop:Add(%s, 1_usize)" % rel.cstr(v), "binop:Add(%s, 1_i32)" % rel.cstr(v), "binop:Add(%s, 1_u32)" % rel.cstr(v))]
            if isdot:
                if len(inc) != 2:
                    return "a dot does not increase both counters by one"
            else:
                if len(inc) != 1:
                    return "a digit does not increase exactly the length counter"
                N = rel.cstr(t.pre[inc[0]])
                Nl = inc[0]
            if isdot and N is not None:
                other = [L for L in inc if rel.cstr(t.pre[L]) != N]
                if len(other) == 1:
                    D = rel.cstr(t.pre[other[0]])
                    Dl = other[0]
    if N is None or D is None:
        # a second pass for the dot trips seen before the digit trip
        for p in allp:
            for t in loops.trips(p, b["path"], 0):
                if t.header == H and t.general and t.post is not None and N is not None and D is None:
                    inc = [L for L, v in t.pre.items() if isinstance(v, Unknown) and L in t.post and rel.cstr(t.post[L]).startswith("binop:Add(%s, 1_" % rel.cstr(v))]
                    other = [L for L in inc if rel.cstr(t.pre[L]) != N]
                    if len(inc) == 2 and len(other) == 1:
                        D = rel.cstr(t.pre[other[0]])
                        Dl = other[0]
    if N is None or D is None:
        return "length / dot counters not identified"
    if rel.const_int(init.get(Nl)) != 0 or rel.const_int(init.get(Dl)) != 0:
        return "the counters do not start at 0"
    rets = [p for p in allp if p.status == "return"]
    concrete = set()
    for p in rets:
        txt = " ".join(rel.cstr(d[1]) for d in p.decisions) + " " + rel.cstr(p.result)
        if N not in txt and D not in txt:
            concrete.add(id(p))
    return {"paths": rets, "N": N, "D": D, "concrete": concrete}


def boundary_helper(chk, fb, RID="R13.7"):
    """R13.7: the helper that tells the tokenizer how far the next character reaches returns, on every path, a distance to a
    character boundary of the text: the index found by a search for `is_char_boundary(start + i)`, an index handed out by
    char_indices minus the start, the text length minus the start, or a len_utf8.  A constant fallback lands inside a multi-byte
    character (the tokenizer then slices the text there)."""
    from analysis import rel
    chk.rule(RID, "next_char_boundary returns a distance to a character boundary on every path (found by is_char_boundary / char_indices / len / len_utf8), never a constant")
    nb = fb.find_bodies(lambda b: b["kind"] == "Fn" and b["path"] == "parser::next_char_boundary")
    if len(nb) != 1:
        chk.violation(RID, "anchor", "parser::next_char_boundary not found")
        return
    b = nb[0]
    names = [b["locals"][i].get("name") or "a%d" % i for i in range(1, b["arg_count"] + 1)]
    tname = next((n for i, n in enumerate(names, 1) if "str" in b["locals"][i]["ty"]), names[0])
    sname = next((n for i, n in enumerate(names, 1) if b["locals"][i]["ty"] == "usize"), names[-1])

    class P(Policy):
        max_depth = 3

        def inline(self, fn, args, interp, path):
            return False

        def inline_closure(self, cp, args, interp, path):
            return False
    ps = [p for p in Interp(fb, P()).run(b, [Sym(n) for n in names]) if p.status != "unreachable"]

    def pred_is_boundary(c):
        cb = fb.bodies.get(c.path)
        if cb is None:
            return False
        env = Closure(c.path, {k: (v if isinstance(v, Sym) else Sym(k)) for k, v in c.caps.items()})
        qs = [q for q in Interp(fb, P()).run(cb, [env, Sym("i")]) if q.status != "unreachable"]
        return len(qs) == 1 and qs[0].status == "return" and re.match(
            r"^core::str::<impl str>::is_char_boundary\(%s, (std::ops::Add::add|binop:Add)\((%s, i|i, %s)\)\)$" % (re.escape(tname), re.escape(sname), re.escape(sname)), show(qs[0].result)) is not None

    def boundary(v, depth=0):
        v = rel.canon(v)
        if depth > 6 or not isinstance(v, App):
            return False
        s = rel.cstr(v)
        if v.fn.endswith("len_utf8"):
            return True
        if v.fn in ("std::option::Option::<T>::expect", "std::option::Option::<T>::unwrap") and v.args:
            return found(v.args[0])
        if v.fn == ".0" and isinstance(v.args[0], App) and v.args[0].fn == "as:Some":
            return found(v.args[0].args[0])
        if v.fn in ("binop:Sub", "std::ops::Sub::sub") and len(v.args) == 2 and rel.cstr(v.args[1]) == sname:
            x = rel.cstr(v.args[0])
            return x == "core::str::<impl str>::len(%s)" % tname or "char_indices(%s)" % tname in x
        return False

    def found(o):
        o = rel.canon(o)
        return isinstance(o, App) and o.fn == "std::iter::Iterator::find" and len(o.args) == 2 and isinstance(o.args[1], Closure) and pred_is_boundary(o.args[1])
    bad = [p for p in ps if p.status != "return" or not boundary(p.result)]
    if not ps:
        chk.unrecognised(RID, "shape", "no path through next_char_boundary", loc(b["span"]))
    elif bad:
        chk.violation(RID, "offset", "next_char_boundary can return %s, which need not be the distance to the next character boundary" % (
            show(bad[0].result)[:120] if bad[0].result is not None else bad[0].status), loc(b["span"]))
    else:
        chk.ok(RID, "boundary offsets", "%d path(s)" % len(ps), loc(b["span"]))
