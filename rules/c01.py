"""C01 — Evaluation follows the documented operator semantics (structural clauses)."""
import itertools
import re

from analysis import mir, order, tables, rel
from analysis.facts import loc, AnchorError
from analysis.interp import Interp, Policy, Sym, App, Const, Closure, Variant, show

LEVEL = "other"
TECHNIQUE = "ORDER (sort stability/direction from resolved callee + comparator term), DECIDE (complete decision table of the priority-key closure extracted by abstract interpretation and compared, as a boolean function, with the reference), CONST relations, table flags, iterator-direction agreement"
EXPLANATION = (
    "Decides necessary structural clauses of C01, each for every expression/operator table at once: "
    "(R01.1) both application-order functions sort stably and in descending key order; "
    "(R01.2) the key is prio*S+b with S>0 and 0<=b<S, so a bumped operator can never overtake a higher priority level; "
    "(R01.3) the complete decision table of the bump equals the reference `two adjacent literals AND commutative AND "
    "(no operator to the left that is not applied earlier anyway, OR that operator has lower priority, OR it is the same operator)` "
    "- i.e. operands are only regrouped inside a chain of one commutative operator; (R01.4) in the flat form an operator carrying "
    "the unary of a parenthesised group is never bumped, so it stays the last operator of its group; (R01.5) the nesting step that "
    "scales priorities per parenthesis depth is one constant >= 100 (priorities range over 0..=99); (R01.6) the default float "
    "table flags only + and * as commutative; (R01.7) unary compositions are stored, composed, applied and printed in one "
    "consistent direction. Not decided: that the flat token walker and the in-place reducer compute the documented tree for "
    "every expression (algorithmic; needs a model of the walker)."
)
TRUSTED = ["rustc MIR construction", "exporter faithfulness", "std: sort_by is stable, Iterator::rev/find semantics"]


class _KeyPolicy(Policy):
    """Closures and small crate-local accessors (UnaryOp::len, helper predicates) are inlined."""
    max_depth = 6
    max_paths = 2000

    def inline(self, fn, args, interp, path):
        b = interp.callee_body(fn)
        if b is None:
            return False
        if len(b["blocks"]) <= 12:
            return True
        # the key computation may live in private functions next to the ordering function (handed the operators / nodes)
        root = path.frames[0].body["path"] if path.frames else ""
        mod = re.sub(r"(::\{closure#\d+\})+$", "", root).rsplit("::", 1)[0]
        tys = " ".join(b["locals"][i]["ty"] for i in range(1, b["arg_count"] + 1))
        return b["kind"] == "Fn" and b["path"].startswith(mod + "::") and len(b["blocks"]) <= 120 and not b.get("public") and \
            ("FlatOp<" in tys or "BinOpWithIdx<" in tys or "BinOpsWithReprs<" in tys)


def ordering_functions(fb):
    out = []
    for p, b in fb.bodies.items():
        if b["kind"] == "Closure":
            continue
        if "SmallVec<[usize; 32]>" not in b["locals"][0]["ty"] and "ExprIdxVec" not in b["locals"][0]["ty"]:
            continue
        sc = order.sort_calls(b)
        if sc:
            out.append((b, sc))
    return out


def key_closure_of(fb, fbody, sort_term, closures):
    """The comparator closure value passed to the sort, and the key closure it calls on both sides."""
    comp = None
    for e_path, cv in closures.items():
        pass
    # the comparator is the closure-typed argument of the sort call
    for a in sort_term["args"]:
        ty = a.get("place", {}).get("ty", "") if a.get("k") in ("move", "copy") else a.get("ty", "")
        for cp, cv in closures.items():
            b = fb.bodies[cp]
            span = b["span"]
            if "{closure@%s:%d:%d" % (span["file"], span["line"], span["col"]) in ty:
                comp = cv
    return comp


ATOMS = ["NL", "NR", "C", "U", "L", "PLT", "IEQ"]


def reference(a, flat):
    base = a["NL"] and a["NR"] and a["C"] and (not a["L"] or a["PLT"] or a["IEQ"])
    return base and (a["U"] if flat else True)


def _base(v):
    """strip field projections / derefs / clones: (base term, [field names outermost first])"""
    fields = []
    while isinstance(v, App) and len(v.args) == 1 and (v.fn.startswith(".") and not v.fn.startswith(".cap:") and v.fn not in (".0",)
                                                     or v.fn in ("deref", "std::clone::Clone::clone", "std::ops::Deref::deref")):
        if v.fn.startswith("."):
            fields.append(v.fn)
        v = v.args[0]
    return v, fields


def _is_index(v, coll, off):
    """coll[i + off]"""
    if not (isinstance(v, App) and v.fn in ("index", "std::ops::Index::index") and len(v.args) == 2):
        return False
    c, ix = v.args
    if not (isinstance(c, Sym) and c.name == coll):
        return False
    if off == 0:
        return isinstance(ix, Sym) and ix.name == "i"
    if isinstance(ix, App) and ix.fn in ("binop:Add", "std::ops::Add::add") and len(ix.args) == 2:
        for x, y in (ix.args, ix.args[::-1]):
            if isinstance(x, Sym) and x.name == "i" and rel.const_int(y) == off:
                return True
    return False


def _left_scan(v):
    """`ops[..i].iter().rev().find(pred)` / `ops[..i].iter().rfind(pred)`: the predicate closure, or None"""
    if not (isinstance(v, App) and len(v.args) == 2 and isinstance(v.args[1], Closure)):
        return None
    it = v.args[0]
    if v.fn == "std::iter::Iterator::find":
        if not (isinstance(it, App) and it.fn == "std::iter::Iterator::rev" and len(it.args) == 1):
            return None
        it = it.args[0]
    elif v.fn != "std::iter::DoubleEndedIterator::rfind":
        return None
    while isinstance(it, App) and it.fn in ("core::slice::<impl [T]>::iter", "std::iter::IntoIterator::into_iter", "deref") and it.args:
        it = it.args[0]
    if isinstance(it, App) and it.fn in ("std::ops::Index::index", "index") and len(it.args) == 2 and isinstance(it.args[0], Sym) and it.args[0].name == "ops":
        r = it.args[1]
        if isinstance(r, Variant) and r.adt.endswith("RangeTo") and isinstance(r.fields.get("end"), Sym) and r.fields["end"].name == "i":
            return v.args[1]
        if isinstance(r, Variant) and r.adt.endswith("ops::Range") and rel.const_int(r.fields.get("start")) == 0 and \
                isinstance(r.fields.get("end"), Sym) and r.fields["end"].name == "i":
            return v.args[1]
    return None


def _role(v):
    """('own'|'left', field) for own.prio / left.prio / own.idx / left.idx ..., or None"""
    b, fields = _base(rel.canon(v))
    if not fields:
        return None
    if _is_index(b, "ops", 0):
        return ("own", fields[0])
    if isinstance(b, App) and b.fn == ".0" and isinstance(b.args[0], App) and b.args[0].fn == "as:Some" and _left_scan(b.args[0].args[0]) is not None:
        return ("left", fields[0])
    return None


def classify_decision(cond, label, flat):
    """Map one decision to (atom, bool), ("ignore", None) for a tautology, or None if unrecognised."""
    c = rel.canon(cond)
    if isinstance(c, App) and c.fn == "unop:Not" and len(c.args) == 1 and label in (True, False):
        return classify_decision(c.args[0], not label, flat)
    if isinstance(c, App) and c.fn == "discr" and len(c.args) == 1:
        x = c.args[0]
        if _left_scan(x) is not None:
            return ("L", label == "Some")
        b, fields = _base(x)
        if fields in ([], [".kind"]):
            if _is_index(b, "nodes", 0):
                return ("NL", label == "Num")
            if _is_index(b, "nodes", 1):
                return ("NR", label == "Num")
        return None
    if label not in (True, False):
        return None
    if isinstance(c, App) and c.fn in rel._CMP and len(c.args) == 2:
        op = rel._CMP[c.fn]
        if not label:
            op = rel._NEG[op]
        x, y = c.args
        if op in (">", ">="):
            x, y, op = y, x, {">": "<", ">=": "<="}[op]
        # length of the operator's own unary composition against zero
        for u, z, flip in ((x, y, False), (y, x, True)):
            ub, uf = _base(u.args[0]) if isinstance(u, App) and u.fn.endswith("::len") and len(u.args) == 1 else (None, [])
            if ub is not None and ".unary_op" in uf and _is_index(ub, "ops", 0) and rel.const_int(z) == 0:
                if op == "==":
                    return ("U", True)
                if op == "!=" or (op == "<" and flip):          # 0 < len
                    return ("U", False)
                if op == "<=" and not flip:                      # len <= 0
                    return ("U", True)
                return None
        rx, ry = _role(x), _role(y)
        if rx and ry and rx[1] == ry[1] == ".prio":
            if (rx[0], ry[0], op) == ("left", "own", "<"):
                return ("PLT", True)
            if (rx[0], ry[0], op) == ("own", "left", "<="):
                return ("PLT", False)
            return None
        if rx and ry and rx[1] == ry[1] == ".idx" and {rx[0], ry[0]} == {"left", "own"} and op in ("==", "!="):
            return ("IEQ", op == "==")
        return None
    if isinstance(c, App) and c.fn.endswith("::is_empty") and len(c.args) == 1:
        ub, uf = _base(c.args[0])
        if ".unary_op" in uf and _is_index(ub, "ops", 0):
            return ("U", label)
        return None
    b, fields = _base(c)
    if fields and fields[0] == ".is_commutative" and _is_index(b, "ops", 0):
        return ("C", label)
    return None


def parse_key_term(t):
    """key = Mul(P, S) [+ B]  ->  (P string, S, B) or None."""
    def mul(x):
        if isinstance(x, App) and (x.fn == "std::ops::Mul::mul" or x.fn == "binop:Mul") and len(x.args) == 2:
            p, s = x.args
            if isinstance(s, Const) and s.bits is not None:
                return p, s.bits
            if isinstance(p, Const) and p.bits is not None:
                return s, p.bits
        return None
    m = mul(t)
    if m:
        return m[0], m[1], 0
    if isinstance(t, App) and t.fn in ("binop:Add", "std::ops::Add::add") and len(t.args) == 2:
        for a, b in ((t.args[0], t.args[1]), (t.args[1], t.args[0])):
            m = mul(a)
            if m and isinstance(b, Const) and b.bits is not None:
                return m[0], m[1], b.bits
    return None


def check_ordering_function(chk, fb, fbody, sorts):
    name = fbody["path"].split("::")[-1]
    flat = "FlatOp" in " ".join(l["ty"] for l in fbody["locals"][1:3])
    where = loc(fbody["span"])
    closures, _ = order.closures_created(fb, fbody, [Sym("ops"), Sym("nodes")])
    for bi, t, meth in sorts:
        key = "%s" % name
        # ---- R01.1 stability
        if meth in order.STABLE:
            chk.ok("R01.1", "%s: %s is a stable sort" % (name, meth), "", loc(t["span"]))
        else:
            chk.violation("R01.1", "stable:%s" % key, "%s orders operators with %s, which is not stable: equal priorities are no longer applied left to right" % (name, meth), loc(t["span"]))
        comp = key_closure_of(fb, fbody, t, closures)
        if meth in ("sort", "sort_unstable"):
            chk.violation("R01.1", "direction:%s" % key, "natural ascending order of indices, expected descending priority key", loc(t["span"]))
            continue
        if comp is None:
            chk.unrecognised("R01.1", "comparator:%s" % key, "cannot identify the comparator closure of the sort", loc(t["span"]))
            continue
        if meth.endswith("_by"):
            c = order.comparator(fb, comp)
            if "error" in c:
                chk.unrecognised("R01.1", "comparator:%s" % key, c["error"], loc(t["span"]))
                continue
            if c["direction"] == "desc":
                chk.ok("R01.1", "%s: comparator is descending in %s" % (name, c["key"][:60]), "", loc(t["span"]))
            else:
                chk.violation("R01.1", "direction:%s" % key, "%s sorts ascending in the priority key: lower priorities would be applied first" % name, loc(t["span"]))
            m = re.match(r"^call:(.*)\(_\)$", c["key"])
            kpath = m.group(1) if m else None
            kfn_args = None
            if kpath is None or kpath not in closures:
                # the key may be a private function next to the ordering function: `sort_key(ops, nodes, i)`
                m2 = re.match(r"^([\w:<>{}#']+)\((.*)\)$", c["key"])
                fbody_ = fb.bodies.get(m2.group(1)) if m2 else None
                parts_ = [x.strip() for x in m2.group(2).split(",")] if m2 else []
                if fbody_ is not None and fbody_["kind"] == "Fn" and fbody_["arg_count"] == len(parts_) and parts_.count("_") == 1 and all(re.match(r"^\w+$", x) for x in parts_):
                    kpath = m2.group(1)
                    kfn_args = [Sym("i") if x == "_" else Sym(x) for x in parts_]
                else:
                    chk.unrecognised("R01.2", "key:%s" % key, "key function of the comparator is not a local closure: %s" % c["key"][:80], loc(t["span"]))
                    continue
            reverse_wrapped = False
        else:
            # sort_by_key / sort_by_cached_key: ascending in the key the closure returns; descending iff wrapped in Reverse
            kpath = comp.path
            reverse_wrapped = True
        kbody = fb.bodies[kpath]
        if meth.endswith("_by") and kfn_args is not None:
            kval = None
            krun = list(kfn_args)
        else:
            kval = closures[kpath]
            krun = [kval, Sym("i")]
        ps = Interp(fb, _KeyPolicy()).run(kbody, krun)
        bad = [p for p in ps if p.status not in ("return", "unreachable")]
        if bad and all("revisited" in (p.note or "") for p in bad):
            # the left scan written as a loop (`for left in ops[..i].iter().rev() { if .. { continue } return .. } true`):
            # brought into the vocabulary of `find`
            from analysis import loops as _loops

            class _KW(_KeyPolicy):
                loop_mode = "widen"
            wps = Interp(fb, _KW()).run(kbody, krun)
            got, why_ = _loops.search_loop_paths(wps)
            if got is not None:
                ps, bad = got, []
            else:
                chk.unrecognised("R01.2", "key:%s" % key, "key closure contains a loop that is not a search (%s)" % why_, loc(kbody["span"]))
                continue
        if bad:
            chk.unrecognised("R01.2", "key:%s" % key, "key closure shape not recognised: %s" % [(p.status, p.note) for p in bad][:2], loc(kbody["span"]))
            continue
        ps = [p for p in ps if p.status == "return"]
        if reverse_wrapped:
            unwrapped, asc = [], False
            for p in ps:
                r = p.result
                if isinstance(r, Variant) and r.adt.endswith("cmp::Reverse") and "0" in r.fields:
                    p.result = r.fields["0"]
                else:
                    asc = True
            if asc:
                chk.violation("R01.1", "direction:%s" % key, "%s sorts ascending in the priority key (%s without Reverse): lower priorities would be applied first" % (name, meth), loc(t["span"]))
                continue
            chk.ok("R01.1", "%s: %s(Reverse(key)) is descending in the key" % (name, meth), "", loc(t["span"]))
        # ---- R01.2 shape prio*S+b
        S = set()
        P = set()
        rows = []
        shape_ok = True
        for p in ps:
            k = parse_key_term(p.result)
            if k is None:
                chk.unrecognised("R01.2", "key:%s" % key, "key is not prio*S+b: %s" % show(p.result)[:120], loc(kbody["span"]))
                shape_ok = False
                break
            P.add(k[0])
            S.add(k[1])
            rows.append((p, k[2]))
        if not shape_ok:
            continue
        if len(S) != 1 or len(P) != 1:
            chk.violation("R01.2", "key-consistency:%s" % key, "key uses different scales/priorities on different paths: S=%s P=%s" % (sorted(S), sorted(show(x) for x in P)), loc(kbody["span"]))
            continue
        s = next(iter(S))
        pr = next(iter(P))
        if _role(pr) != ("own", ".prio"):
            chk.violation("R01.2", "key-prio:%s" % key, "key is not built from the priority of the operator itself: %s" % show(pr), loc(kbody["span"]))
        bumps = sorted({b for _, b in rows})
        if s > 0 and all(0 <= b < s for b in bumps):
            chk.ok("R01.2", "%s: key = prio*%d + b, b in %s" % (name, s, bumps), "", loc(kbody["span"]))
            chk.sample({"fn": fbody["path"], "key": "%s*%d+b" % (show(pr), s), "bumps": bumps})
        else:
            chk.violation("R01.2", "bump-bound:%s" % key, "bump %s is not inside [0, %d): a bumped operator can overtake the next priority level" % (bumps, s), loc(kbody["span"]))
        # ---- R01.3 / R01.4 decision table
        table_ok = True
        mism = []
        u_independent = False
        for p, b in rows:
            assign = {}
            for d in p.decisions:
                c = classify_decision(d[1], d[2], flat)
                if c is None:
                    chk.unrecognised("R01.3", "table:%s" % key, "bump decision depends on an unrecognised condition: %s = %s" % (show(d[1])[:140], d[2]), loc(d[3]))
                    table_ok = False
                    break
                if c[0] in assign and assign[c[0]] != c[1]:
                    assign["_infeasible"] = True
                assign[c[0]] = c[1]
            if assign.pop("_infeasible", False):
                continue
            if not table_ok:
                break
            free = [a for a in ATOMS if a not in assign]
            first = None
            for vals in itertools.product([False, True], repeat=len(free)):
                full = dict(assign)
                full.update(dict(zip(free, vals)))
                if reference(full, flat) != (b > 0):
                    if first is None:
                        first = full
                    if full.get("U", True):
                        u_independent = True
            if first is not None:
                mism.append((dict(assign), b, first))
        if not table_ok:
            continue
        if not mism:
            chk.ok("R01.3", "%s: bump decision table equals the reference (%d paths)" % (name, len(rows)), "", loc(kbody["span"]))
            if flat:
                chk.ok("R01.4", "%s: an operator carrying a unary is never bumped" % name, "", loc(kbody["span"]))
        else:
            # attribute: does it match the reference without U (only R01.4 broken)?
            only_u = flat and not u_independent
            a, b, full = mism[0]
            what = "bump decision differs from the reference: on a path with %s the operator is %s, but for %s the reference says %s" % (
                a, "bumped" if b > 0 else "not bumped", {k: v for k, v in full.items() if k not in a}, "bump" if reference(full, flat) else "no bump")
            if only_u and not any("U" in m[0] for m in mism):
                chk.violation("R01.4", "unary-bump:%s" % key, "an operator carrying the unary of a parenthesised group can be applied ahead of its turn (%s)" % what, loc(kbody["span"]))
            else:
                chk.violation("R01.3", "table:%s" % key, what, loc(kbody["span"]))
        # find-predicate: candidates with priority <= own
        for cp, cv in closures.items():
            pass
        pred_ok = None
        for p, b in rows:
            for d in p.decisions:
                for sub in _closures_in(d[1]):
                    if hasattr(sub, "cond"):
                        # predicate of a search loop
                        if _scan_predicate_ok(sub.cond):
                            pred_ok = True if pred_ok is None else pred_ok
                        else:
                            pred_ok = False
                            chk.violation("R01.3", "left-scan:%s" % key, "the left scan does not stop at the first operator with priority <= own: it stops under %s" % show(sub.cond)[:160], loc(kbody["span"]))
                        continue
                    pb = fb.bodies.get(sub.path)
                    if pb is None or pb["arg_count"] != 2:
                        continue
                    pps = Interp(fb, _KeyPolicy()).run(pb, [sub, Sym("cand")])
                    if len(pps) == 1 and pps[0].status == "return":
                        r = show(pps[0].result)
                        if _scan_predicate_ok(pps[0].result):
                            pred_ok = True if pred_ok is None else pred_ok
                        else:
                            pred_ok = False
                            chk.violation("R01.3", "left-scan:%s" % key, "the left scan does not stop at the first operator with priority <= own: predicate is %s" % r[:160], loc(pb["span"]))
                    else:
                        pred_ok = False
                        chk.unrecognised("R01.3", "left-scan:%s" % key, "left-scan predicate not recognised", loc(pb["span"]))
        if pred_ok:
            chk.ok("R01.3", "%s: left scan stops at the first operator with priority <= own" % name, "", loc(kbody["span"]))
        elif pred_ok is None and not mism and table_ok:
            chk.unrecognised("R01.3", "left-scan:%s" % key, "no left-scan predicate found", loc(kbody["span"]))


def _scan_predicate_ok(v):
    """cand.prio <= own.prio (any spelling)"""
    c = rel.canon(v)
    if not (isinstance(c, App) and c.fn in rel._CMP and len(c.args) == 2):
        return False
    op = rel._CMP[c.fn]
    x, y = c.args
    if op in (">", ">="):
        x, y, op = y, x, {">": "<", ">=": "<="}[op]
    if op != "<=":
        return False
    bx, fx = _base(x)
    return isinstance(bx, Sym) and bx.name == "cand" and fx[:1] == [".prio"] and _role(y) == ("own", ".prio")


def _closures_in(v, out=None, depth=0):
    out = [] if out is None else out
    if depth > 30:
        return out
    if isinstance(v, Closure):
        if all(c.path != v.path for c in out):
            out.append(v)
    elif isinstance(v, App):
        for a in v.args:
            _closures_in(a, out, depth + 1)
    return out


def run(ctx):
    chk, fb = ctx.check, ctx.fb
    chk.rule("R01.1", "every sort producing the application order is stable and descending in the priority key")
    chk.rule("R01.2", "priority key = prio*S + b with S > 0 and 0 <= b < S on every path")
    chk.rule("R01.3", "bump (b>0) iff both neighbours are literals AND operator is commutative AND (no operator to the left with priority <= own, OR it has lower priority, OR it is the same operator); the left scan takes the first operator with priority <= own")
    chk.rule("R01.4", "flat form: an operator that carries a unary operator is never bumped")
    chk.rule("R01.5", "parenthesis nesting scales priorities by one constant K >= 100 at every use")
    chk.rule("R01.6", "default float table: only + and * are flagged commutative")
    chk.rule("R01.7", "unary compositions: stored outermost-first, appended before, applied in reverse, printed in order - all sites agree")
    chk.rule("R01.8", "the functions of a unary composition are applied to a value only by UnaryOp::apply (and helpers private to it); no constant cap on an operator / token sequence")
    fns = ordering_functions(fb)
    chk.floor("R01.1", "application-order functions", len(fns), 2)
    for fbody, sorts in fns:
        check_ordering_function(chk, fb, fbody, sorts)

    # ---- R01.5 nesting step
    step = [c for p, c in fb.consts.items() if p.endswith("DEPTH_PRIO_STEP")]
    mk = fb.find_bodies(lambda b: b["path"].endswith("flat::detail::make_expression") or b["path"].startswith("expression::flat::detail::make_expression::"))
    muls = []
    for b in mk:
        for bi, si, st in mir.iter_stmts(b, mir.normal_blocks(b)):
            if st["k"] == "assign" and st["rv"]["k"] == "binop" and st["rv"]["op"].startswith("Mul") and st["rv"].get("operand_ty") == "i64":
                for o in (st["rv"]["a"], st["rv"]["b"]):
                    if o.get("k") == "const" and o.get("bits") is not None:
                        muls.append((int(o["bits"]), o.get("named"), loc(st["span"])))
    if not mk:
        chk.violation("R01.5", "anchor", "flat make_expression not found")
    vals = sorted({m[0] for m in muls})
    KMAX = 10 ** 12     # (K * depth + prio) * 10 + 5 has to stay inside i64 for every nesting depth a text can reach: 10 000 levels
    if len(muls) >= 2 and len(vals) == 1 and vals[0] > KMAX:
        chk.violation("R01.5", "too-large", "nesting step %d: the sort key (depth*K + prio)*10 + 5 overflows i64 for expressions nested %d levels deep (panic in debug builds, wrong application order in release builds)" % (
            vals[0], (2 ** 63) // (vals[0] * 10) + 1), muls[0][2])
    elif len(muls) >= 2 and len(vals) == 1 and vals[0] >= 100:
        chk.ok("R01.5", "depth scaling constant K=%d at %d uses" % (vals[0], len(muls)), str(muls), muls[0][2])
        chk.sample({"depth_step": vals[0], "uses": [m[2] for m in muls]})
    elif len(muls) < 2:
        chk.unrecognised("R01.5", "uses", "expected >= 2 multiplications depth*K (priority scaling and group delimiting), found %d" % len(muls))
    elif len(vals) != 1:
        chk.violation("R01.5", "mismatch", "priority scaling and group delimiting use different steps: %s" % muls, muls[0][2])
    else:
        chk.violation("R01.5", "too-small", "nesting step %d < 100: priorities range over 0..=99, so an inner operator can lose against an outer one" % vals[0], muls[0][2])

    # ---- R01.6 float flags
    make = fb.one_body(lambda b: b["kind"] == "AssocFn" and b.get("name") == "make" and "FloatOpsFactory" in (b.get("impl_self_ty") or ""), "FloatOpsFactory::make")
    tab = tables.operator_table(fb, make)
    nb = 0
    for e in tab:
        if e["apply"] is None:
            continue
        nb += 1
        if e["is_commutative"] is None or e["prio"] is None:
            chk.unrecognised("R01.6", "flag:%s" % e["repr"], "prio / is_commutative is not a literal", e["loc"])
        elif e["is_commutative"] and e["repr"] not in ("+", "*"):
            chk.violation("R01.6", "flag:%s" % e["repr"], "operator %r is flagged commutative but is not associative-commutative" % e["repr"], e["loc"])
        elif not (0 <= e["prio"] <= 99):
            chk.violation("R01.6", "prio:%s" % e["repr"], "priority %d outside 0..=99" % e["prio"], e["loc"])
        else:
            chk.ok("R01.6", "flag:%s" % e["repr"], "prio %d commutative=%s" % (e["prio"], e["is_commutative"]), e["loc"])
    chk.floor("R01.6", "binary float operators", nb, 8)

    # ---- R01.7 unary composition direction
    bits = {}
    from analysis import loops

    class PSeq(Policy):
        loop_mode = "widen"
        max_depth = 4

        def inline(self, fn, args, interp, path):
            # one constructor / method of the composition written in terms of another
            return (fn.get("impl_self_ty") or "").startswith("operators::UnaryOp<") and fn.get("name") not in ("apply",)

        def inline_closure(self, closure_path, args, interp, path):
            return False
    STORE = ".funcs_to_be_composed(self_)"
    ap = fb.find_bodies(lambda b: b["kind"] == "AssocFn" and b.get("name") == "apply" and (b.get("impl_self_ty") or "").startswith("operators::UnaryOp<"))
    if len(ap) == 1:
        allp = Interp(fb, PSeq()).run(ap[0], [Sym("self_"), Sym("x")])
        ps = [p for p in allp if p.status not in ("unreachable", "loop-pruned")]
        dirs = set()
        for p in ps:
            if p.status != "return":
                dirs.add("?%s" % p.status)
                continue
            if isinstance(p.result, Sym) and p.result.name == "x":
                continue        # no function to apply
            fs = loops.fold_source(p.result, p, allp)
            if fs is None or len(fs[0]) != 1 or fs[0][0][0] != "src" or fs[0][0][1] != STORE:
                dirs.add("?%s" % (fs[0] if fs else show(p.result)[:80]))
            else:
                dirs.add(fs[0][0][2])
        if dirs == {"rev"} or dirs == {"fwd"}:
            bits["apply iterates reversed"] = dirs == {"rev"}
        else:
            chk.unrecognised("R01.7", "apply", "UnaryOp::apply is not a fold over the stored functions in one direction: %s" % sorted(dirs), loc(ap[0]["span"]))
    else:
        chk.violation("R01.7", "anchor:apply", "UnaryOp::apply not found")
    aa = fb.find_bodies(lambda b: b["kind"] == "AssocFn" and b.get("name") == "append_after_iter" and (b.get("impl_self_ty") or "").startswith("operators::UnaryOp<"))
    if len(aa) == 1:
        allp = Interp(fb, PSeq()).run(aa[0], [Sym("self_"), Sym("other")])
        ps = [p for p in allp if p.status not in ("unreachable", "loop-pruned")]
        seqs = []
        for p in ps:
            hv = [v for k, v in p.heap.items() if k[0] == ("sym", "self_") and k[1] == ("f", "funcs_to_be_composed")]
            if p.status != "return" or len(hv) != 1:
                seqs.append([("?", p.status)])
            else:
                seqs.append(loops.seq_parts(hv[0], p, aa[0]["path"], 0, allp))
        full = max(seqs, key=len) if seqs else []

        def subseq(s, f):
            it = iter(f)
            return all(any(x == y for y in it) for x in s)
        NEWFIRST = [("src", "other", "fwd"), ("src", STORE, "fwd")]
        OLDFIRST = [("src", STORE, "fwd"), ("src", "other", "fwd")]
        if full in (NEWFIRST, OLDFIRST) and all(subseq(s, full) for s in seqs):
            bits["append_after puts the new functions first"] = full == NEWFIRST
        else:
            chk.unrecognised("R01.7", "append", "append_after_iter does not store new ++ old or old ++ new: %s" % seqs[:3], loc(aa[0]["span"]))
    else:
        chk.violation("R01.7", "anchor:append", "UnaryOp::append_after_iter not found")
    # append_after(other): the functions of `other` go in front of the own ones, each group in its own order
    ab = fb.find_bodies(lambda b: b["kind"] == "AssocFn" and b.get("name") == "append_after" and (b.get("impl_self_ty") or "").startswith("operators::UnaryOp<"))
    delegates = False
    if len(ab) == 1:
        class PNo(PSeq):
            def inline(self, fn, args, interp, path):
                return False
        dps_ = [p for p in Interp(fb, PNo()).run(ab[0], [Sym("self_"), Sym("other")]) if p.status not in ("unreachable", "loop-pruned")]
        if len(dps_) == 1 and dps_[0].status == "return":
            cl_ = [e for e in dps_[0].events if e[0] == "call" and e[1].startswith("operators::UnaryOp")]
            if len(cl_) == 1 and cl_[0][1].endswith("::append_after_iter") and len(cl_[0][2]) == 2 and show(cl_[0][2][0]) == "self_" and \
                    loops.seq_parts(cl_[0][2][1]) == [("src", ".funcs_to_be_composed(other)", "fwd")]:
                delegates = True        # append_after(other) = append_after_iter(other's functions, in order): judged at that site
    if len(ab) == 1 and not delegates:
        allp = Interp(fb, PSeq()).run(ab[0], [Sym("self_"), Sym("other")])
        okb = True
        nret = 0
        for p in allp:
            if p.status in ("unreachable", "loop-pruned"):
                continue
            hv = [v for k, v in p.heap.items() if k[0] == ("sym", "self_") and k[1] == ("f", "funcs_to_be_composed")]
            if p.status != "return" or len(hv) != 1:
                okb = False
                continue
            nret += 1
            parts = loops.seq_parts(hv[0], p, ab[0]["path"], 0, allp)
            OTHER = ("src", ".funcs_to_be_composed(other)", "fwd")
            if parts not in ([OTHER, ("src", STORE, "fwd")], [OTHER]):       # [OTHER] alone only on a path where the own list is known to be empty
                okb = False
            elif parts == [OTHER] and not any("is_empty" in show(d[1]) and d[2] is True for d in p.decisions):
                okb = False
        if not okb or not nret:
            chk.violation("R01.7", "append_after", "UnaryOp::append_after does not store `other's functions ++ own functions`, each in its own order (composed unary operators would be applied in another order)", loc(ab[0]["span"]))
    # constructors keep the order they are given (the producers yield outermost first)
    for cname in ("from_iter", "from_vec"):
        cs = fb.find_bodies(lambda b, cname=cname: b["kind"] == "AssocFn" and b.get("name") == cname and (b.get("impl_self_ty") or "").startswith("operators::UnaryOp<"))
        if len(cs) != 1:
            continue
        allp = Interp(fb, PSeq()).run(cs[0], [Sym("given")])
        ps = [p for p in allp if p.status not in ("unreachable", "loop-pruned")]
        okc = bool(ps)
        for p in ps:
            r = p.result
            fld = r.fields.get("funcs_to_be_composed") if isinstance(r, Variant) else None
            if p.status != "return" or fld is None or loops.seq_parts(fld, p, cs[0]["path"], 0, allp) != [("src", "given", "fwd")]:
                okc = False
        bits["%s keeps the given order" % cname] = okc
        if not okc:
            chk.violation("R01.7", "constructor:%s" % cname, "UnaryOp::%s does not store the functions in the order it is given (the parsers hand them over outermost first, the order apply / append_after / the printer assume)" % cname, loc(cs[0]["span"]))
    # the producer in the flat builder: a node preceded by unary operators gets them in the order the scan yields them
    mk_ = [p_ for p_ in fb.bodies if p_.endswith("flat::detail::make_expression")]
    nprod = 0
    for mkp in mk_:
        for cp_ in fb.closures_of(mkp):
            cb_ = fb.bodies[cp_]
            if "flat::detail::FlatNode<" not in cb_["locals"][0]["ty"] or not cb_["locals"][0]["ty"].startswith("std::result::Result<"):
                continue

            class PProd(PSeq):
                def inline(self, fn, args, interp, path):
                    st_ = fn.get("impl_self_ty") or ""
                    return st_.startswith("operators::UnaryOp<") and fn.get("name") != "apply" or st_.startswith("expression::flat::detail::FlatNode<")
            allp = Interp(fb, PProd()).run(cb_, [Sym("env")] + [Sym("a%d" % i) for i in range(1, cb_["arg_count"])])
            for p in allp:
                if p.status != "return" or not (isinstance(p.result, Variant) and p.result.variant == "Ok"):
                    continue
                nd_ = p.result.fields.get("0")
                u_ = nd_.fields.get("unary_op") if isinstance(nd_, Variant) else None
                f_ = u_.fields.get("funcs_to_be_composed") if isinstance(u_, Variant) else u_
                parts = loops.seq_parts(f_, p, cp_, 0, allp) if f_ is not None else [("?", "node")]
                nprod += 1
                if parts == [] or (len(parts) == 1 and parts[0][0] == "src" and parts[0][2] == "fwd"):
                    continue
                chk.violation("R01.7", "producer:flat", "the flat builder does not hand a node the unary operators in front of it in the order the scan yields them (outermost first): %s" % str(parts)[:160], loc(cb_["span"]))
                break
    if nprod:
        chk.ok("R01.7", "flat builder: unary chain of a node in scan order", "%d paths" % nprod, loc(fb.bodies[mk_[0]]["span"]))
    up = fb.find_bodies(lambda b: b["path"].endswith("deep::detail::unparse_raw"))
    if len(up) == 1:
        tys = " ".join(l["ty"] for l in up[0]["locals"])
        # printing folds over unary_op.reprs.iter(): forward iteration prints index 0 leftmost (outermost)
        fold_rev = "std::iter::Rev<std::slice::Iter<'_, &str>>" in tys
        bits["unparse prints stored order left to right"] = not fold_rev
    else:
        chk.violation("R01.7", "anchor:unparse", "unparse_raw not found")
    cons = {k: v for k, v in bits.items() if k.endswith("keeps the given order")}
    bits = {k: v for k, v in bits.items() if k not in cons}
    if bits:
        if all(bits.values()):
            chk.ok("R01.7", "composition direction sites agree", str(bits))
        elif not any(bits.values()):
            chk.ok("R01.7", "composition direction sites agree (convention flipped consistently)", str(bits))
        else:
            off = [k for k, v in bits.items() if not v]
            chk.violation("R01.7", "direction:%s" % ",".join(sorted(off)), "unary composition direction is inconsistent: %s" % bits, loc(ap[0]["span"]) if ap else None)
    chk.floor("R01.7", "direction sites", len(bits), 3)

    application_discipline(chk, fb)


def _is_unary_fn_field(place):
    return any(pr.get("k") == "field" and pr.get("name") == "f" and (pr.get("owner") or "").endswith("operators::UnaryFuncWithIdx")
               for pr in place.get("proj", []))


def application_discipline(chk, fb, RID="R01.8", caps=True):
    """R01.8: the direction a composition is applied in is decided in one place.  Every other function has to go
    through UnaryOp::apply; a second loop over funcs_to_be_composed() that applies the functions itself is a second
    definition of the direction (and of the order of side conditions) that R01.7 does not see."""
    from analysis.callgraph import CallGraph
    cg = CallGraph(fb)
    single = [p for p in fb.bodies if p.endswith("operators::UnaryFuncWithIdx::<T>::apply")]
    comp = [p for p in fb.bodies if p.endswith("operators::UnaryOp::<T>::apply")]
    if len(single) != 1 or len(comp) != 1:
        chk.violation(RID, "anchor", "UnaryFuncWithIdx::apply / UnaryOp::apply not found: %s %s" % (single, comp))
        return
    single, comp = single[0], comp[0]

    def owner(p):
        # closures belong to the function they are written in
        return re.sub(r"(::\{closure#\d+\})+$", "", p)
    # helpers private to UnaryOp::apply: reachable from it and called from nowhere else
    allowed = {comp}
    grew = True
    while grew:
        grew = False
        for q in fb.bodies:
            if q in allowed or owner(q) in allowed and not allowed.add(q):
                continue
            cs = {owner(c) for c in cg.callers_of(q)}
            if cs and cs <= allowed and q.startswith("operators::"):
                allowed.add(q)
                grew = True
    allowed.discard(single)
    n_apply = n_ptr = 0
    for p, b in fb.bodies.items():
        if b.get("is_test"):
            continue
        fl = set()
        for bi, si, st in mir.iter_stmts(b):
            if st["k"] == "assign" and st["rv"]["k"] == "use" and st["rv"]["op"].get("place") and _is_unary_fn_field(st["rv"]["op"]["place"]):
                fl.add(st["place"]["local"])
        for bi, t in mir.calls(b):
            cp = mir.callee_path(t) or ""
            if cp.endswith("operators::UnaryFuncWithIdx::<T>::apply"):
                n_apply += 1
                if owner(p) not in allowed:
                    chk.violation(RID, "apply:%s" % owner(p), "%s applies the functions of a unary composition itself instead of calling UnaryOp::apply: the application direction (last stored function first) is defined there and nowhere else" % owner(p), loc(t["span"]))
            f = t["func"]
            if f.get("k") == "ptr":
                pl = f["op"].get("place") or {}
                if pl.get("local") in fl and not pl.get("proj") or _is_unary_fn_field(pl):
                    n_ptr += 1
                    if p != single and owner(p) not in allowed:
                        chk.violation(RID, "call:%s" % owner(p), "%s calls the function pointer of a unary operator directly instead of going through UnaryOp::apply" % owner(p), loc(t["span"]))
    chk.floor(RID, "applications of one unary function", n_apply + n_ptr, 2)
    chk.ok(RID, "single definition of the application direction", "%d calls of UnaryFuncWithIdx::apply, %d pointer calls, all inside %s" % (n_apply, n_ptr, sorted(allowed | {single})))

    if not caps:
        return
    # no constant cap on a sequence of operators / tokens: Iterator::take(<constant>) and truncate(<constant>)
    n_take = n_calls = 0
    for p, b in fb.bodies.items():
        if b.get("is_test"):
            continue
        for bi, t in mir.calls(b):
            cp = mir.callee_path(t) or ""
            n_calls += 1
            if not (cp.endswith("Iterator::take") or cp.endswith("::truncate") or cp.endswith("Iterator::step_by")) or len(t["args"]) < 2:
                continue
            n_take += 1
            a = t["args"][1]
            c = mir.trace_const(b, a)
            if c is not None:
                chk.violation(RID, "cap:%s" % owner(p), "%s cuts a sequence at the constant length %s (%s): expressions with more unary operators / tokens than that are evaluated in a different order or lose operators" % (
                    owner(p), c.get("named") or c.get("bits"), cp.rsplit("::", 1)[-1]), loc(t["span"]))
    chk.floor(RID, "calls inspected for a constant cap", n_calls, 1000)
    chk.ok(RID, "no constant cap", "%d take / truncate / step_by calls, none with a compile-time constant length" % n_take)
