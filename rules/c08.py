"""C08 — Function-call notation op(a, b) means ((a) op (b)) at any nesting (structural clauses of the comma rewrite)."""
import re

from analysis import mir, rel, loops
from analysis.facts import loc
from analysis.interp import Interp, Policy, Sym, App, Const, Variant, Tup, Closure, Unknown, show
from analysis.dispatch import subterms

LEVEL = "other"
TECHNIQUE = ("loop summaries by abstract interpretation over MIR: the general trip of the tokenizer loop per input character class "
             "(comma, closing parenthesis) read as a guarded transfer function; effect rule on the emitted token sequence; "
             "typestate rule on the record of pending closing parentheses (created at a comma, consumed when the extra `)` is emitted)")
EXPLANATION = (
    "The tokenizer rewrites `op(a, b)` into `((a) op (b))` while it reads the text: at the comma the operator token that owns the "
    "comma is replaced by `(`, and `)`, the operator, `(` are appended; one additional `)` is owed and emitted when the call's own "
    "parenthesis closes. Decided from the general trip of the tokenizer loop, for every text and operator table: "
    "(R08.1) the comma step performs exactly that rewrite, on the token found by the owner search, in that order; "
    "(R08.2) the record of owed closing parentheses is never overwritten: every loop-carried variable that guards the emission of an "
    "additional `)` is, after a comma step, a function of its value before (pushed to / incremented), so a call nested in the "
    "second argument of another call cannot make the enclosing call forget its owed `)`; "
    "(R08.3) every emission of an additional `)` consumes from that record (the same debt is not paid twice, and a paid debt is gone); "
    "(R08.4) a comma without an owning operator ends in Err. "
    "Not decided: that the owed `)` falls due at exactly the right depth for every interleaving of parentheses (the arithmetic "
    "relation between the recorded value and the running count), and the owner search itself (find_op_of_comma)."
)
TRUSTED = ["rustc MIR construction", "exporter faithfulness", "std: SmallVec::push/pop, mem::replace"]

TOK = "parser::ParsedToken"


class _P(Policy):
    loop_mode = "widen"
    max_depth = 3
    max_paths = 12000

    vocabulary = ()      # the owner search stays a call

    def inline(self, fn, args, interp, path):
        # private helpers of the tokenizer that work on the token list (a comma step moved into a function) are part of it
        b = interp.callee_body(fn)
        if b is None or b["path"] in self.vocabulary or not b["path"].startswith("parser::") or b.get("public"):
            return False
        return any("ParsedToken<" in b["locals"][i]["ty"] and b["locals"][i]["ty"].startswith("&mut") for i in range(1, b["arg_count"] + 1))

    def inline_closure(self, cp, args, interp, path):
        return False


def _is_paren(v, which):
    v = rel.canon(v)
    return isinstance(v, Variant) and v.adt.endswith("ParsedToken") and v.variant == "Paren" and isinstance(v.fields.get("0"), Variant) and v.fields["0"].variant == which


def _char_of(trip):
    """the literal character this trip handles: decision Eq(c, 'X') True"""
    for d in trip.decisions:
        c = rel.canon(d[1])
        if isinstance(c, App) and c.fn == "binop:Eq" and len(c.args) == 2 and d[2] is True:
            for x in c.args:
                if isinstance(x, Const) and x.ty == "char":
                    return chr(x.bits) if x.bits is not None else (x.text or "?").strip("'")
    return None


def _loop_syms(v):
    out = set()
    for s in subterms(v):
        lu = loops.loop_unknown(s)
        if lu is not None:
            out.add(lu[1])
    return out


def _owner_rposition_idiom(fb, ob, ps, PO):
    """`toks.iter().rposition(|t| { cnt += delta(t); matches!(t, Op) && cnt == 1 })` with cnt = 0 before: rposition visits the
    tokens from the last to the first and returns the index (from the front) of the first hit.  True, or what does not fit."""
    if len(ps) != 1 or ps[0].status != "return" or not isinstance(ps[0].result, App):
        return None
    r = ps[0].result
    if not re.match(r"^std::iter::(Iterator|DoubleEndedIterator)::rposition\(core::slice::<impl \[T\]>::iter\(toks\), closure<\{closure#\d+\}>\)$", rel.cstr(r)):
        return None
    cl = r.args[1]
    if not isinstance(cl, Closure) or len(cl.caps) != 1:
        return "the predicate captures %s" % sorted(getattr(cl, "caps", {}))
    cap, init = list(cl.caps.items())[0]
    if rel.const_int(init) != 0:
        return "the running count starts at %s" % show(init)
    cb = fb.bodies.get(cl.path)
    C = ".cap:%s(env)" % cap
    want = {"open": 1, "close": -1, "num": 0, "var": 0, "op": 0}
    for nm, tok in (("open", Variant(TOK, "Paren", {"0": Variant("parser::Paren", "Open", {})})), ("close", Variant(TOK, "Paren", {"0": Variant("parser::Paren", "Close", {})})),
                    ("num", Variant(TOK, "Num", {"0": Sym("n")})), ("var", Variant(TOK, "Var", {"0": Sym("v")})), ("op", Variant(TOK, "Op", {"0": Sym("o")}))):
        qs = [q for q in Interp(fb, PO()).run(cb, [Sym("env"), tok]) if q.status != "unreachable"]
        if any(q.status != "return" for q in qs):
            return "predicate: %s" % [(q.status, q.note) for q in qs if q.status != "return"][:1]
        new = "binop:Add(%s, %d_i32)" % (C, want[nm])
        for q in qs:
            wr = [(show(e[1]), rel.cstr(e[3])) for e in q.events if e[0] == "write_opaque"]
            if wr != [(C, new)]:
                return "running count for a %s token: %s" % (nm, wr)
        verdict = sorted((rel.cstr(q.result), tuple((rel.cstr(d[1]), str(d[2])) for d in q.decisions)) for q in qs)
        if nm == "op":
            eq = "binop:Eq(%s, 1_i32)" % new
            if verdict not in ([(eq, ())], sorted([("true", ((eq, "True"),)), ("false", ((eq, "False"),))])):
                return "an operator token is accepted under %s" % verdict[:2]
        elif not verdict or any(v[0] != "false" for v in verdict):
            return "a %s token can be accepted: %s" % (nm, verdict[:2])
    return True


def _owner_loop_idiom(fb, ob):
    """The owner search as an explicit loop from the right:
         for idx in (0..toks.len()).rev() { match toks[idx] { `)` => cnt -= 1, `(` => cnt += 1, Op if cnt == 1 => return Some(idx), _ => () } } None
       or index-driven:  let mut idx = toks.len(); while idx > 0 { idx -= 1; .. same step on toks[idx] .. } None
    (the count may be updated before or after the operator test: an operator token does not change it)."""
    allp = Interp(fb, _P()).run(ob, [Sym("toks")])
    if any(p.status not in ("return", "loop-pruned", "unreachable") for p in allp):
        return False, "shape"
    it = cnt = ixl = None
    enumerated = False
    for p in allp:
        for t in loops.trips(p, ob["path"], 0):
            if t.general:
                continue
            for k, v in t.pre.items():
                sv = rel.cstr(v)
                if re.match(r"^(std::iter::IntoIterator::into_iter\()?std::iter::Iterator::rev\(Range\{start: 0_usize, end: core::slice::<impl \[T\]>::len\(toks\)\}\)\)?$", sv):
                    it = k
                elif re.match(r"^(std::iter::IntoIterator::into_iter\()?std::iter::Iterator::rev\(std::iter::Iterator::enumerate\(core::slice::<impl \[T\]>::iter\(toks\)\)\)\)?$", sv):
                    it, enumerated = k, True
                elif sv == "core::slice::<impl [T]>::len(toks)":
                    ixl = k
                elif rel.const_int(v) == 0 and isinstance(v, Const) and (v.ty or "").startswith("i"):
                    cnt = k
    if cnt is None or (it is None and ixl is None):
        return False, "no loop from the last token down to the first with a counter starting at 0"
    seen = set()
    for p in allp:
        for t in loops.trips(p, ob["path"], 0):
            if not t.general or cnt not in t.pre:
                continue
            C = rel.cstr(t.pre[cnt])
            if it is not None:
                if it not in t.pre:
                    continue
                nxt = "std::iter::Iterator::next(%s)" % rel.cstr(t.pre[it])
                item = ".0(as:Some(%s))" % nxt
                cont = ("discr(%s)" % nxt, "Some", "None")
                if enumerated:
                    # for (idx, tok) in toks.iter().enumerate().rev()
                    tok_override = ".1(%s)" % item
                    item = ".0(%s)" % item
            else:
                if ixl not in t.pre:
                    continue
                I = rel.cstr(t.pre[ixl])
                item = "binop:Sub(%s, 1_usize)" % I
                cont = (None, None, None)
            tok = "index(toks, %s)" % item
            if it is not None and enumerated:
                tok = tok_override
            kind = sub = None
            eq1 = None
            exited = False
            for d in t.decisions:
                sd = rel.cstr(d[1])
                if it is not None and sd == cont[0]:
                    exited = d[2] == "None"
                elif it is None and sd in ("binop:Gt(%s, 0_usize)" % I, "binop:Ne(%s, 0_usize)" % I):
                    exited = d[2] is False
                elif it is None and sd in ("binop:Eq(%s, 0_usize)" % I, "binop:Le(%s, 0_usize)" % I):
                    exited = d[2] is True
                elif sd == "discr(%s)" % tok:
                    kind = d[2]
                elif sd == "discr(.0(as:Paren(%s)))" % tok:
                    sub = d[2]
                elif sd in ("binop:Eq(%s, 1_i32)" % C, "binop:Eq(1_i32, %s)" % C, "binop:Eq(binop:Add(%s, 0_i32), 1_i32)" % C):
                    eq1 = bool(d[2])
                else:
                    return False, "a step of the scan depends on %s" % sd[:100]
            if exited:
                if not (p.status == "return" and t.post is None and rel.cstr(p.result) == "Option::None"):
                    return False, "the exhausted scan does not return None"
                seen.add("none")
                continue
            if it is None and t.post is not None and rel.cstr(t.post[ixl]) != item:
                return False, "the index is not lowered by one per step"
            if t.post is None:
                if kind == "Op" and eq1 is True and p.status == "return" and rel.cstr(p.result) == "Option::Some{0: %s}" % item:
                    seen.add("found")
                    continue
                return False, "the scan is left on a %s token (count == 1: %s) with %s" % (kind, eq1, rel.cstr(p.result)[:60] if p.result is not None else p.status)
            post = rel.cstr(t.post[cnt])
            if kind == "Paren" and sub == "Open":
                want, tag = ("binop:Add(%s, 1_i32)" % C,), "open"
            elif kind == "Paren" and sub == "Close":
                want, tag = ("binop:Sub(%s, 1_i32)" % C, "binop:Add(%s, -1_i32)" % C), "close"
            else:
                want, tag = (C, "binop:Add(%s, 0_i32)" % C), "other"
                if kind == "Op" and eq1 is not False:
                    return False, "an operator token at count 1 does not end the scan"
            if post not in want:
                return False, "a %s token changes the running count to %s" % (tag if tag != "other" else kind, post[:60])
            seen.add(tag)
    missing = {"open", "close", "found", "none"} - seen
    if missing:
        return False, "cases not found: %s" % sorted(missing)
    return True, ""


def run(ctx):
    chk, fb = ctx.check, ctx.fb
    chk.rule("R08.1", "comma step: owner token replaced by `(`; `)`, the owner, `(` appended in this order")
    chk.rule("R08.2", "comma step never overwrites the record of owed closing parentheses (each guarding variable is a function of its previous value)")
    chk.rule("R08.3", "every additional `)` consumes from the record of owed closing parentheses")
    chk.rule("R08.4", "a comma without an owning operator ends in Err; a comma with one never does")
    chk.rule("R08.5", "when the owed `)` falls due: recorded depth = depth after the comma step - 1; emission iff the record's top EQUALS the depth after the `)` just read; every emission lowers the depth by one; `(` raises and `)` lowers the depth by exactly one")
    chk.rule("R08.6", "owner search: scanning backwards with +1 per `(` and -1 per `)`, the first operator at running count 1; its index converted back from the reversed position")
    tk = fb.find_bodies(lambda b: b["kind"] == "Fn" and b["path"].endswith("parser::tokenize_and_analyze"))
    owner = [s["path"] for s in fb.raw["sigs"] if len(s["inputs"]) == 1 and "ParsedToken<" in s["inputs"][0] and s["output"].startswith("std::option::Option<usize>")]
    if len(tk) != 1 or len(owner) != 1:
        chk.violation("R08.1", "anchor", "tokenizer / owner search (fn(&[ParsedToken]) -> Option<usize>) not found: %d / %s" % (len(tk), owner))
        return
    b = tk[0]
    owner = owner[0]
    where = loc(b["span"])
    names = {i: l.get("name") for i, l in enumerate(b["locals"])}
    pol = _P()
    pol.vocabulary = (owner,)
    allp = Interp(fb, pol).run(b, [Sym("text"), Sym("ops_in"), Sym("is_numeric")])
    bad = [p for p in allp if p.status not in ("return", "loop-pruned", "unreachable")]
    if bad:
        chk.unrecognised("R08.1", "shape", "tokenizer shape not recognised: %s" % [(p.status, p.note) for p in bad][:2], where)
        return
    # general trips of the loop over the characters
    trips = {}
    for p in allp:
        for t in loops.trips(p, b["path"], 0):
            if t.general:
                ch = _char_of(t)
                if ch in (",", ")", "("):
                    key = (t.header, ch, tuple((rel.cstr(d[1]), str(d[2])) for d in t.decisions), t.post is not None)
                    trips.setdefault(key, (t, p))
    # the loop over the characters is the one whose trips handle the literals (outermost such header)
    from collections import Counter
    hc = Counter(h for (h, ch, _, done) in trips)
    Hmain = min(hc) if hc else None
    commas = [(t, p) for (h, ch, _, done), (t, p) in trips.items() if ch == "," and h == Hmain]
    closes = [(t, p) for (h, ch, _, done), (t, p) in trips.items() if ch == ")" and done and h == Hmain]
    opens = [(t, p) for (h, ch, _, done), (t, p) in trips.items() if ch == "(" and done and h == Hmain]
    if not commas or not closes:
        chk.unrecognised("R08.1", "trips", "no general trip for ',' (%d) or ')' (%d) found in the tokenizer loop" % (len(commas), len(closes)), where)
        return
    H = commas[0][0].header
    chk.counts["comma_trips"] = len(commas)
    chk.counts["close_trips"] = len(closes)

    # ---- which variables guard the emission of an additional `)`
    guards = set()
    n_extra = 0
    discharge_ok = True
    for t, p in closes:
        seen_close = 0
        since = []
        for k, x in t.items:
            if k == "d":
                since.append(x)
            elif x[0] == "call" and x[1].endswith("::push") and len(x[2]) == 2 and _is_paren(x[2][1], "Close"):
                seen_close += 1
                if seen_close >= 2:
                    n_extra += 1
                    for d in since:
                        guards |= _loop_syms(d[1])
                since = []
    guards = {L for L in guards if names.get(L)}
    if not n_extra or not guards:
        chk.unrecognised("R08.3", "extra-close", "no emission of an additional `)` found in the `)` step (%d) or no guarding variable (%s)" % (n_extra, guards), where)
        return
    gnames = sorted(names[L] for L in guards)
    # ---- R08.3 an emission consumes from the record
    consumed_vars = set()
    for t, p in closes:
        pushes = [x for k, x in t.items if k == "e" and x[0] == "call" and x[1].endswith("::push") and len(x[2]) == 2 and _is_paren(x[2][1], "Close")]
        if len(pushes) < 2:
            continue
        consumed = False
        for L in guards:
            if L in t.pre and L in t.post and t.post[L].key() != t.pre[L].key():
                pv = t.post[L]
                # cleared
                if isinstance(pv, Const) and pv.ty == "bool" and pv.bits == 0:
                    consumed = True
                    consumed_vars.add(L)
        # popped (a nested `while` leaves its variables unknown after widening: look at the calls)
        for k, x in t.items:
            if k == "e" and x[0] == "call" and x[1].endswith("::pop") and x[2]:
                for L in _loop_syms(x[2][0]) & guards:
                    consumed = True
                    consumed_vars.add(L)
        if not consumed:
            discharge_ok = False
            chk.violation("R08.3", "discharge", "an additional `)` is emitted without consuming from the record of owed parentheses (%s): the same debt can be paid again" % gnames, where)
            break
    if discharge_ok:
        chk.ok("R08.3", "every additional `)` consumes from the record (%s)" % ", ".join(gnames), "%d emitting trips" % n_extra, where)

    # ---- R08.1 / R08.2 / R08.4 the comma step
    ok1 = ok2 = ok4 = True
    n_done = 0
    for t, p in commas:
        tags = [(rel.canon(d[1]), d[2]) for d in t.decisions if isinstance(d[1], App) and d[1].fn == "discr"]
        found = [l for c, l in tags if isinstance(c.args[0], App) and c.args[0].fn == owner]
        tried = [d for d in t.decisions if d[0] == "try" and isinstance(d[1], App) and owner in show(d[1])]
        some = ("Some" in found) or any(d[2] == "ok" for d in tried)
        none = ("None" in found) or any(d[2] == "err" for d in tried)
        if t.post is None:
            # the path ended inside the trip
            is_err = p.status == "return" and isinstance(p.result, Variant) and p.result.variant == "Err"
            if none and not is_err:
                ok4 = False
                chk.violation("R08.4", "no-owner", "a comma for which no owning operator is found does not end in Err", where)
            if is_err and not none and not some:
                ok4 = False
                chk.violation("R08.4", "rejects-call", "the comma step can end in Err before the owning operator is even looked for: a well-formed call (nested in a second argument, say) is rejected (%s)" % [
                    (rel.cstr(d[1])[:80], d[2]) for d in t.decisions if "Iterator::next(" not in rel.cstr(d[1])][-2:], where)
            if some and not none and is_err:
                ok4 = False
                chk.violation("R08.4", "rejects-call", "the comma step can end in Err although the owning operator was found: a well-formed call is rejected (%s)" % [
                    (rel.cstr(d[1])[:80], d[2]) for d in t.decisions if "Iterator::next(" not in rel.cstr(d[1])][-2:], where)
            continue
        if none or not some:
            ok4 = False
            chk.violation("R08.4", "no-owner", "the comma step completes although no owning operator was found", where)
            continue
        n_done += 1
        calls = [x for k, x in t.items if k == "e" and x[0] == "call"]
        rep = [x for x in calls if x[1] == "std::mem::replace"]
        pushes = [x for x in calls if x[1].endswith("::push") and len(x[2]) == 2 and isinstance(rel.canon(x[2][1]), (Variant, App))]
        tok_pushes = [x for x in pushes if "ParsedToken" in show(x[2][1]) or "mem::replace" in show(x[2][1])]
        good = len(rep) == 1 and _is_paren(rep[0][2][1], "Open")
        if good:
            # the replaced token is the one the owner search returns for ALL tokens read so far
            tgt = rel.canon(rep[0][2][0])
            good = isinstance(tgt, App) and tgt.fn.endswith("index_mut") and len(tgt.args) == 2
            if good:
                ix = rel.canon(tgt.args[1])
                good = isinstance(ix, App) and ix.fn == ".0" and isinstance(ix.args[0], App) and ix.args[0].fn == "as:Some" and isinstance(ix.args[0].args[0], App) \
                    and ix.args[0].args[0].fn == owner and len(ix.args[0].args[0].args) == 1 and rel.canon(ix.args[0].args[0].args[0]).key() == rel.canon(tgt.args[0]).key() \
                    and isinstance(rel.canon(tgt.args[0]), Unknown)
        if good:
            seq = []
            for x in tok_pushes:
                v = x[2][1]
                seq.append("Close" if _is_paren(v, "Close") else "Open" if _is_paren(v, "Open") else "owner" if "std::mem::replace(" in show(v) else "?")
            good = seq == ["Close", "owner", "Open"]
        if not good:
            ok1 = False
            chk.violation("R08.1", "rewrite", "the comma step does not rewrite `op(a, b)` to `((a) op (b))`: replace=%s pushes=%s" % (
                [show(x[2][1])[:40] for x in rep], [show(x[2][1])[:50] for x in tok_pushes]), where)
        # R08.2
        changed = [L for L in guards if L in t.pre and L in t.post and t.post[L].key() != t.pre[L].key()]
        unrecorded = [names[L] for L in consumed_vars if L not in changed]
        if not changed or unrecorded:
            ok2 = False
            chk.violation("R08.2", "no-record", "the comma step does not record the owed closing parenthesis in %s (the emission of the additional `)` consumes from it)" % (unrecorded or gnames), where)
        for L in changed:
            if t.pre[L].key() not in {s.key() for s in subterms(t.post[L])}:
                ok2 = False
                chk.violation("R08.2", "overwrite:%s" % names[L], "the comma step sets `%s` to %s regardless of its previous value: a call in the second argument of another call makes the enclosing call forget its owed `)` (e.g. max(1, max(2, 3)) is rejected with a parenthesis mismatch)" % (
                    names[L], show(t.post[L])[:60]), where)
    if n_done == 0:
        chk.unrecognised("R08.1", "comma", "no completed comma step found", where)
        return
    if ok1:
        chk.ok("R08.1", "comma step: owner -> `(`; appends `)`, owner, `(`", "%d completed comma trips" % n_done, where)
    if ok2:
        chk.ok("R08.2", "comma step keeps the record of owed closing parentheses (%s are functions of their previous values)" % ", ".join(gnames), "", where)
    if ok4:
        chk.ok("R08.4", "comma without owner => Err", "", where)
    chk.sample({"guards_of_additional_close": gnames, "comma_trips": len(commas), "close_trips": len(closes)})

    # ---- R08.5 due depth (for the representation `running depth` + `stack of due depths`)
    depth = [L for L in guards if L not in consumed_vars]
    stack = [L for L in consumed_vars]
    if len(depth) == 1 and len(stack) == 1:
        D, S = depth[0], stack[0]
        probs = []
        for t, p in commas:
            if t.post is None:
                continue
            pushes = [x for k, x in t.items if k == "e" and x[0] == "call" and x[1].endswith("::push") and S in _loop_syms(x[2][0])]
            if len(pushes) != 1:
                probs.append("the comma step pushes %d due depths" % len(pushes))
                continue
            from analysis import dom as _dom
            lv = _dom.linear(_dom.parse_term(rel.cstr(pushes[0][2][1]).replace("binop:", "")))
            ld = _dom.linear(_dom.parse_term(rel.cstr(t.post[D]).replace("binop:", "")))
            if lv is None or ld is None:
                probs.append("due depth / depth after the comma are not linear in the depth: %s / %s" % (rel.cstr(pushes[0][2][1])[:60], rel.cstr(t.post[D])[:60]))
                continue
            diff = dict(ld)
            for k2, v2 in lv.items():
                diff[k2] = diff.get(k2, 0) - v2
            diff = {k2: v2 for k2, v2 in diff.items() if v2}
            if diff != {"1": 1}:
                probs.append("the recorded due depth is not (depth after the comma step) - 1: depth' - due = %s" % diff)
        for t, p in opens:
            if rel.cstr(t.post[D]) != "binop:Add(%s, 1_i32)" % rel.cstr(t.pre[D]) or (S in t.post and t.post[S].key() != t.pre[S].key()):
                probs.append("`(` does not raise the depth by exactly one (or touches the record)")
        n_emit = 0
        for t, p in closes:
            cur = t.pre[D]
            first = True
            for k, x in t.items:
                if k == "d":
                    c = rel.canon(x[1])
                    if S in _loop_syms(c) or "::last(" in rel.cstr(c):
                        # the test that decides about an emission
                        is_eq = isinstance(c, App) and c.fn in ("std::cmp::PartialEq::eq", "binop:Eq")
                        acc = re.findall(r"::(first|last|get|index)\(", rel.cstr(c))
                        if acc and "last" not in acc:
                            probs.append("the emission test looks at `%s` of the record, but the emission consumes its top (pop): with two calls pending the inner one is never closed" % acc[0])
                        if not is_eq:
                            probs.append("the emission test is not an equality: %s" % rel.cstr(c)[:90])
                            continue
                        other = [a for a in c.args if S not in _loop_syms(a) and "::last(" not in rel.cstr(a)]
                        if first:
                            want = "binop:Sub(%s, 1_i32)" % rel.cstr(t.pre[D])
                            got = rel.cstr(other[0]) if other else "?"
                            got = re.sub(r"^Option::Some\{0: (.*)\}$", r"\1", got)
                            if got != want:
                                probs.append("the first emission test after `)` compares the record with %s, expected the depth after the `)` (%s)" % (got[:60], want[:60]))
                            first = False
                elif x[0] == "call" and x[1].endswith("::pop"):
                    n_emit += 1
        # an emission made directly in the `)` step (no emitting loop of its own): the step lowers the depth by 1 + #emissions
        for t, p in closes:
            pops = sum(1 for k, x in t.items if k == "e" and x[0] == "call" and x[1].endswith("::pop"))
            nested = any(k == "e" and x[0] == "loophead" and x[1] != Hmain and x[2] == b["path"] for k, x in t.items)
            # (an emitting loop inside an inlined helper leaves the caller's depth as the caller wrote it: still judged here)
            if pops and not nested and D in t.pre and D in t.post and not isinstance(rel.canon(t.post[D]), Unknown):
                from analysis import dom as _dom
                l0 = _dom.linear(_dom.parse_term(rel.cstr(t.pre[D]).replace("binop:", "")))
                l1 = _dom.linear(_dom.parse_term(rel.cstr(t.post[D]).replace("binop:", "")))
                if l0 is None or l1 is None:
                    probs.append("depth after an emitting `)` step is not linear in the depth: %s" % rel.cstr(t.post[D])[:60])
                    continue
                diff = dict(l1)
                for k2, v2 in l0.items():
                    diff[k2] = diff.get(k2, 0) - v2
                diff = {k2: v2 for k2, v2 in diff.items() if v2}
                if diff != {"1": -(1 + pops)}:
                    probs.append("a `)` step that emits %d additional `)` changes the depth by %s instead of %d: an emission of the additional `)` does not lower the depth by one" % (pops, diff.get("1", 0), -(1 + pops)))
        # every emission lowers the depth by one (the emitting loop's own trips)
        for p in allp:
            for t2 in loops.trips(p, b["path"], 0):
                if t2.header == Hmain or t2.post is None:
                    continue
                emits = any(k == "e" and x[0] == "call" and x[1].endswith("::pop") for k, x in t2.items)
                if emits and (D not in t2.pre or D not in t2.post):
                    probs.append("an emission of the additional `)` leaves the depth unchanged")
                    continue
                if emits:
                    ca, cb = rel.const_int(t2.pre[D]), rel.const_int(t2.post[D])
                    lowered = (cb == ca - 1) if (ca is not None and cb is not None) else rel.cstr(t2.post[D]) == "binop:Sub(%s, 1_i32)" % rel.cstr(t2.pre[D])
                    if not lowered:
                        probs.append("an emission of the additional `)` does not lower the depth by one (depth becomes %s)" % rel.cstr(t2.post[D])[:60])
        if not n_emit:
            probs.append("no emission observed")
        if probs:
            chk.violation("R08.5", "due-depth", "; ".join(sorted(set(probs))[:3]), where)
        else:
            chk.ok("R08.5", "owed `)` falls due exactly when the depth returns to (depth after the comma) - 1", "record %s, depth %s" % (names[S], names[D]), where)
    else:
        chk.note("R08.5 not decided: the record is not of the form (running depth, stack of due depths): guards %s, consumed %s" % (gnames, sorted(names[L] for L in consumed_vars)))

    # ---- R08.6 owner search
    ob = fb.bodies.get(owner)
    if ob is None:
        chk.violation("R08.6", "anchor", "owner search body not found")
        return

    class PO(_P):
        pass
    ps = [p for p in Interp(fb, PO()).run(ob, [Sym("toks")]) if p.status != "unreachable"]
    somes = [p for p in ps if p.status == "return" and isinstance(p.result, Variant) and p.result.variant == "Some"]
    good = len(ps) == 2 and len(somes) == 1
    why = "shape"
    if good:
        r = rel.cstr(somes[0].result.fields["0"])
        m = re.match(r"^binop:Sub\(binop:Sub\(core::slice::<impl \[T\]>::len\(toks\), 1_usize\), \.0\(\.0\(as:Some\((std::iter::Iterator::find\(.*\))\)\)\)\)$", r) or \
            re.match(r"^binop:Sub\(binop:Sub\(core::slice::<impl \[T\]>::len\(toks\), 1_usize\), \.0\(as:Some\((std::iter::Iterator::position\(.*\))\)\)\)$", r)
        good = m is not None
        why = "index conversion is %s" % r[:100]
        if good:
            f = m.group(1)
            REV = r"std::iter::Iterator::rev\(core::slice::<impl \[T\]>::iter\(toks\)\)"
            m2 = re.match(r"^std::iter::Iterator::find\(std::iter::Iterator::enumerate\(std::iter::Iterator::zip\(%s, std::iter::Iterator::scan\(%s, 0_i32, closure<\{closure#(\d+)\}>\)\)\), closure<\{closure#(\d+)\}>\)$" % (REV, REV), f)
            with_index = m2 is not None
            if m2 is None:
                m2 = re.match(r"^std::iter::Iterator::position\(std::iter::Iterator::zip\(%s, std::iter::Iterator::scan\(%s, 0_i32, closure<\{closure#(\d+)\}>\)\), closure<\{closure#(\d+)\}>\)$" % (REV, REV), f)
            good = m2 is not None
            why = "search is %s" % f[:140]
            if good:
                sc = fb.bodies.get("%s::{closure#%s}" % (owner, m2.group(1)))
                pc = fb.bodies.get("%s::{closure#%s}" % (owner, m2.group(2)))
                # running count: +1 `(`, -1 `)`, 0 otherwise, yielded after the update
                deltas = {}
                for nm, tok in (("open", Variant(TOK, "Paren", {"0": Variant("parser::Paren", "Open", {})})), ("close", Variant(TOK, "Paren", {"0": Variant("parser::Paren", "Close", {})})),
                                ("num", Variant(TOK, "Num", {"0": Sym("n")})), ("var", Variant(TOK, "Var", {"0": Sym("v")})), ("op", Variant(TOK, "Op", {"0": Sym("o")}))):
                    qs = [q for q in Interp(fb, PO()).run(sc, [Sym("env"), Sym("state"), tok]) if q.status == "return"]
                    wr = [e for q in qs for e in q.events if e[0] == "write_opaque"]
                    res = [rel.cstr(q.result) for q in qs]
                    deltas[nm] = (rel.cstr(wr[0][3]) if len(wr) == 1 else "?", res[0] if len(res) == 1 else "?")
                want = {"open": "binop:Add(state, 1_i32)", "close": "binop:Add(state, -1_i32)", "num": "binop:Add(state, 0_i32)", "var": "binop:Add(state, 0_i32)", "op": "binop:Add(state, 0_i32)"}
                for nm, (w_, r_) in deltas.items():
                    if w_ != want[nm] or r_ != "Option::Some{0: %s}" % want[nm]:
                        good = False
                        why = "running count for a %s token: state := %s, yields %s" % (nm, w_, r_)
                if good:
                    # predicate: operator token at running count 1
                    verdicts = {}
                    for nm, tok in (("op", Variant(TOK, "Op", {"0": Sym("o")})), ("num", Variant(TOK, "Num", {"0": Sym("n")})), ("open", Variant(TOK, "Paren", {"0": Variant("parser::Paren", "Open", {})}))):
                        parg = Tup([Sym("i"), Tup([tok, Sym("cnt")])]) if with_index else Tup([tok, Sym("cnt")])
                        qs = [q for q in Interp(fb, PO()).run(pc, [Sym("env"), parg]) if q.status == "return"]
                        verdicts[nm] = sorted((rel.cstr(q.result), tuple((rel.cstr(d[1]), str(d[2])) for d in q.decisions)) for q in qs)
                    op_ok = verdicts["op"] == sorted([("true", (("binop:Eq(cnt, 1_i32)", "True"),)), ("false", (("binop:Eq(cnt, 1_i32)", "False"),))])
                    rest_ok = all(all(v[0] == "false" for v in verdicts[k]) and verdicts[k] for k in ("num", "open"))
                    if not (op_ok and rest_ok):
                        good = False
                        why = "predicate verdicts %s" % {k: v[:2] for k, v in verdicts.items()}
    if not good:
        g3 = _owner_rposition_idiom(fb, ob, ps, PO)
        if g3 is True:
            good = True
        elif g3:
            why = "%s; as rposition with a running count: %s" % (why, g3)
    if not good:
        g2, why2 = _owner_loop_idiom(fb, ob)
        if g2:
            good = True
        elif why2:
            why = "%s; as an explicit loop: %s" % (why, why2)
    if good:
        chk.ok("R08.6", "owner search: first operator at running paren count 1, scanning backwards", "", loc(ob["span"]))
    else:
        chk.violation("R08.6", "owner-search", "the owner search is not `scan backwards, +1 per '(' and -1 per ')', first operator token at count 1, index = len - 1 - reversed index`: %s" % why, loc(ob["span"]))
