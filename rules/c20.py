"""C20 — Expressions are immutable values that can be shared across threads."""
import re
from analysis import witness, mir
from analysis.callgraph import CallGraph
from analysis.facts import loc

LEVEL = "proof"
TECHNIQUE = "type-level witness crates (compile / compile-fail twins) + deep type walk + signature, unsafe, statics and deny-list call-graph queries over the type-checked program"
EXPLANATION = (
    "Discharges C20 through the compiler's own guarantees: (1) a generic witness `FlatEx<T,OF,LM>: Send+Sync` / "
    "`DeepEx<'static,T,OF,LM>: Send+Sync` for ALL thread-safe T,OF,LM type-checks, and three negative twins that differ "
    "by one line fail with E0277; (2) an exhaustive walk of every type reachable through the fields of the expression "
    "types finds no UnsafeCell outside a type-parameter leaf (positive control: RefCell is flagged); (3) every evaluation / "
    "query method takes &self (witness + signatures); (4) no unsafe code in the crate; (5) statics inventory: only the "
    "Once-guarded lazy_static regex cells, none mut or thread-local; (6) no call into a nondeterminism source "
    "(time, env, threads, fs, net, rand, hash-iteration, pointer->int casts) anywhere in the library. With (2)-(4), "
    "Rust's aliasing rules make mutation through &self impossible for every history and interleaving."
)
TRUSTED = [
    "rustc type checking / borrow checking / auto-trait inference",
    "soundness of unsafe code inside smallvec, regex, lazy_static, std",
    "regex's internal caches do not influence match results",
    "the data type's own Clone/FromStr implementations",
]
ASSUMPTIONS = ["determinism of user-supplied operator functions and of T's trait impls is the user's responsibility"]

DENY_PREFIX = [
    "std::time::", "std::env::", "std::thread::", "std::process::", "std::fs::", "std::net::",
    "std::os::", "std::hash::RandomState", "std::collections::hash_map::RandomState", "rand::", "rand_core::", "getrandom::",
    "std::sync::atomic::", "std::sync::Mutex", "std::sync::RwLock", "std::cell::",
]
HASH_ITER = ("iter", "iter_mut", "keys", "values", "values_mut", "into_iter", "drain", "into_keys", "into_values", "retain")
OUTPUT_ONLY = ["std::io::_print", "std::io::_eprint"]

SHARED_API = ["eval", "eval_relaxed", "unparse", "var_names", "binary_reprs", "unary_reprs", "operator_reprs"]
SHARED_API_FLAT = ["eval_vec", "eval_iter", "var_indices_ordered"]


def warm():
    witness.check("c20")


def run(ctx):
    chk, fb = ctx.check, ctx.fb
    chk.rule("R20.1", "witness: FlatEx/DeepEx/Operator<T,OF,LM> are Send+Sync for all Send+Sync T,OF,LM (must type-check); "
                      "negative twins with a Cell-based data type / Rc must fail with E0277")
    chk.rule("R20.2", "no UnsafeCell reachable through the fields of FlatEx, DeepEx, DeepNode, Val, Operator, ExError except under a type-parameter leaf")
    chk.rule("R20.3", "evaluation/query API takes &self")
    chk.rule("R20.4", "no user-written unsafe block, unsafe fn or unsafe impl in the crate")
    chk.rule("R20.5", "statics: none mut, none thread-local; interior mutability only inside a Once-guarded write-once cell (lazy_static's Lazy, std::sync::LazyLock / OnceLock)")
    chk.rule("R20.6", "no call into a nondeterminism / shared-mutable-state source from library code")

    # ---- R20.1 witnesses
    ok, diags, tail = witness.check("c20")
    if ok:
        chk.ok("R20.1", "positive witness type-checks", "generic + 9 concrete instantiations + &self API")
        chk.sample({"witness": "generic<T,OF,LM>() where T,OF,LM: Send+Sync => FlatEx<T,OF,LM>: Send+Sync, DeepEx<'static,T,OF,LM>: Send+Sync", "result": "type-checks"})
    else:
        own = [d for d in diags if d["crate"] == "c20_witness"]
        if own:
            d = own[0]
            chk.violation("R20.1", "positive-witness", "Send+Sync / &self witness does not type-check: %s %s (%s)" % (d["code"], d["message"], d["text"]),
                          "witness/c20/src/lib.rs:%s" % d["line"], fragment=own[:5])
        else:
            chk.violation("R20.1", "positive-witness", "witness crate failed to build: " + tail[-600:])
    if ok:
        for feat, what in (("neg_flat", "FlatEx<Celled,..>: Sync"), ("neg_deep", "DeepEx<Celled,..>: Sync"), ("neg_val", "Rc<Val>: Send+Sync")):
            nok, nd, _ = witness.check("c20", [feat])
            own = [d for d in nd if d["crate"] == "c20_witness"]
            if not nok and own and all(d["code"] == "E0277" for d in own):
                chk.ok("R20.1", "negative twin %s fails with E0277" % feat, own[0]["message"])
                chk.sample({"witness": what, "result": "E0277: " + own[0]["message"][:90]})
            else:
                chk.violation("R20.1", "twin:%s" % feat, "negative twin %s (%s) did not fail with exactly E0277: ok=%s %s" % (feat, what, nok, [(d["code"], d["message"][:80]) for d in own][:3]))

    # ---- R20.2 type walk
    need = {"flat::FlatEx": False, "deep::DeepEx": False, "deep::DeepNode": False, "value::Val": False, "operators::Operator": False, "result::ExError": False}
    for w in fb.raw["type_walks"]:
        for k in need:
            if w["root"].endswith(k):
                need[k] = True
                hits = w["unsafe_cell_hits"]
                if hits:
                    for h in hits:
                        chk.violation("R20.2", "unsafecell:%s:%s" % (k, h["ty"]), "interior mutability reachable from %s: %s via %s" % (k, h["ty"], h["via"]))
                elif w["dyns"] or w["unknown"]:
                    chk.unrecognised("R20.2", "opaque:%s" % k, "type walk of %s met types it cannot see through: %s" % (k, (w["dyns"] + w["unknown"])[:4]))
                else:
                    chk.ok("R20.2", "walk %s" % k, "%d types visited, leaves %s, fn pointers %s" % (w["visited"], sorted(w["param_leaves"]), w["fnptrs"]))
                    chk.sample({"walk": w["root"], "visited": w["visited"], "param_leaves": sorted(w["param_leaves"])})
    for k, seen in need.items():
        if not seen:
            chk.violation("R20.2", "anchor:%s" % k, "type %s not found for the type walk" % k)
    ctrl = fb.raw.get("control_walks", [])
    if ctrl and ctrl[0]["unsafe_cell_hits"]:
        chk.ok("R20.2", "positive control: RefCell flagged", ctrl[0]["unsafe_cell_hits"][0]["ty"])
    else:
        chk.violation("R20.2", "control", "positive control failed: the walker did not flag std::cell::RefCell")
    chk.floor("R20.2", "types visited from FlatEx", max([w["visited"] for w in fb.raw["type_walks"] if w["root"].endswith("flat::FlatEx")] or [0]), 40)

    # ---- R20.3 &self API
    n_api = 0
    for s in fb.raw["sigs"]:
        nm = s["name"]
        is_express = (s.get("trait") or "").endswith("expression::Express") or ("Express" in (s.get("impl_self_ty") or "") and False)
        owner = s.get("impl_self_ty") or s.get("trait") or ""
        relevant = (nm in SHARED_API and (s.get("trait") or "").endswith("Express")) or \
                   (nm in SHARED_API + SHARED_API_FLAT and ("FlatEx<" in owner or "DeepEx<" in owner))
        if not relevant or not s["inputs"]:
            continue
        n_api += 1
        first = s["inputs"][0]
        shared = first.startswith("&") and not re.match(r"&('\w+ )?mut ", first)
        if shared:
            chk.ok("R20.3", "%s::%s takes %s" % (owner, nm, first.split(" ")[0] + "…"), "", loc(s["span"]))
        else:
            chk.violation("R20.3", "sig:%s:%s" % (owner.split("<")[0], nm), "%s::%s takes `%s`, not a shared borrow" % (owner, nm, first), loc(s["span"]))
    chk.floor("R20.3", "API signatures", n_api, 17)

    # ---- R20.4 unsafe
    user_unsafe = [u for u in fb.raw["unsafe_blocks"] if "UserProvided" in u["source"]]
    for u in user_unsafe:
        chk.violation("R20.4", "unsafe-block:%s" % u["span"]["file"], "unsafe block", loc(u["span"]))
    for s in fb.raw["sigs"]:
        if s["unsafe"]:
            chk.violation("R20.4", "unsafe-fn:%s" % s["path"], "unsafe fn %s" % s["path"], loc(s["span"]))
    for im in fb.impls:
        if im["unsafe"] and not im["derived"]:
            chk.violation("R20.4", "unsafe-impl:%s:%s" % (im["trait"], im["self_ty"]), "unsafe impl %s for %s" % (im["trait"], im["self_ty"]), loc(im["span"]))
        if im.get("trait_path") in ("std::marker::Send", "std::marker::Sync"):
            chk.violation("R20.4", "manual-auto-impl:%s:%s" % (im["trait"], im["self_ty"]), "manual impl of %s for %s" % (im["trait"], im["self_ty"]), loc(im["span"]))
    if not user_unsafe:
        chk.ok("R20.4", "no user-written unsafe", "%d compiler-generated unsafe blocks (format_args!/derive expansions) ignored" % len(fb.raw["unsafe_blocks"]))
    n_gen = len(fb.raw["unsafe_blocks"])
    # positive control: the HIR visitor does see unsafe blocks (compiler-generated ones from format_args!)
    if n_gen > 0:
        chk.ok("R20.4", "positive control: visitor sees unsafe blocks", "%d compiler-generated" % n_gen)
    else:
        chk.violation("R20.4", "control", "positive control failed: the unsafe-block visitor saw no unsafe block at all (format_args! expansions expected)")

    # ---- R20.5 statics
    walks = {w["root"]: w for w in fb.raw.get("static_walks", [])}
    for st in fb.statics:
        key = st["path"]
        if st["mutable"]:
            chk.violation("R20.5", "static-mut:%s" % key, "static mut %s" % key, loc(st["span"]))
            continue
        if st["thread_local"]:
            chk.violation("R20.5", "thread-local:%s" % key, "thread-local static %s" % key, loc(st["span"]))
            continue
        w = walks.get(key)
        hits = w["unsafe_cell_hits"] if w else [{"ty": "?"}]
        # write-once cells whose initialisation is synchronised (Once-guarded): lazy_static's Lazy, std's LazyLock / OnceLock
        if hits and not st["ty"].startswith(("lazy_static::lazy::Lazy<", "std::sync::LazyLock<", "std::sync::OnceLock<", "once_cell::sync::Lazy<", "once_cell::sync::OnceCell<")):
            chk.violation("R20.5", "static-interior-mut:%s" % key, "static %s: %s has interior mutability (%s): shared mutable global state" % (key, st["ty"], hits[0]["ty"]), loc(st["span"]))
        else:
            chk.ok("R20.5", "static %s" % key, st["ty"] + (" (Once-guarded lazy cell, trusted)" if hits else " (no interior mutability)"), loc(st["span"]))
    chk.counts["statics"] = len(fb.statics)

    # ---- R20.6 deny list over all library bodies
    cg = CallGraph(fb)
    n_ext = 0
    for p, lst in cg.ext.items():
        b = fb.bodies[p]
        for fn, span, is_call in lst:
            n_ext += 1
            path = fn["path"]
            bad = None
            for pre in DENY_PREFIX:
                if path.startswith(pre):
                    bad = pre
            tytext = path + " " + (fn.get("self_ty") or "") + " " + " ".join(fn.get("args", []))
            if ("HashMap<" in tytext or "HashSet<" in tytext or "hash_map::" in tytext or "hash_set::" in tytext) and fn["name"] in HASH_ITER:
                bad = "hash iteration order"
            if path in OUTPUT_ONLY:
                continue
            if bad:
                chk.violation("R20.6", "deny:%s:%s" % (p, path), "%s calls %s (%s)" % (p, path, bad), loc(span))
    for p, b in fb.bodies.items():
        for bi, si, st in mir.iter_stmts(b, mir.normal_blocks(b)):
            if st["k"] == "assign":
                rv = st["rv"]
                if rv["k"] == "cast" and "ExposeProvenance" in rv["kind"]:
                    chk.violation("R20.6", "ptr2int:%s" % p, "pointer-to-integer cast in %s" % p, loc(st["span"]))
                if rv["k"] == "threadlocalref":
                    chk.violation("R20.6", "tls:%s" % p, "thread-local access in %s" % p, loc(st["span"]))
    chk.ok("R20.6", "deny-list scan", "%d external call sites / address-taken fns in %d bodies scanned" % (n_ext, len(fb.bodies)))
    chk.floor("R20.6", "external call sites scanned", n_ext, 1000)
