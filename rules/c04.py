"""C04 — Variables are found, ordered and bound exactly as documented (structural clauses)."""
import re

from analysis import mir, dom, typestate
from analysis.facts import loc

LEVEL = "other"
TECHNIQUE = "DOM: the arity guard (relation between #names and #values derived from the comparison) dominates every use of the values in each evaluation entry point, the other edge reaches only Err; TYPESTATE: interprocedural origin classification of every value ever stored into a var_names field (sorted + duplicate-free)"
EXPLANATION = (
    "Decides for every expression and every slice length: (R04.1) in each evaluation entry point (FlatEx::eval / eval_relaxed / "
    "eval_vec / eval_iter, DeepEx::eval / eval_relaxed) every use of the passed values other than measuring their length is "
    "dominated by an edge on which #names == #values (strict variants) resp. #names <= #values (relaxed variants) holds, and the "
    "opposite edge reaches only an Err return - wrong arity is an error, never a wrong result or an out-of-bounds index; "
    "(R04.2) every value ever stored into a var_names field of a flat or deep expression is sorted in Rust string order and "
    "duplicate-free: it is the empty list, an element-wise copy of another expression's list, or a local on which a natural-order "
    "sort is the last mutating event and whose every push is guarded by a negative membership test (parser, DeepEx::new, "
    "var_names_union, subs), closed over all call sites of the functions that take the list as a parameter. "
    "Not decided: that index n is bound to name n at every occurrence (value level), brace/bare identity, Unicode ordering "
    "(delegated to str: Ord, which is what 'Rust string order' means)."
)
TRUSTED = ["rustc MIR construction", "exporter faithfulness", "std: sort / sort_unstable order by Ord; contains / any are membership tests"]

ENTRY_NAMES = ("eval", "eval_relaxed", "eval_vec", "eval_iter")
MEASURES = ("len", "is_empty")


def helper_relations(fb, call_term):
    """[(op, k, kind)]: `#names op X` holds on every Ok return of the crate-local callee, X being its k-th argument
    (kind 'len-arg') or the length of its k-th argument (kind 'values-arg')."""
    from analysis import rel as _rel
    from analysis.interp import Interp, Policy, Sym, App, Variant
    f = call_term["func"]
    if f.get("k") != "fndef":
        return []
    body = fb.bodies.get(f.get("path"))
    if body is None:
        cands = [b for p, b in fb.bodies.items() if b.get("name") == f.get("name") and p.endswith("::" + f.get("name", "?"))]
        body = cands[0] if len(cands) == 1 else None
    if body is None or len(body["blocks"]) > 40:
        return []
    cache = fb.__dict__.setdefault("_helper_rel", {})
    if body["path"] in cache:
        return cache[body["path"]]

    class P(Policy):
        loop_mode = "widen"
    ps = [p for p in Interp(fb, P()).run(body, [Sym("$%d" % i) for i in range(body["arg_count"])]) if p.status not in ("unreachable", "loop-pruned")]
    out = None
    if all(p.status == "return" for p in ps):
        for p in ps:
            if not (isinstance(p.result, Variant) and p.result.variant == "Ok"):
                continue
            here = set()
            for a, op, b in _rel.Facts(p).rel:
                for x, y, o in ((a, b, op), (b, a, {"<": ">", "<=": ">=", "==": "==", "!=": "!="}[op])):
                    if isinstance(x, Sym) and x.name.startswith("$") and isinstance(y, Sym) and y.name.startswith("$"):
                        # a free-standing check of two counts: `check(n_names, n_values)?`
                        here.add((o, (int(x.name[1:]), int(y.name[1:])), "arg-arg"))
                        continue
                    if not (isinstance(x, App) and x.fn.endswith("::len") and "var_names" in _rel.cstr(x)):
                        continue
                    if isinstance(y, Sym) and y.name.startswith("$"):
                        here.add((o, int(y.name[1:]), "len-arg"))
                    elif isinstance(y, App) and y.fn.endswith("::len") and len(y.args) == 1 and isinstance(y.args[0], Sym) and y.args[0].name.startswith("$"):
                        here.add((o, int(y.args[0].name[1:]), "values-arg"))
            out = here if out is None else (out & here)
    res = sorted(out or [])
    cache[body["path"]] = res
    return res


def run(ctx):
    chk, fb = ctx.check, ctx.fb
    chk.rule("R04.1", "arity guard dominates every use of the values; strict: #names == #values, relaxed: #names <= #values; other edge reaches only Err")
    chk.rule("R04.2", "every value stored into a var_names field is Sorted+Deduplicated (EMPTY | COPY | SORTED local | PARAM at all call sites | CALL result)")
    ents = fb.find_bodies(lambda b: b["kind"] == "AssocFn" and b.get("name") in ENTRY_NAMES and
                          re.match(r"^expression::(flat::FlatEx|deep::DeepEx)<", b.get("impl_self_ty") or ""))
    n = 0
    for b0 in ents:
        b = dom.refine(b0)
        org = dom.Origins(b)
        relaxed = b["name"].endswith("_relaxed")
        short = "%s::%s" % ("FlatEx" if "FlatEx" in b["impl_self_ty"] else "DeepEx", b["name"])
        # value atoms: the second parameter and locals collected from it
        vals = {"param:%s" % org.name(2)}
        grew = True
        while grew:
            grew = False
            for i in range(b["arg_count"] + 1, len(b["locals"])):
                nm = org.name(i)
                if not nm or ("var:%s" % nm) in vals:
                    continue
                dt = org.def_term(i)
                if dt and any(v in dt for v in vals):
                    vals.add("var:%s" % nm)
                    grew = True

        def mentions(term, strip_len=False):
            if strip_len:
                # measuring the container is not a use of the values
                prev = None
                while prev != term:
                    prev = term
                    term = re.sub(r"[\w:<>\[\], ']*::(len|is_empty)\([^()]*\)", "LEN", term)
            return any(re.search(re.escape(v) + r"(?![\w#])", term) for v in vals)
        uses = []
        for bi, t in mir.calls(b):
            f = t["func"]
            nm = f.get("name") if f.get("k") == "fndef" else None
            terms = [org.op_term(a) for a in t["args"]]
            direct = [x for x in terms if mentions(x, strip_len=True)]
            if not direct:
                continue
            if nm in MEASURES or (mir.callee_path(t) or "").startswith("core::fmt") or (mir.callee_path(t) or "").startswith("std::fmt"):
                continue
            # building a derived container from the values (collect) is not yet a use of individual values
            if nm in ("collect", "into_iter", "deref", "deref_mut") and len(t["args"]) == 1:
                continue
            uses.append((bi, mir.callee_path(t) or "fnptr", t["span"]))
        for bi, si, st in mir.iter_stmts(b, mir.normal_blocks(b)):
            if st["k"] == "assign" and st["rv"]["k"] == "aggregate" and st["rv"]["agg"] == "closure":
                if any(mentions(org.op_term(o)) for o in st["rv"]["ops"]):
                    uses.append((bi, "closure capture", st["span"]))
            if st["k"] == "assign" and st["rv"]["k"] in ("use", "ref"):
                pl = st["rv"].get("place") or st["rv"].get("op", {}).get("place")
                if pl and any(e["k"] in ("index", "constindex") for e in pl["proj"]) and mentions(org.place_term(pl)):
                    uses.append((bi, "index", st["span"]))
        if not uses:
            chk.unrecognised("R04.1", "no-use:%s" % short, "no use of the passed values found in %s" % b["path"], loc(b["span"]))
            continue
        n += 1
        allok = True
        for (ub, what, span) in uses:
            good = False
            for (s, lab, term, gspan) in dom.dominating_guards(b, ub, org):
                r = dom.relation(term, lab)
                if not r:
                    # `match a.cmp(&b) { Equal => .., Less | Greater => Err(..) }`: the discriminant of the ordering
                    pt = dom.parse_term(term)
                    if isinstance(pt, tuple) and pt[0] == "discr" and len(pt[1]) == 1 and isinstance(pt[1][0], tuple) and pt[1][0][0] == "std::cmp::Ord::cmp" and len(pt[1][0][1]) == 2 \
                            and lab in (0, 1, 255, -1):
                        a_, b_ = (dom.unparse_term(x) for x in pt[1][0][1])
                        r = dom.relation("%s(%s, %s)" % ({0: "Eq", 1: "Gt", 255: "Lt", -1: "Lt"}[lab], a_, b_), True)
                if not r:
                    continue
                op, diff = r
                names = [k for k in diff if "var_names" in k]
                values = [k for k in diff if k not in names and k != "1" and mentions(k)]
                if len(diff) != 2 or len(names) != 1 or len(values) != 1:
                    continue
                cn, cv = diff[names[0]], diff[values[0]]
                if (cn, cv) == (-1, 1):
                    op = {"<": ">", "<=": ">=", ">": "<", ">=": "<=", "==": "==", "!=": "!="}[op]
                elif (cn, cv) != (1, -1):
                    continue
                # now: names - values  op  0
                holds = (op == "==") or (relaxed and op in ("<=", "<"))
                if not holds:
                    continue
                # the other edge must end in Err
                others = [tgt for (l2, tgt) in dom.switch_edges(b, s) if l2 != lab and b["blocks"][tgt]["term"]["k"] != "unreachable"]
                oe = all(dom.reaches_only_err(b, tgt)[0] for tgt in others)
                if oe:
                    good = True
                    rel = "#names %s #values" % op
            if not good:
                # guard inside a helper: `self.check(values.len())?` - the relation holds on every Ok return of the helper
                doms = mir.dominators(b)
                for cb_, t_ in mir.calls(b):
                    edge = dom.question_mark_ok_edge(b, cb_)
                    if edge is None or edge[1] not in doms.get(ub, ()):
                        continue
                    for (op, k, kind) in helper_relations(fb, t_):
                        if kind == "arg-arg":
                            i_, j_ = k
                            if max(i_, j_) >= len(t_["args"]):
                                continue
                            ai, aj = org.op_term(t_["args"][i_]), org.op_term(t_["args"][j_])
                            if "var_names" in ai and re.search(r"::len\(", ai) and re.search(r"::len\(", aj) and mentions(aj) and not mentions(ai):
                                if (op == "==") or (relaxed and op in ("<=", "<")):
                                    good = True
                                    rel = "#names %s #values, established by %s" % (op, (mir.callee_path(t_) or "?").split("::")[-1])
                            continue
                        if k >= len(t_["args"]):
                            continue
                        at = org.op_term(t_["args"][k])
                        if kind == "len-arg":
                            if not re.search(r"::len\(", at) or not mentions(at):
                                continue
                        elif not mentions(at):
                            continue
                        if (op == "==") or (relaxed and op in ("<=", "<")):
                            good = True
                            rel = "#names %s #values, established by %s" % (op, (mir.callee_path(t_) or "?").split("::")[-1])
            if good:
                chk.ok("R04.1", "%s: %s guarded (%s)" % (short, what.split("::")[-1], rel), "", loc(span))
            else:
                allok = False
                need = "#names <= #values" if relaxed else "#names == #values"
                chk.violation("R04.1", "arity:%s" % short, "%s uses the passed values (%s) without a dominating guard establishing %s with an Err on the other edge" % (
                    b["path"], what, need), loc(span))
        if allok:
            chk.sample({"entry": b["path"], "mode": "relaxed" if relaxed else "strict", "uses": [u[1] for u in uses]})
    chk.floor("R04.1", "evaluation entry points", n, 6)

    # ---- R04.2
    eng = typestate.SortedNames(fb)
    sites = typestate.var_names_sites(fb)
    for (b, bi, kind, term, span) in sites:
        key = "%s:%s" % (b["path"], kind)
        if kind.startswith("mutated-by:"):
            chk.violation("R04.2", "mutation:%s" % key, "var_names is modified in place by %s in %s" % (kind[11:], b["path"]), loc(span))
            continue
        r = eng.classify(b, term)
        if r.ok:
            chk.ok("R04.2", "%s: %s" % (b["path"].split("::", 2)[-1], r.kind), r.why[:140], loc(span))
            chk.sample({"site": b["path"], "stored": term[:100], "class": r.kind, "because": r.why[:120]})
        else:
            chk.violation("R04.2", "unsorted:%s" % key, "a variable list that may be unsorted or contain duplicates is stored in %s: %s" % (b["path"], r.why), loc(span))
    chk.floor("R04.2", "var_names store sites", len(sites), 4)

    # ---- R04.3 re-index discipline
    chk.rule("R04.3", "a variable list is only ever installed on an expression by re-indexing its variable nodes (reset_vars); "
                      "copying a list without re-indexing (var_names_like_other) is applied to variable-free constants only")
    copy_fns = [b for (b, bi, kind, term, span) in sites if kind == "clone_from"]
    nsite = 0
    for cf in copy_fns:
        for caller in eng.cg.callers_of(cf["path"]):
            cb = fb.bodies[caller]
            corg = eng.org(cb)
            for bi, t in mir.calls(cb):
                if mir.callee_path(t) != cf["path"]:
                    continue
                nsite += 1
                recv = corg.op_term(t["args"][0])
                if re.match(r"^expression::deep::DeepEx::<'a, T, OF, LM>::(zero|one|from_num)\(", recv):
                    chk.ok("R04.3", "%s: list copied onto a constant" % caller.split("::", 2)[-1], recv[:60], loc(t["span"]))
                else:
                    chk.violation("R04.3", "stale-indices:%s" % caller, "%s copies a variable list onto %s without re-indexing its variable nodes: the n-th value is no longer bound to the n-th name" % (
                        caller, recv[:80]), loc(t["span"]))
    chk.floor("R04.3", "list-copy call sites", nsite, 1)

    # ---- R04.4 re-indexing maps every variable node to the position of its OWN name
    chk.rule("R04.4", "reset_vars: a variable node gets the index of the list entry EQUAL to its name")
    rv = fb.find_bodies(lambda b: b["kind"] == "AssocFn" and b.get("name") == "reset_vars" and (b.get("impl_self_ty") or "").startswith("expression::deep::DeepEx<"))
    if len(rv) != 1:
        chk.violation("R04.4", "anchor", "DeepEx::reset_vars not found")
    else:
        b = rv[0]
        org = eng.org(b)
        pos = [t for _, t in mir.calls(b) if (mir.callee_path(t) or "").endswith("Iterator::position")]
        lst = None
        for i in range(1, b["arg_count"] + 1):
            if "String" in b["locals"][i]["ty"]:
                lst = "param:%s" % org.name(i)
        ok = False
        if len(pos) == 1:
            recv = org.op_term(pos[0]["args"][0])
            cl = org.op_term(pos[0]["args"][1])
            if lst and lst in recv and eng.closure_equality(cl):
                ok = True
        if ok:
            chk.ok("R04.4", "re-index by name equality in the new list", "", loc(b["span"]))
        else:
            chk.violation("R04.4", "reindex", "reset_vars does not look a variable up by equality of its name in the new list (a different variable's index may be assigned)", loc(b["span"]))

    name_sources(chk, fb)


def name_sources(chk, fb, RID="R04.5"):
    """R04.5: the name list DeepEx::new computes takes the names of a nested expression from that expression's own
    list.  A nested expression lists names that no longer occur as a node below it (a folded `0*x`, the derivative `1`
    of `x+y`); its variable nodes are indexed against its full list and reset_vars re-indexes by name, so a list
    rebuilt from the nodes alone drops names and shifts every value binding."""
    import re
    from analysis.interp import Interp, Policy, Sym, Closure, show
    chk.rule(RID, "DeepEx::new: the names of a nested expression come from its own var_names list, the names of variable nodes from the nodes")
    nb = [b for p, b in fb.bodies.items() if b["kind"] == "AssocFn" and b.get("name") == "new" and (b.get("impl_self_ty") or "").startswith("expression::deep::DeepEx<")]
    if len(nb) != 1:
        chk.violation(RID, "anchor", "DeepEx::new not found")
        return
    b = nb[0]

    class P(Policy):
        loop_mode = "widen"
        max_depth = 4

        def inline(self, fn, args, interp, path):
            cb = interp.callee_body(fn)
            # private helpers of the constructor; compile (folding) does not touch the list
            if cb is None or not cb["path"].startswith("expression::deep") or cb.get("name") == "compile" or cb["path"] == b["path"] or len(cb["blocks"]) > 80:
                return False
            # only helpers that are handed (or hand back) a list of names matter here; printers and the like stay calls
            tys = [cb["locals"][i]["ty"] for i in range(0, cb["arg_count"] + 1)]
            return any("String" in t and ("SmallVec<" in t or "Vec<" in t or t.startswith("&mut [")) for t in tys)

        def inline_closure(self, closure_path, args, interp, path):
            # a local `push_if_new` closure that is called directly is part of the constructor
            return closure_path.startswith("expression::deep")
    allp = Interp(fb, P()).run(b, [Sym(b["locals"][i].get("name") or "a%d" % i) for i in range(1, b["arg_count"] + 1)])
    GROW = ("push", "extend", "extend_from_slice", "insert", "insert_many", "append")
    from_var = from_nested = other = 0
    where = None
    for p in allp:
        for k, x in p.trace:
            if k != "e" or x[0] != "call":
                continue
            m = x[1].rsplit("::", 1)[-1]
            if m == "for_each" and len(x[2]) == 2 and isinstance(x[2][1], Closure) and re.search(r"var_names\(.*as:Expr\(", show(x[2][0])):
                # e.var_names.iter().for_each(|name| push(.., name)): the closure grows the list by its argument
                cbody = fb.bodies.get(x[2][1].path)
                if cbody is not None:
                    for q in Interp(fb, P()).run(cbody, [x[2][1], Sym("NESTED_ITEM")]):
                        for k2, y in q.trace:
                            if k2 == "e" and y[0] == "call" and y[1].rsplit("::", 1)[-1] in GROW and any("NESTED_ITEM" in show(a) for a in y[2][1:]):
                                from_nested += 1
                continue
            if m not in GROW or "String" not in str(x[5].get("args")) + str(x[5].get("impl_self_ty")):
                continue
            el = " ".join(show(a) for a in x[2][1:])
            where = where or x[3]
            if re.search(r"var_names\(.*as:Expr\(", el):
                from_nested += 1
            elif re.search(r"as:Var\(", el):
                from_var += 1
            elif not re.search(r"loop:", el):
                other += 1
    if any(p.status == "unrecognised" for p in allp):
        chk.unrecognised(RID, "shape", "DeepEx::new: %s" % next(p.note for p in allp if p.status == "unrecognised"), loc(b["span"]))
    elif from_var == 0 and from_nested == 0:
        chk.unrecognised(RID, "shape", "no growth of a name list found in DeepEx::new (and its helpers)", loc(b["span"]))
    elif from_nested == 0:
        chk.violation(RID, "nested-names", "DeepEx::new never takes a name from the var_names list of a nested expression: names that a nested expression lists but that do not occur as a variable node any more (folded constants, derivatives) are dropped, and the remaining variable nodes are bound to the wrong values", loc(b["span"]))
    elif from_var == 0:
        chk.violation(RID, "node-names", "DeepEx::new never takes the name of a variable node", loc(b["span"]))
    else:
        chk.ok(RID, "name sources", "growth events: %d from variable nodes, %d from nested lists" % (from_var, from_nested), loc(b["span"]))
