// exmex-facts: a rustc_private driver that exports the type-checked program
// (MIR bodies with resolved callees, ADTs, impls, statics, type walks, unsafe
// uses) of crate `exmex` as one JSON fact file. It contains NO rule logic.
//
// Usage (see /verif/analysis/facts.py): injected as RUSTC_WORKSPACE_WRAPPER under
// `cargo +nightly check`, env EXMEX_FACTS_OUT=<file> EXMEX_FACTS_NONCE=<str>.
#![feature(rustc_private)]
#![allow(deprecated)]

extern crate rustc_abi;
extern crate rustc_driver;
extern crate rustc_hir;
extern crate rustc_interface;
extern crate rustc_middle;
extern crate rustc_span;

mod json;
use json::J;

use rustc_driver::{Callbacks, Compilation};
use rustc_hir::def::DefKind;
use rustc_hir::def_id::{DefId, LOCAL_CRATE};
use rustc_interface::interface::Compiler;
use rustc_middle::mir::{
    self, AggregateKind, BasicBlockData, Body, CastKind, Const, ConstValue, Operand, Place,
    ProjectionElem, Rvalue, StatementKind, TerminatorKind,
};
use rustc_middle::ty::print::PrintTraitRefExt;
use rustc_middle::ty::{self, Ty, TyCtxt, TypeVisitableExt, TypingEnv};
use rustc_span::Span;
use std::collections::{BTreeMap, BTreeSet, HashSet};

struct Cb;

impl Callbacks for Cb {
    fn after_analysis<'tcx>(&mut self, _c: &Compiler, tcx: TyCtxt<'tcx>) -> Compilation {
        if tcx.crate_name(LOCAL_CRATE).as_str() != "exmex" {
            return Compilation::Continue;
        }
        let out = match std::env::var("EXMEX_FACTS_OUT") {
            Ok(o) => o,
            Err(_) => return Compilation::Continue,
        };
        let nonce = std::env::var("EXMEX_FACTS_NONCE").unwrap_or_default();
        let mut cx = Cx::new(tcx);
        let facts = cx.collect(nonce);
        // one write per process
        std::fs::write(&out, facts.to_string()).expect("cannot write facts");
        Compilation::Continue
    }
}

fn main() {
    let mut args: Vec<String> = std::env::args().collect();
    // RUSTC_WORKSPACE_WRAPPER passes the real rustc path as argv[1]
    if args.len() > 1 && (args[1].ends_with("rustc") || args[1].contains("/rustc")) {
        args.remove(1);
    }
    let mut cb = Cb;
    rustc_driver::run_compiler(&args, &mut cb);
}

struct Cx<'tcx> {
    tcx: TyCtxt<'tcx>,
    externs: BTreeMap<String, J>,
    adts_seen: HashSet<DefId>,
}

fn s(x: impl Into<String>) -> J {
    J::Str(x.into())
}
fn n(x: impl TryInto<i128>) -> J {
    match x.try_into() {
        Ok(v) => J::Num(v),
        Err(_) => J::Null,
    }
}
fn obj(v: Vec<(&str, J)>) -> J {
    J::Obj(v.into_iter().map(|(k, v)| (k.to_string(), v)).collect())
}

impl<'tcx> Cx<'tcx> {
    fn new(tcx: TyCtxt<'tcx>) -> Self {
        Cx { tcx, externs: BTreeMap::new(), adts_seen: HashSet::new() }
    }

    fn span(&self, sp: Span) -> J {
        let sm = self.tcx.sess.source_map();
        let lo = sm.lookup_char_pos(sp.lo());
        let file = format!("{}", lo.file.name.prefer_local_unconditionally());
        let mut fields = vec![
            ("file", s(file)),
            ("line", n(lo.line as i128)),
            ("col", n(lo.col.0 as i128 + 1)),
        ];
        if sp.from_expansion() {
            let ed = sp.ctxt().outer_expn_data();
            let mname = ed.kind.descr();
            let mcrate = ed
                .macro_def_id
                .map(|d| self.tcx.crate_name(d.krate).to_string())
                .unwrap_or_default();
            fields.push(("macro", s(mname)));
            fields.push(("macro_crate", s(mcrate)));
            // all macros the span was expanded through, innermost first (debug_assert! is assert! inside `if cfg!(debug_assertions)`)
            let chain: Vec<J> = sp.macro_backtrace().map(|e| s(e.kind.descr().to_string())).collect();
            fields.push(("macros", J::Arr(chain)));
            // the outermost call site in user code
            let cs = sp.source_callsite();
            let lo2 = sm.lookup_char_pos(cs.lo());
            fields.push(("call_line", n(lo2.line as i128)));
            fields.push((
                "call_file",
                s(format!("{}", lo2.file.name.prefer_local_unconditionally())),
            ));
        }
        obj(fields)
    }

    fn ty(&self, t: Ty<'tcx>) -> J {
        s(format!("{}", t))
    }

    /// structured description of a type, shallow
    fn ty_kind(&mut self, t: Ty<'tcx>) -> J {
        let tcx = self.tcx;
        match t.kind() {
            ty::Adt(def, args) => {
                self.adts_seen.insert(def.did());
                obj(vec![
                    ("k", s("adt")),
                    ("path", s(tcx.def_path_str(def.did()))),
                    ("args", J::Arr(args.iter().map(|a| s(format!("{}", a))).collect())),
                ])
            }
            ty::Ref(_, inner, m) => obj(vec![
                ("k", s("ref")),
                ("mut", J::Bool(m.is_mut())),
                ("inner", self.ty_kind(*inner)),
            ]),
            ty::RawPtr(inner, m) => obj(vec![
                ("k", s("rawptr")),
                ("mut", J::Bool(m.is_mut())),
                ("inner", self.ty_kind(*inner)),
            ]),
            ty::Param(p) => obj(vec![("k", s("param")), ("name", s(p.name.to_string()))]),
            ty::Tuple(ts) => obj(vec![
                ("k", s("tuple")),
                ("elems", J::Arr(ts.iter().map(|t| self.ty_kind(t)).collect())),
            ]),
            ty::Slice(inner) => obj(vec![("k", s("slice")), ("inner", self.ty_kind(*inner))]),
            ty::Array(inner, _) => obj(vec![("k", s("array")), ("inner", self.ty_kind(*inner))]),
            ty::Closure(did, _) => {
                obj(vec![("k", s("closure")), ("path", s(tcx.def_path_str(*did)))])
            }
            ty::FnDef(did, args) => obj(vec![
                ("k", s("fndef")),
                ("path", s(tcx.def_path_str(*did))),
                ("args", J::Arr(args.iter().map(|a| s(format!("{}", a))).collect())),
            ]),
            ty::FnPtr(..) => obj(vec![("k", s("fnptr")), ("text", self.ty(t))]),
            ty::Bool | ty::Char | ty::Int(_) | ty::Uint(_) | ty::Float(_) | ty::Str | ty::Never => {
                obj(vec![("k", s("prim")), ("name", self.ty(t))])
            }
            ty::Alias(..) => obj(vec![("k", s("alias")), ("text", self.ty(t))]),
            ty::Dynamic(..) => obj(vec![("k", s("dyn")), ("text", self.ty(t))]),
            _ => obj(vec![("k", s("other")), ("text", self.ty(t))]),
        }
    }

    fn note_extern(&mut self, did: DefId) {
        if did.is_local() {
            return;
        }
        let tcx = self.tcx;
        let path = tcx.def_path_str(did);
        if self.externs.contains_key(&path) {
            return;
        }
        let krate = tcx.crate_name(did.krate).to_string();
        let kind = tcx.def_kind(did);
        let mut diverges = false;
        let mut safety_unsafe = false;
        if matches!(kind, DefKind::Fn | DefKind::AssocFn) {
            let sig = tcx.fn_sig(did).skip_binder().skip_binder();
            diverges = sig.output().is_never();
            safety_unsafe = sig.safety().is_unsafe();
        }
        let mut doc = String::new();
        for a in tcx.get_all_attrs(did) {
            if let Some((sym, _)) = a.doc_str_and_fragment_kind() {
                doc.push_str(sym.as_str());
                doc.push('\n');
            }
        }
        let dl = doc.to_lowercase();
        let doc_panics = dl.contains("# panics") || dl.contains("panic");
        let doc_panics_section = dl.contains("# panics");
        let trait_of = tcx.trait_of_assoc(did).map(|t| tcx.def_path_str(t));
        self.externs.insert(
            path,
            obj(vec![
                ("crate", s(krate)),
                ("kind", s(format!("{:?}", kind))),
                ("diverges", J::Bool(diverges)),
                ("unsafe", J::Bool(safety_unsafe)),
                ("doc_panics", J::Bool(doc_panics)),
                ("doc_panics_section", J::Bool(doc_panics_section)),
                ("trait", trait_of.map(s).unwrap_or(J::Null)),
            ]),
        );
    }

    fn place(&mut self, body: &Body<'tcx>, p: &Place<'tcx>) -> J {
        let tcx = self.tcx;
        let mut pty = mir::PlaceTy::from_ty(body.local_decls[p.local].ty);
        let mut proj = Vec::new();
        for elem in p.projection.iter() {
            let e = match elem {
                ProjectionElem::Deref => obj(vec![("k", s("deref"))]),
                ProjectionElem::Field(f, fty) => {
                    let mut name = format!("{}", f.index());
                    let mut owner = J::Null;
                    match pty.ty.kind() {
                        ty::Adt(def, _) => {
                            let v = match pty.variant_index {
                                Some(vi) => def.variant(vi),
                                None => def.non_enum_variant(),
                            };
                            name = v.fields[f].name.to_string();
                            owner = s(tcx.def_path_str(def.did()));
                        }
                        ty::Closure(did, _) => {
                            if let Some(ld) = did.as_local() {
                                let caps = tcx.closure_captures(ld);
                                if let Some(c) = caps.get(f.index()) {
                                    name = format!("cap:{}", c.to_symbol());
                                }
                            }
                            owner = s(tcx.def_path_str(*did));
                        }
                        _ => {}
                    }
                    obj(vec![
                        ("k", s("field")),
                        ("idx", n(f.index() as i128)),
                        ("name", s(name)),
                        ("owner", owner),
                        ("ty", self.ty(fty)),
                    ])
                }
                ProjectionElem::Index(l) => {
                    obj(vec![("k", s("index")), ("local", n(l.index() as i128))])
                }
                ProjectionElem::ConstantIndex { offset, min_length, from_end } => obj(vec![
                    ("k", s("constindex")),
                    ("offset", n(offset as i128)),
                    ("min_length", n(min_length as i128)),
                    ("from_end", J::Bool(from_end)),
                ]),
                ProjectionElem::Subslice { from, to, from_end } => obj(vec![
                    ("k", s("subslice")),
                    ("from", n(from as i128)),
                    ("to", n(to as i128)),
                    ("from_end", J::Bool(from_end)),
                ]),
                ProjectionElem::Downcast(name, vi) => {
                    let mut vname = name.map(|x| x.to_string()).unwrap_or_default();
                    if let ty::Adt(def, _) = pty.ty.kind() {
                        vname = def.variant(vi).name.to_string();
                    }
                    obj(vec![
                        ("k", s("downcast")),
                        ("variant", s(vname)),
                        ("vidx", n(vi.index() as i128)),
                    ])
                }
                ProjectionElem::OpaqueCast(_) => obj(vec![("k", s("opaquecast"))]),
                ProjectionElem::UnwrapUnsafeBinder(_) => obj(vec![("k", s("unwrapbinder"))]),
            };
            proj.push(e);
            pty = pty.projection_ty(tcx, elem);
        }
        obj(vec![
            ("local", n(p.local.index() as i128)),
            ("proj", J::Arr(proj)),
            ("ty", self.ty(pty.ty)),
        ])
    }

    fn constant(&mut self, body_did: DefId, c: &mir::ConstOperand<'tcx>) -> J {
        let tcx = self.tcx;
        let cty = c.const_.ty();
        let mut fields = vec![
            ("k", s("const")),
            ("ty", self.ty(cty)),
            ("text", s(format!("{}", c.const_))),
        ];
        match cty.kind() {
            ty::FnDef(did, args) => {
                self.note_extern(*did);
                fields.push(("fn", self.fn_ref(*did, args)));
            }
            ty::Closure(did, _) => {
                fields.push(("closure", s(tcx.def_path_str(*did))));
            }
            ty::Ref(_, inner, _) => {
                // promoted `&{closure}` of a non-capturing closure called in place
                if let ty::Closure(did, _) = inner.kind() {
                    fields.push(("closure", s(tcx.def_path_str(*did))));
                    fields.push(("closure_ref", J::Bool(true)));
                }
            }
            _ => {}
        }
        let env = TypingEnv::post_analysis(tcx, body_did);
        if let Const::Unevaluated(uv, _) = c.const_ {
            fields.push(("named", s(tcx.def_path_str(uv.def))));
            if let Some(pi) = uv.promoted {
                fields.push(("promoted", J::Bool(true)));
                fields.push(("promoted_key", s(format!("{}::promoted[{}]", tcx.def_path_str(uv.def), pi.index()))));
            }
        }
        let is_scalar_ty = matches!(
            cty.kind(),
            ty::Bool | ty::Char | ty::Int(_) | ty::Uint(_) | ty::Float(_)
        );
        if is_scalar_ty {
            let generic = matches!(c.const_, Const::Unevaluated(uv, _) if uv.args.iter().any(|a| a.as_type().map(|t| t.has_param()).unwrap_or(false)));
            if !generic {
                if let Some(si) = c.const_.try_eval_scalar_int(tcx, env) {
                    let bits = si.to_bits(si.size());
                    fields.push(("bits", s(format!("{}", bits))));
                    fields.push(("size", n(si.size().bytes() as i128)));
                }
            }
        }
        // string literals
        if let ty::Ref(_, inner, _) = cty.kind() {
            if inner.is_str() {
                if let Const::Val(cv @ ConstValue::Slice { .. }, _) = c.const_ {
                    if let Some(bytes) = cv.try_get_slice_bytes_for_diagnostics(tcx) {
                        fields.push(("str", s(String::from_utf8_lossy(bytes).to_string())));
                    }
                }
            }
        }
        obj(fields)
    }

    fn fn_ref(&mut self, did: DefId, args: ty::GenericArgsRef<'tcx>) -> J {
        let tcx = self.tcx;
        let path = tcx.def_path_str(did);
        let krate = tcx.crate_name(did.krate).to_string();
        let trait_of = tcx.trait_of_assoc(did).map(|t| tcx.def_path_str(t));
        let impl_of = tcx.impl_of_assoc(did);
        let mut f = vec![
            ("path", s(path)),
            ("crate", s(krate)),
            ("local", J::Bool(did.is_local())),
            ("name", s(tcx.item_name(did).to_string())),
            ("args", J::Arr(args.iter().map(|a| s(format!("{}", a))).collect())),
            ("trait", trait_of.map(s).unwrap_or(J::Null)),
        ];
        // Self type for trait methods = first generic arg
        if tcx.trait_of_assoc(did).is_some() {
            if let Some(t) = args.types().next() {
                f.push(("self_ty", self.ty(t)));
                f.push(("self_kind", self.ty_kind(t)));
            }
        }
        if let Some(i) = impl_of {
            let st = tcx.type_of(i).instantiate_identity().skip_norm_wip();
            f.push(("impl_self_ty", self.ty(st)));
            if let Some(tr) = tcx.impl_opt_trait_ref(i) {
                f.push(("impl_trait", s(format!("{}", tr.instantiate_identity().skip_norm_wip().print_only_trait_path()))));
            }
        }
        obj(f)
    }

    fn operand(&mut self, body_did: DefId, body: &Body<'tcx>, o: &Operand<'tcx>) -> J {
        match o {
            Operand::Copy(p) => {
                let pl = self.place(body, p);
                obj(vec![("k", s("copy")), ("place", pl)])
            }
            Operand::Move(p) => {
                let pl = self.place(body, p);
                obj(vec![("k", s("move")), ("place", pl)])
            }
            Operand::Constant(c) => self.constant(body_did, c),
            _ => obj(vec![("k", s("runtime_checks")), ("text", s(format!("{:?}", o)))]),
        }
    }

    fn rvalue(&mut self, body_did: DefId, body: &Body<'tcx>, rv: &Rvalue<'tcx>) -> J {
        let tcx = self.tcx;
        match rv {
            Rvalue::Use(o, _) => {
                let op = self.operand(body_did, body, o);
                obj(vec![("k", s("use")), ("op", op)])
            }
            Rvalue::Repeat(o, c) => {
                let op = self.operand(body_did, body, o);
                obj(vec![("k", s("repeat")), ("op", op), ("count", s(format!("{}", c)))])
            }
            Rvalue::Ref(_, bk, p) => {
                let pl = self.place(body, p);
                obj(vec![("k", s("ref")), ("borrow", s(format!("{:?}", bk))), ("place", pl)])
            }
            Rvalue::ThreadLocalRef(did) => {
                obj(vec![("k", s("threadlocalref")), ("path", s(tcx.def_path_str(*did)))])
            }
            Rvalue::RawPtr(k, p) => {
                let pl = self.place(body, p);
                obj(vec![("k", s("rawptr")), ("kind", s(format!("{:?}", k))), ("place", pl)])
            }
            Rvalue::Cast(ck, o, t) => {
                let op = self.operand(body_did, body, o);
                let ckname = match ck {
                    CastKind::PointerCoercion(pc, _) => format!("PointerCoercion({:?})", pc),
                    other => format!("{:?}", other),
                };
                obj(vec![
                    ("k", s("cast")),
                    ("kind", s(ckname)),
                    ("op", op),
                    ("ty", self.ty(*t)),
                    ("src_ty", self.ty(o.ty(&body.local_decls, tcx))),
                ])
            }
            Rvalue::BinaryOp(op, ab) => {
                let a = self.operand(body_did, body, &ab.0);
                let b = self.operand(body_did, body, &ab.1);
                obj(vec![
                    ("k", s("binop")),
                    ("op", s(format!("{:?}", op))),
                    ("a", a),
                    ("b", b),
                    ("operand_ty", self.ty(ab.0.ty(&body.local_decls, tcx))),
                ])
            }
            Rvalue::UnaryOp(op, a) => {
                let aj = self.operand(body_did, body, a);
                obj(vec![
                    ("k", s("unop")),
                    ("op", s(format!("{:?}", op))),
                    ("a", aj),
                    ("operand_ty", self.ty(a.ty(&body.local_decls, tcx))),
                ])
            }
            Rvalue::Discriminant(p) => {
                let pt = p.ty(&body.local_decls, tcx).ty;
                let mut adt = J::Null;
                if let ty::Adt(def, _) = pt.kind() {
                    self.adts_seen.insert(def.did());
                    adt = s(tcx.def_path_str(def.did()));
                }
                let pl = self.place(body, p);
                obj(vec![("k", s("discriminant")), ("place", pl), ("adt", adt)])
            }
            Rvalue::Aggregate(ak, ops) => {
                let opsj: Vec<J> = ops.iter().map(|o| self.operand(body_did, body, o)).collect();
                let mut f = vec![("k", s("aggregate"))];
                match &**ak {
                    AggregateKind::Array(t) => {
                        f.push(("agg", s("array")));
                        f.push(("elem_ty", self.ty(*t)));
                    }
                    AggregateKind::Tuple => f.push(("agg", s("tuple"))),
                    AggregateKind::Adt(did, vi, args, _, active) => {
                        self.adts_seen.insert(*did);
                        let def = tcx.adt_def(*did);
                        let v = def.variant(*vi);
                        f.push(("agg", s("adt")));
                        f.push(("adt", s(tcx.def_path_str(*did))));
                        f.push(("variant", s(v.name.to_string())));
                        f.push(("vidx", n(vi.index() as i128)));
                        f.push((
                            "adt_args",
                            J::Arr(args.iter().map(|a| s(format!("{}", a))).collect()),
                        ));
                        let names: Vec<J> = match active {
                            Some(fi) => vec![s(v.fields[*fi].name.to_string())],
                            None => v.fields.iter().map(|fd| s(fd.name.to_string())).collect(),
                        };
                        f.push(("fields", J::Arr(names)));
                    }
                    AggregateKind::Closure(did, _) => {
                        f.push(("agg", s("closure")));
                        f.push(("closure", s(tcx.def_path_str(*did))));
                        let mut caps = Vec::new();
                        if let Some(ld) = did.as_local() {
                            for c in tcx.closure_captures(ld) {
                                caps.push(s(format!("{}", c.to_symbol())));
                            }
                        }
                        f.push(("fields", J::Arr(caps)));
                    }
                    AggregateKind::RawPtr(..) => f.push(("agg", s("rawptr"))),
                    _ => f.push(("agg", s("other"))),
                }
                f.push(("ops", J::Arr(opsj)));
                obj(f)
            }
            Rvalue::CopyForDeref(p) => {
                let pl = self.place(body, p);
                obj(vec![("k", s("use")), ("op", obj(vec![("k", s("copy")), ("place", pl)]))])
            }
            Rvalue::WrapUnsafeBinder(o, _) => {
                let op = self.operand(body_did, body, o);
                obj(vec![("k", s("use")), ("op", op)])
            }
        }
    }

    fn block(&mut self, body_did: DefId, body: &Body<'tcx>, bb: &BasicBlockData<'tcx>) -> J {
        let tcx = self.tcx;
        let mut stmts = Vec::new();
        for st in &bb.statements {
            match &st.kind {
                StatementKind::Assign(b) => {
                    let (p, rv) = &**b;
                    let pl = self.place(body, p);
                    let r = self.rvalue(body_did, body, rv);
                    stmts.push(obj(vec![
                        ("k", s("assign")),
                        ("place", pl),
                        ("rv", r),
                        ("span", self.span(st.source_info.span)),
                    ]));
                }
                StatementKind::SetDiscriminant { place, variant_index } => {
                    let pl = self.place(body, place);
                    stmts.push(obj(vec![
                        ("k", s("setdiscr")),
                        ("place", pl),
                        ("vidx", n(variant_index.index() as i128)),
                    ]));
                }
                StatementKind::Intrinsic(i) => {
                    stmts.push(obj(vec![("k", s("intrinsic")), ("text", s(format!("{:?}", i)))]));
                }
                _ => {}
            }
        }
        let term = bb.terminator();
        let tspan = self.span(term.source_info.span);
        let t = match &term.kind {
            TerminatorKind::Goto { target } => {
                obj(vec![("k", s("goto")), ("target", n(target.index() as i128))])
            }
            TerminatorKind::SwitchInt { discr, targets } => {
                let d = self.operand(body_did, body, discr);
                let mut ts = Vec::new();
                for (v, bbt) in targets.iter() {
                    ts.push(J::Arr(vec![s(format!("{}", v)), n(bbt.index() as i128)]));
                }
                obj(vec![
                    ("k", s("switch")),
                    ("discr", d),
                    ("discr_ty", self.ty(discr.ty(&body.local_decls, tcx))),
                    ("targets", J::Arr(ts)),
                    ("otherwise", n(targets.otherwise().index() as i128)),
                ])
            }
            TerminatorKind::Return => obj(vec![("k", s("return"))]),
            TerminatorKind::Unreachable => obj(vec![("k", s("unreachable"))]),
            TerminatorKind::UnwindResume => obj(vec![("k", s("resume"))]),
            TerminatorKind::UnwindTerminate(_) => obj(vec![("k", s("terminate"))]),
            TerminatorKind::Drop { place, target, unwind, .. } => {
                let pl = self.place(body, place);
                obj(vec![
                    ("k", s("drop")),
                    ("place", pl),
                    ("target", n(target.index() as i128)),
                    ("unwind", unwind_j(unwind)),
                ])
            }
            TerminatorKind::Call { func, args, destination, target, unwind, fn_span, .. } => {
                let fj = match func {
                    Operand::Constant(c) => match c.const_.ty().kind() {
                        ty::FnDef(did, gargs) => {
                            self.note_extern(*did);
                            let mut fr = self.fn_ref(*did, gargs);
                            if let J::Obj(v) = &mut fr {
                                v.push(("k".to_string(), s("fndef")));
                            }
                            fr
                        }
                        _ => {
                            let o = self.operand(body_did, body, func);
                            obj(vec![("k", s("ptr")), ("op", o)])
                        }
                    },
                    _ => {
                        let o = self.operand(body_did, body, func);
                        obj(vec![
                            ("k", s("ptr")),
                            ("op", o),
                            ("ty", self.ty(func.ty(&body.local_decls, tcx))),
                        ])
                    }
                };
                let aj: Vec<J> =
                    args.iter().map(|a| self.operand(body_did, body, &a.node)).collect();
                let dest = self.place(body, destination);
                obj(vec![
                    ("k", s("call")),
                    ("func", fj),
                    ("args", J::Arr(aj)),
                    ("dest", dest),
                    ("target", target.map(|t| n(t.index() as i128)).unwrap_or(J::Null)),
                    ("unwind", unwind_j(unwind)),
                    ("fn_span", self.span(*fn_span)),
                ])
            }
            TerminatorKind::Assert { cond, expected, msg, target, unwind } => {
                let c = self.operand(body_did, body, cond);
                let kind = match &**msg {
                    mir::AssertKind::BoundsCheck { .. } => "BoundsCheck".to_string(),
                    mir::AssertKind::Overflow(op, ..) => format!("Overflow({:?})", op),
                    mir::AssertKind::OverflowNeg(_) => "OverflowNeg".to_string(),
                    mir::AssertKind::DivisionByZero(_) => "DivisionByZero".to_string(),
                    mir::AssertKind::RemainderByZero(_) => "RemainderByZero".to_string(),
                    other => format!("{:?}", other),
                };
                let mut ops = Vec::new();
                match &**msg {
                    mir::AssertKind::BoundsCheck { len, index } => {
                        ops.push(self.operand(body_did, body, len));
                        ops.push(self.operand(body_did, body, index));
                    }
                    mir::AssertKind::Overflow(_, a, b) => {
                        ops.push(self.operand(body_did, body, a));
                        ops.push(self.operand(body_did, body, b));
                    }
                    mir::AssertKind::OverflowNeg(a)
                    | mir::AssertKind::DivisionByZero(a)
                    | mir::AssertKind::RemainderByZero(a) => {
                        ops.push(self.operand(body_did, body, a));
                    }
                    _ => {}
                }
                let op_ty = match &**msg {
                    mir::AssertKind::Overflow(_, a, _)
                    | mir::AssertKind::OverflowNeg(a)
                    | mir::AssertKind::DivisionByZero(a)
                    | mir::AssertKind::RemainderByZero(a) => self.ty(a.ty(&body.local_decls, tcx)),
                    mir::AssertKind::BoundsCheck { index, .. } => {
                        self.ty(index.ty(&body.local_decls, tcx))
                    }
                    _ => J::Null,
                };
                obj(vec![
                    ("k", s("assert")),
                    ("cond", c),
                    ("expected", J::Bool(*expected)),
                    ("kind", s(kind)),
                    ("ops", J::Arr(ops)),
                    ("operand_ty", op_ty),
                    ("target", n(target.index() as i128)),
                    ("unwind", unwind_j(unwind)),
                ])
            }
            TerminatorKind::FalseEdge { real_target, .. } => {
                obj(vec![("k", s("goto")), ("target", n(real_target.index() as i128))])
            }
            TerminatorKind::FalseUnwind { real_target, .. } => {
                obj(vec![("k", s("goto")), ("target", n(real_target.index() as i128))])
            }
            other => obj(vec![("k", s("other")), ("text", s(format!("{:?}", other)))]),
        };
        let mut tt = t;
        if let J::Obj(v) = &mut tt {
            v.push(("span".to_string(), tspan));
        }
        obj(vec![("cleanup", J::Bool(bb.is_cleanup)), ("stmts", J::Arr(stmts)), ("term", tt)])
    }

    fn body(&mut self, ld: rustc_hir::def_id::LocalDefId) -> J {
        let tcx = self.tcx;
        let did = ld.to_def_id();
        let kind = tcx.def_kind(did);
        let body = tcx.optimized_mir(did);
        let root = tcx.typeck_root_def_id(did);
        let mut f = vec![
            ("path", s(tcx.def_path_str(did))),
            ("kind", s(format!("{:?}", kind))),
            ("root", s(tcx.def_path_str(root))),
            ("parent", s(tcx.def_path_str(tcx.parent(did)))),
            ("span", self.span(tcx.def_span(did))),
            ("arg_count", n(body.arg_count as i128)),
        ];
        if matches!(kind, DefKind::Fn | DefKind::AssocFn) {
            f.push(("name", s(tcx.item_name(did).to_string())));
            let vis = tcx.visibility(did);
            f.push(("public", J::Bool(vis.is_public())));
            f.push(("vis", s(format!("{:?}", vis))));
            let sig = tcx.fn_sig(did).skip_binder().skip_binder();
            f.push(("unsafe", J::Bool(sig.safety().is_unsafe())));
            let preds = tcx.predicates_of(did).instantiate_identity(tcx);
            let ps: Vec<J> =
                preds.predicates.iter().map(|p| s(format!("{}", p.skip_norm_wip()))).collect();
            f.push(("predicates", J::Arr(ps)));
            if let Some(i) = tcx.impl_of_assoc(did) {
                let st = tcx.type_of(i).instantiate_identity().skip_norm_wip();
                f.push(("impl_self_ty", self.ty(st)));
                f.push(("impl_self_kind", self.ty_kind(st)));
                f.push(("impl_derived", J::Bool(tcx.is_automatically_derived(i))));
                if let Some(tr) = tcx.impl_opt_trait_ref(i) {
                    let tr = tr.instantiate_identity().skip_norm_wip();
                    f.push(("impl_trait", s(format!("{}", tr.print_only_trait_path()))));
                    f.push(("impl_trait_path", s(tcx.def_path_str(tr.def_id))));
                }
            }
            if let Some(t) = tcx.trait_of_assoc(did) {
                f.push(("trait_default_of", s(tcx.def_path_str(t))));
            }
        }
        let mut locals = Vec::new();
        let mut names: BTreeMap<usize, String> = BTreeMap::new();
        for vdi in &body.var_debug_info {
            if let mir::VarDebugInfoContents::Place(p) = &vdi.value {
                if p.projection.is_empty() {
                    names.insert(p.local.index(), vdi.name.to_string());
                }
            }
        }
        for (i, ld) in body.local_decls.iter_enumerated() {
            let tk = self.ty_kind(ld.ty);
            locals.push(obj(vec![
                ("ty", self.ty(ld.ty)),
                ("tk", tk),
                ("name", names.get(&i.index()).map(|x| s(x.clone())).unwrap_or(J::Null)),
            ]));
        }
        f.push(("locals", J::Arr(locals)));
        let mut blocks = Vec::new();
        for (_, bb) in body.basic_blocks.iter_enumerated() {
            blocks.push(self.block(did, body, bb));
        }
        f.push(("blocks", J::Arr(blocks)));
        obj(f)
    }

    fn adt_json(&mut self, did: DefId) -> J {
        let tcx = self.tcx;
        let def = tcx.adt_def(did);
        let mut variants = Vec::new();
        let discrs: Vec<(usize, u128)> = if def.is_enum() {
            def.discriminants(tcx).map(|(vi, d)| (vi.index(), d.val)).collect()
        } else {
            vec![]
        };
        for (vi, v) in def.variants().iter_enumerated() {
            let mut fields = Vec::new();
            for fd in v.fields.iter() {
                let t = tcx.type_of(fd.did).instantiate_identity().skip_norm_wip();
                fields.push(obj(vec![
                    ("name", s(fd.name.to_string())),
                    ("ty", self.ty(t)),
                    ("public", J::Bool(fd.vis.is_public())),
                ]));
            }
            let d = discrs.iter().find(|(i, _)| *i == vi.index()).map(|(_, d)| *d);
            variants.push(obj(vec![
                ("name", s(v.name.to_string())),
                ("vidx", n(vi.index() as i128)),
                ("discr", d.map(|d| s(format!("{}", d))).unwrap_or(J::Null)),
                ("fields", J::Arr(fields)),
            ]));
        }
        let generics = tcx.generics_of(did);
        let mut gs = Vec::new();
        for p in &generics.own_params {
            let mut default = J::Null;
            if let ty::GenericParamDefKind::Type { has_default: true, .. } = p.kind {
                let d = tcx.type_of(p.def_id).instantiate_identity().skip_norm_wip();
                default = self.ty(d);
            }
            gs.push(obj(vec![("name", s(p.name.to_string())), ("default", default)]));
        }
        obj(vec![
            ("path", s(tcx.def_path_str(did))),
            ("local", J::Bool(did.is_local())),
            ("kind", s(if def.is_enum() { "enum" } else if def.is_union() { "union" } else { "struct" })),
            ("variants", J::Arr(variants)),
            ("generics", J::Arr(gs)),
            ("span", if did.is_local() { self.span(tcx.def_span(did)) } else { J::Null }),
        ])
    }

    // ---- deep type walk (C20) -------------------------------------------------
    fn walk_root(&mut self, did: DefId) -> J {
        let tcx = self.tcx;
        let root_ty = tcx.type_of(did).instantiate_identity().skip_norm_wip();
        let label = tcx.def_path_str(did);
        self.walk_ty(root_ty, did, label)
    }

    fn walk_ty(&mut self, root_ty: Ty<'tcx>, env_did: DefId, label: String) -> J {
        let tcx = self.tcx;
        let did = env_did;
        let env = TypingEnv::post_analysis(tcx, did);
        let mut visited: BTreeSet<String> = BTreeSet::new();
        let mut hits: Vec<J> = Vec::new();
        let mut leaves: BTreeMap<String, String> = BTreeMap::new();
        let mut fnptrs: BTreeSet<String> = BTreeSet::new();
        let mut dyns: BTreeSet<String> = BTreeSet::new();
        let mut unknown: BTreeSet<String> = BTreeSet::new();
        let mut stack: Vec<(Ty<'tcx>, String)> = vec![(root_ty, "<root>".to_string())];
        while let Some((t, path)) = stack.pop() {
            let t = tcx
                .try_normalize_erasing_regions(env, ty::Unnormalized::new(t))
                .unwrap_or(t);
            let key = format!("{}", t);
            if !visited.insert(key.clone()) {
                continue;
            }
            match t.kind() {
                ty::Adt(def, args) => {
                    if def.is_unsafe_cell() {
                        hits.push(obj(vec![("ty", s(key.clone())), ("via", s(path.clone()))]));
                    }
                    if def.is_phantom_data() {
                        for a in args.types() {
                            stack.push((a, format!("{} -> PhantomData", path)));
                        }
                        continue;
                    }
                    for v in def.variants().iter() {
                        for fd in v.fields.iter() {
                            let ft = fd.ty(tcx, args);
                            stack.push((
                                ft,
                                format!("{} -> {}.{}", path, tcx.def_path_str(def.did()), fd.name),
                            ));
                        }
                    }
                }
                ty::Tuple(ts) => {
                    for e in ts.iter() {
                        stack.push((e, path.clone()));
                    }
                }
                ty::Array(e, _) | ty::Slice(e) => stack.push((*e, path.clone())),
                ty::Ref(_, e, _) => stack.push((*e, format!("{} -> &", path))),
                ty::RawPtr(e, _) => stack.push((*e, format!("{} -> *", path))),
                ty::Pat(e, _) => stack.push((*e, path.clone())),
                ty::Param(p) => {
                    leaves.insert(p.name.to_string(), path.clone());
                }
                ty::FnPtr(..) => {
                    fnptrs.insert(key.clone());
                }
                ty::Dynamic(..) => {
                    dyns.insert(key.clone());
                }
                ty::Bool | ty::Char | ty::Int(_) | ty::Uint(_) | ty::Float(_) | ty::Str
                | ty::Never => {}
                ty::Alias(..) => {
                    // unresolved projection on a parameter, e.g. <A as Array>::Item
                    leaves.insert(key.clone(), path.clone());
                }
                _ => {
                    unknown.insert(key.clone());
                }
            }
        }
        obj(vec![
            ("root", s(label)),
            ("root_ty", self.ty(root_ty)),
            ("visited", n(visited.len() as i128)),
            ("visited_types", J::Arr(visited.into_iter().map(s).collect())),
            ("unsafe_cell_hits", J::Arr(hits)),
            (
                "param_leaves",
                J::Obj(leaves.into_iter().map(|(k, v)| (k, s(v))).collect()),
            ),
            ("fnptrs", J::Arr(fnptrs.into_iter().map(s).collect())),
            ("dyns", J::Arr(dyns.into_iter().map(s).collect())),
            ("unknown", J::Arr(unknown.into_iter().map(s).collect())),
        ])
    }

    fn collect(&mut self, nonce: String) -> J {
        let tcx = self.tcx;
        let mut bodies = Vec::new();
        let mut promoted = Vec::new();
        let mut consts = Vec::new();
        for ld in tcx.hir_body_owners() {
            let did = ld.to_def_id();
            match tcx.def_kind(did) {
                DefKind::Fn | DefKind::AssocFn | DefKind::Closure => {
                    bodies.push(self.body(ld));
                    let proms = tcx.promoted_mir(did);
                    for (pi, pb) in proms.iter_enumerated() {
                        let mut blocks = Vec::new();
                        for (_, bb) in pb.basic_blocks.iter_enumerated() {
                            blocks.push(self.block(did, pb, bb));
                        }
                        let mut locals = Vec::new();
                        for (_, ld2) in pb.local_decls.iter_enumerated() {
                            let tk = self.ty_kind(ld2.ty);
                            locals.push(obj(vec![("ty", self.ty(ld2.ty)), ("tk", tk), ("name", J::Null)]));
                        }
                        promoted.push(obj(vec![
                            ("path", s(format!("{}::promoted[{}]", tcx.def_path_str(did), pi.index()))),
                            ("kind", s("Promoted")),
                            ("root", s(tcx.def_path_str(tcx.typeck_root_def_id(did)))),
                            ("parent", s(tcx.def_path_str(did))),
                            ("span", self.span(tcx.def_span(did))),
                            ("arg_count", n(0)),
                            ("locals", J::Arr(locals)),
                            ("blocks", J::Arr(blocks)),
                        ]));
                    }
                }
                DefKind::Const { .. } | DefKind::AssocConst { .. } => {
                    let t = tcx.type_of(did).instantiate_identity().skip_norm_wip();
                    let mut val = J::Null;
                    let mut strv = J::Null;
                    if !tcx.generics_of(did).requires_monomorphization(tcx) {
                        if let Ok(cv) = tcx.const_eval_poly(did) {
                            if let Some(si) = cv.try_to_scalar_int() {
                                val = s(format!("{}", si.to_bits(si.size())));
                            }
                            if let ty::Ref(_, inner, _) = t.kind() {
                                if inner.is_str() {
                                    if let Some(b) = cv.try_get_slice_bytes_for_diagnostics(tcx) {
                                        strv = s(String::from_utf8_lossy(b).to_string());
                                    }
                                }
                            }
                        }
                    }
                    consts.push(obj(vec![
                        ("path", s(tcx.def_path_str(did))),
                        ("ty", self.ty(t)),
                        ("bits", val),
                        ("str", strv),
                        ("span", self.span(tcx.def_span(did))),
                    ]));
                }
                _ => {}
            }
        }
        // items: ADTs, impls, statics
        let mut impls = Vec::new();
        let mut statics = Vec::new();
        let mut local_adts = Vec::new();
        let mut traits = Vec::new();
        for id in tcx.hir_free_items() {
            let did = id.owner_id.to_def_id();
            match tcx.def_kind(did) {
                DefKind::Struct | DefKind::Enum | DefKind::Union => {
                    local_adts.push(did);
                }
                DefKind::Impl { .. } => {
                    let st = tcx.type_of(did).instantiate_identity().skip_norm_wip();
                    let tr = tcx.impl_opt_trait_ref(did).map(|t| {
                        let t = t.instantiate_identity().skip_norm_wip();
                        (format!("{}", t.print_only_trait_path()), tcx.def_path_str(t.def_id))
                    });
                    let items: Vec<J> = tcx
                        .associated_item_def_ids(did)
                        .iter()
                        .map(|d| s(tcx.def_path_str(*d)))
                        .collect();
                    let is_unsafe_impl = tcx
                        .impl_opt_trait_ref(did)
                        .map(|_| tcx.impl_trait_header(did).safety.is_unsafe())
                        .unwrap_or(false);
                    impls.push(obj(vec![
                        ("self_ty", self.ty(st)),
                        ("self_kind", self.ty_kind(st)),
                        ("trait", tr.clone().map(|t| s(t.0)).unwrap_or(J::Null)),
                        ("trait_path", tr.map(|t| s(t.1)).unwrap_or(J::Null)),
                        ("derived", J::Bool(tcx.is_automatically_derived(did))),
                        ("unsafe", J::Bool(is_unsafe_impl)),
                        ("items", J::Arr(items)),
                        ("span", self.span(tcx.def_span(did))),
                    ]));
                }
                DefKind::Static { mutability, .. } => {
                    let t = tcx.type_of(did).instantiate_identity().skip_norm_wip();
                    statics.push(obj(vec![
                        ("path", s(tcx.def_path_str(did))),
                        ("ty", self.ty(t)),
                        ("mutable", J::Bool(mutability.is_mut())),
                        ("thread_local", J::Bool(tcx.is_thread_local_static(did))),
                        ("span", self.span(tcx.def_span(did))),
                    ]));
                }
                DefKind::Trait => {
                    let items: Vec<J> = tcx
                        .associated_item_def_ids(did)
                        .iter()
                        .map(|d| {
                            let mut f = vec![("path", s(tcx.def_path_str(*d)))];
                            if matches!(tcx.def_kind(*d), DefKind::AssocFn) {
                                let sig = tcx.fn_sig(*d).skip_binder().skip_binder();
                                let ins: Vec<J> =
                                    sig.inputs().iter().map(|t| self.ty(*t)).collect();
                                f.push(("inputs", J::Arr(ins)));
                                f.push(("output", self.ty(sig.output())));
                                f.push((
                                    "has_default",
                                    J::Bool(tcx.defaultness(*d).has_value()),
                                ));
                            }
                            obj(f)
                        })
                        .collect();
                    traits.push(obj(vec![
                        ("path", s(tcx.def_path_str(did))),
                        ("items", J::Arr(items)),
                    ]));
                }
                _ => {}
            }
        }
        // nested statics (lazy_static! inside fn bodies are nested items, not free items)
        for ld in tcx.hir_crate_items(()).definitions() {
            let did = ld.to_def_id();
            if let DefKind::Static { mutability, .. } = tcx.def_kind(did) {
                let p = tcx.def_path_str(did);
                if statics.iter().any(|j| j.get_str("path") == Some(p.as_str())) {
                    continue;
                }
                let t = tcx.type_of(did).instantiate_identity().skip_norm_wip();
                statics.push(obj(vec![
                    ("path", s(p)),
                    ("ty", self.ty(t)),
                    ("mutable", J::Bool(mutability.is_mut())),
                    ("thread_local", J::Bool(tcx.is_thread_local_static(did))),
                    ("span", self.span(tcx.def_span(did))),
                ]));
            }
            if matches!(tcx.def_kind(did), DefKind::Struct | DefKind::Enum | DefKind::Union)
                && !local_adts.contains(&did)
            {
                local_adts.push(did);
            }
        }
        // fn signatures of all local fns (incl. trait method declarations)
        let mut sigs = Vec::new();
        for ld in tcx.hir_crate_items(()).definitions() {
            let did = ld.to_def_id();
            if matches!(tcx.def_kind(did), DefKind::Fn | DefKind::AssocFn) {
                let sig = tcx.fn_sig(did).skip_binder().skip_binder();
                let ins: Vec<J> = sig.inputs().iter().map(|t| self.ty(*t)).collect();
                sigs.push(obj(vec![
                    ("path", s(tcx.def_path_str(did))),
                    ("name", s(tcx.item_name(did).to_string())),
                    ("inputs", J::Arr(ins)),
                    ("output", self.ty(sig.output())),
                    ("public", J::Bool(tcx.visibility(did).is_public())),
                    ("unsafe", J::Bool(sig.safety().is_unsafe())),
                    (
                        "trait",
                        tcx.trait_of_assoc(did).map(|t| s(tcx.def_path_str(t))).unwrap_or(J::Null),
                    ),
                    (
                        "impl_self_ty",
                        tcx.impl_of_assoc(did)
                            .map(|i| {
                                self.ty(tcx.type_of(i).instantiate_identity().skip_norm_wip())
                            })
                            .unwrap_or(J::Null),
                    ),
                    ("span", self.span(tcx.def_span(did))),
                ]));
            }
        }
        // unsafe blocks (HIR)
        let mut unsafe_blocks = Vec::new();
        {
            use rustc_hir::intravisit::{self, Visitor};
            struct V<'a, 'tcx> {
                cx: &'a Cx<'tcx>,
                out: &'a mut Vec<J>,
            }
            impl<'a, 'tcx> Visitor<'tcx> for V<'a, 'tcx> {
                fn visit_block(&mut self, b: &'tcx rustc_hir::Block<'tcx>) {
                    if let rustc_hir::BlockCheckMode::UnsafeBlock(src) = b.rules {
                        self.out.push(obj(vec![
                            ("span", self.cx.span(b.span)),
                            ("source", s(format!("{:?}", src))),
                        ]));
                    }
                    intravisit::walk_block(self, b);
                }
            }
            for ld in tcx.hir_body_owners() {
                let body = tcx.hir_body_owned_by(ld);
                let mut v = V { cx: self, out: &mut unsafe_blocks };
                v.visit_body(body);
            }
        }
        // type walks
        let mut walks = Vec::new();
        for did in local_adts.clone() {
            let p = tcx.def_path_str(did);
            if p.ends_with("::FlatEx") || p.ends_with("::DeepEx") || p.ends_with("::Val")
                || p.ends_with("::DeepNode") || p.ends_with("::ExError")
                || p.ends_with("::Operator") || p.ends_with("::Statements")
            {
                walks.push(self.walk_root(did));
            }
        }
        // walks of every static's type, and a positive control (RefCell must be flagged)
        let mut static_walks = Vec::new();
        for ld in tcx.hir_crate_items(()).definitions() {
            let did = ld.to_def_id();
            if let DefKind::Static { .. } = tcx.def_kind(did) {
                let t = tcx.type_of(did).instantiate_identity().skip_norm_wip();
                static_walks.push(self.walk_ty(t, did, tcx.def_path_str(did)));
            }
        }
        let mut control_walks = Vec::new();
        if let Some(rc) = tcx.get_diagnostic_item(rustc_span::sym::RefCell) {
            control_walks.push(self.walk_root(rc));
        }
        // R19.3 support: for T in {f32, f64}, the body of every <T as num_traits::Float>::method and of the
        // core::ops arithmetic impls it is built on, so the rules can check that the trait forwards to the
        // primitive of the same name (inherent f32/f64 method or built-in operator).
        let mut float_impls = Vec::new();
        {
            let float_trait = tcx
                .all_traits_including_private()
                .find(|d| tcx.crate_name(d.krate).as_str() == "num_traits" && tcx.item_name(*d).as_str() == "Float"
                    && !tcx.def_path_str(*d).contains("FloatCore"));
            if std::env::var("EXMEX_FACTS_DEBUG").is_ok() {
                for d in tcx.all_traits_including_private() {
                    if tcx.crate_name(d.krate).as_str() == "num_traits" { eprintln!("trait {}", tcx.def_path_str(d)); }
                }
            }
            if let Some(ft) = float_trait {
                for (tyname, fty) in [("f32", tcx.types.f32), ("f64", tcx.types.f64)] {
                    for m in tcx.associated_item_def_ids(ft) {
                        if !matches!(tcx.def_kind(*m), DefKind::AssocFn) {
                            continue;
                        }
                        let args = tcx.mk_args(&[fty.into()]);
                        let inst = ty::Instance::try_resolve(tcx, TypingEnv::fully_monomorphized(), *m, args);
                        if std::env::var("EXMEX_FACTS_DEBUG").is_ok() {
                            eprintln!("resolve {} for {} -> {:?}", tcx.def_path_str(*m), tyname, inst.as_ref().map(|o| o.map(|i| (tcx.def_path_str(i.def_id()), tcx.is_mir_available(i.def_id())))));
                        }
                        if let Ok(Some(inst)) = inst {
                            let idid = inst.def_id();
                            if !tcx.is_mir_available(idid) {
                                continue;
                            }
                            let body = tcx.instance_mir(inst.def);
                            let mut blocks = Vec::new();
                            for (_, bb) in body.basic_blocks.iter_enumerated() {
                                blocks.push(self.block(idid, body, bb));
                            }
                            float_impls.push(obj(vec![
                                ("ty", s(tyname)),
                                ("method", s(tcx.item_name(*m).to_string())),
                                ("impl_path", s(tcx.def_path_str(idid))),
                                ("arg_count", n(body.arg_count as i128)),
                                ("blocks", J::Arr(blocks)),
                            ]));
                        }
                    }
                }
            }
        }
        // ADT table: local + seen external
        let mut adts = Vec::new();
        let mut all: HashSet<DefId> = self.adts_seen.clone();
        for d in &local_adts {
            all.insert(*d);
        }
        let mut all: Vec<(String, DefId)> =
            all.into_iter().map(|d| (tcx.def_path_str(d), d)).collect();
        all.sort_by(|a, b| a.0.cmp(&b.0));
        for (_, d) in all {
            adts.push(self.adt_json(d));
        }
        // cfg(not(feature..)) detection is done textually on the Python side.
        let features: Vec<J> = tcx
            .sess
            .opts
            .cg
            .target_feature
            .split(',')
            .filter(|x| !x.is_empty())
            .map(|x| s(x.to_string()))
            .collect();
        let cfgs: Vec<J> = tcx
            .sess
            .config
            .iter()
            .filter(|(k, _)| k.as_str() == "feature")
            .map(|(_, v)| s(v.map(|x| x.to_string()).unwrap_or_default()))
            .collect();
        obj(vec![
            ("nonce", s(nonce)),
            ("crate", s("exmex")),
            ("rustc", s(rustc_version())),
            ("cargo_features", J::Arr(cfgs)),
            ("target_features", J::Arr(features)),
            ("overflow_checks", J::Bool(tcx.sess.overflow_checks())),
            ("bodies", J::Arr(bodies)),
            ("promoted", J::Arr(promoted)),
            ("consts", J::Arr(consts)),
            ("adts", J::Arr(adts)),
            ("impls", J::Arr(impls)),
            ("traits", J::Arr(traits)),
            ("statics", J::Arr(statics)),
            ("sigs", J::Arr(sigs)),
            ("unsafe_blocks", J::Arr(unsafe_blocks)),
            ("type_walks", J::Arr(walks)),
            ("static_walks", J::Arr(static_walks)),
            ("control_walks", J::Arr(control_walks)),
            ("float_impls", J::Arr(float_impls)),
            (
                "externs",
                J::Obj(std::mem::take(&mut self.externs).into_iter().collect()),
            ),
        ])
    }
}

fn rustc_version() -> String {
    option_env!("CFG_VERSION").unwrap_or("nightly").to_string()
}

fn unwind_j(u: &mir::UnwindAction) -> J {
    match u {
        mir::UnwindAction::Cleanup(bb) => n(bb.index() as i128),
        _ => J::Null,
    }
}
